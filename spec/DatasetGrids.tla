---------------------------- MODULE DatasetGrids ----------------------------
(***************************************************************************)
(* X13 -- a dataset's derived members are the documented functions of its  *)
(* CURRENT data, noise map, PSF, mask and over-sampling, after any         *)
(* sequence of derivations (PyAutoArray: aa.Imaging / aa.Interferometer,   *)
(* GridsDataset, OverSamplingDataset).                                     *)
(*                                                                         *)
(* C11 decides that reading those members is PURE (cold twin); C14 the     *)
(* padding performed by apply_mask; C10 the blurring set; this module      *)
(* decides their VALUES along histories                                    *)
(*    Imaging(...) ; apply_mask ; apply_over_sampling ;                    *)
(*    apply_noise_scaling ; trimmed_after_convolution_from ; copy.copy     *)
(*                                                                         *)
(* A frame of shape h x w has cells numbered row-major 0 .. h*w-1 (row     *)
(* from the top, column from the left).  A mask is a Boolean sequence      *)
(* `um` of length h*w (TRUE = unmasked).  Data and noise are integer       *)
(* sequences in one unit (Python multiplies by a power of two; inputs are  *)
(* pairwise distinct, so that value equality decides data movement as      *)
(* tags would); a masked cell shows 0.  Coordinates are integers on a tick *)
(* lattice: g.hy, g.hx HALF pixel scales, g.oy, g.ox the origin.           *)
(* Over-sampling scheme OBJECTS are opaque ids 1,2,3,...  (0 = slot not    *)
(* given): the question is which object ends on which grid.                *)
(*                                                                         *)
(* Layer 1 (meaning) is parametrised so that Trace_DatasetGrids can fold   *)
(* the recorded history of any real dataset and judge what was read.       *)
(***************************************************************************)
EXTENDS Integers, Sequences, FiniteSets, TLC, Json, SequencesExt, FiniteSetsExt

CONSTANTS Insts,        \* sequence of constructor instances (records, see Construct); three fields bound the exploration per
                        \* instance: depth (number of derivations), fullr (frames with at most this many cells: every subset is a
                        \* region for apply_noise_scaling), lean (the smaller request / mode alphabets)
          FullCells,    \* frames with at most this many cells: EVERY non-empty subset is a mask for apply_mask
          FamMasks,     \* masks for larger frames: set of [h, w, m] (m = set of unmasked cells)
          FamRegions,   \* noise-scaling regions for larger frames: same format
          Requests,     \* over-sampling requests: set of <<bu, bn, bp>> (which of uniform / non_uniform / pixelization is given)
          RequestsLean, ScaleModesLean,   \* the alphabets of the instances explored deeper
          TrimKernels,  \* kernel shapes <<kh, kw>> (odd) for trimmed_after_convolution_from
          ScaleModes,   \* set of [mode |-> "value" / "snr", zero |-> BOOLEAN, snr |-> 1 / 2]
          Geoms         \* geometries [hy, hx, oy, ox] over which the coordinate theorem is checked

-----------------------------------------------------------------------------
(* Layer 1: meaning *)

Abs(x) == IF x < 0 THEN -x ELSE x
Pos(x) == IF x > 0 THEN x ELSE 0
Half(k) == k \div 2
RowOf(k, w) == k \div w
ColOf(k, w) == k % w
InFrame(i, j, h, w) == i >= 0 /\ i < h /\ j >= 0 /\ j < w
LinSeq(h, w) == [k \in 1 .. h*w |-> k-1]

\* ---- masks ------------------------------------------------------------------------------------
Full(h, w) == [k \in 1 .. h*w |-> TRUE]
IsFull(um) == \A k \in DOMAIN um : um[k]
MaskOfSet(m, h, w) == TLCEval([k \in 1 .. h*w |-> (k-1) \in m])
\* the slim order: unmasked cells, row-major
SlimLin(um) == SelectSeq([k \in 1 .. Len(um) |-> k-1], LAMBDA x : um[x+1])
Count(um) == Len(SlimLin(um))
Gather(seq, um) == LET sl == SlimLin(um) IN [k \in 1 .. Len(sl) |-> seq[sl[k]+1]]
\* the native form of a masked array shows 0 at masked cells
Masked(seq, um) == TLCEval([k \in DOMAIN seq |-> IF um[k] THEN seq[k] ELSE 0])

\* ---- geometry: pixel centres on the tick lattice (y decreases with the row, x increases with the column) ------
CentreY(i, h, g) == g.oy + (h - 1 - 2*i) * g.hy
CentreX(j, w, g) == g.ox + (2*j - (w - 1)) * g.hx
CentreOf(k, h, w, g) == << CentreY(RowOf(k, w), h, g), CentreX(ColOf(k, w), w, g) >>
GridOf(lins, h, w, g) == [k \in DOMAIN lins |-> CentreOf(lins[k], h, w, g)]

\* ---- windows: the h2 x w2 frame whose cell <<i,j>> shows cell <<i+oi, j+oj>> of an h x w frame (0 / masked outside) --
WinVals(seq, h, w, h2, w2, oi, oj) ==
    TLCEval([k \in 1 .. h2*w2 |->
        LET i == RowOf(k-1, w2) + oi
            j == ColOf(k-1, w2) + oj
        IN IF InFrame(i, j, h, w) THEN seq[i*w + j + 1] ELSE 0])
WinMask(um, h, w, h2, w2, oi, oj) ==
    TLCEval([k \in 1 .. h2*w2 |->
        LET i == RowOf(k-1, w2) + oi
            j == ColOf(k-1, w2) + oj
        IN IF InFrame(i, j, h, w) THEN um[i*w + j + 1] ELSE FALSE])

\* ---- the blurring region of a mask for an odd kernel kh x kw (C10) ---------------------------------------------
\* definition: the kernel footprint of some unmasked pixel leaves the frame
FootLeavesDef(um, h, w, kh, kw) ==
    \E k \in 1 .. h*w : um[k] /\ \E a \in -Half(kh) .. Half(kh), b \in -Half(kw) .. Half(kw) :
                                     ~ InFrame(RowOf(k-1, w) + a, ColOf(k-1, w) + b, h, w)
\* closed form: some unmasked pixel lies within half a kernel of the frame boundary
FootLeaves(um, h, w, kh, kw) ==
    \E k \in 1 .. h*w : um[k] /\ ( \/ RowOf(k-1, w) < Half(kh) \/ RowOf(k-1, w) > h - 1 - Half(kh)
                                   \/ ColOf(k-1, w) < Half(kw) \/ ColOf(k-1, w) > w - 1 - Half(kw) )
\* masked cells whose light the kernel carries into an unmasked cell, row-major
BlurLin(um, h, w, kh, kw) ==
    SelectSeq(LinSeq(h, w),
              LAMBDA x : /\ ~ um[x+1]
                         /\ \E a \in -Half(kh) .. Half(kh), b \in -Half(kw) .. Half(kw) :
                               /\ InFrame(RowOf(x, w) + a, ColOf(x, w) + b, h, w)
                               /\ um[(RowOf(x, w) + a) * w + ColOf(x, w) + b + 1])

\* ---- edge of a region (C10, two-sided): cells that MUST / MAY be reported as its edge ---------------------------
NbrIn(x, a, b, h, w) == InFrame(RowOf(x, w) + a, ColOf(x, w) + b, h, w)
NbrAt(rm, x, a, b, w) == rm[(RowOf(x, w) + a) * w + ColOf(x, w) + b + 1]
EdgeMustLin(rm, h, w) ==
    SelectSeq(LinSeq(h, w), LAMBDA x : rm[x+1] /\ \E a \in -1 .. 1, b \in -1 .. 1 :
                                           (a # 0 \/ b # 0) /\ NbrIn(x, a, b, h, w) /\ ~ NbrAt(rm, x, a, b, w))
EdgeMayLin(rm, h, w) ==
    SelectSeq(LinSeq(h, w), LAMBDA x : rm[x+1] /\ ~ (\A a \in -1 .. 1, b \in -1 .. 1 :
                                           (a # 0 \/ b # 0) => (NbrIn(x, a, b, h, w) /\ NbrAt(rm, x, a, b, w))))
\* twice the median of a non-empty sequence of integers (numpy: mean of the two middle values for an even count)
TwoMedian(vals) ==
    LET s == SortSeq(vals, LAMBDA a, b : a < b)
        c == Len(s)
    IN IF c % 2 = 1 THEN 2 * s[(c + 1) \div 2] ELSE s[c \div 2] + s[c \div 2 + 1]

-----------------------------------------------------------------------------
(* The dataset as a value.                                                                                         *)
(*   alive   FALSE: the call that would have made it raises, as documented (non-positive noise with the check on)  *)
(*   dom     FALSE: the history left what the documentation pins (see OutOfDomain uses); nothing is judged then    *)
(*   h,w,um,d,n   current frame, mask, native data and noise                                                       *)
(*   oi,oj   current cell <<0,0>> is cell <<oi,oj>> of the frame the constructor was given (padding / trimming)    *)
(*   os      <<uniform, non_uniform, pixelization>> scheme ids                                                     *)
(*   kh,kw   PSF shape, 0 = no PSF;  nm  1: PSF normalised, 0: kept as given, 2: either (derived from nm = 0)      *)
(*   par     the kept unmasked dataset (`unmasked` attribute), par.h = 0: none                                     *)
(*   c,cs    noise covariance: cs 0 none, 1: rows/columns of the given matrix in the order c, 2: stale (trimmed)   *)
(*   amb     a trimmed dataset became all-unmasked while still holding a different unmasked parent: which of the   *)
(*           two a later apply_mask starts from is not documented                                                  *)

NoPar == [h |-> 0, w |-> 0, d |-> << >>, n |-> << >>, oi |-> 0, oj |-> 0, c |-> << >>, cs |-> 0]
SelfAsPar(s) == [h |-> s.h, w |-> s.w, d |-> s.d, n |-> s.n, oi |-> s.oi, oj |-> s.oj, c |-> s.c, cs |-> s.cs]
OutOfDomain(s) == [s EXCEPT !.dom = FALSE]
Dead(s) == [s EXCEPT !.alive = FALSE]
HasPsf(s) == s.kh > 0
\* every derivation except trim / copy goes through the constructor, whose use_normalized_psf defaults to True
NormAfterCtor(s) == IF s.kh = 0 \/ s.nm = 1 THEN s.nm ELSE 2

\* the automatic padding of the constructor (pad_for_convolver): centred embedding, pads masked, zeros (C14)
PadCore(h, w, um, d, n, oi, oj, kh, kw) ==
    IF kh > 0 /\ FootLeaves(um, h, w, kh, kw)
    THEN [h |-> h + kh - 1, w |-> w + kw - 1,
          um |-> WinMask(um, h, w, h + kh - 1, w + kw - 1, -Half(kh), -Half(kw)),
          d |-> WinVals(d, h, w, h + kh - 1, w + kw - 1, -Half(kh), -Half(kw)),
          n |-> WinVals(n, h, w, h + kh - 1, w + kw - 1, -Half(kh), -Half(kw)),
          oi |-> oi - Half(kh), oj |-> oj - Half(kw)]
    ELSE [h |-> h, w |-> w, um |-> um, d |-> d, n |-> n, oi |-> oi, oj |-> oj]
NonPositiveNoise(um, n) == \E k \in DOMAIN um : um[k] /\ n[k] <= 0

\* aa.Imaging(data, noise_map, psf, noise_covariance_matrix, over_sampling, pad_for_convolver, use_normalized_psf, check_noise_map)
\* ini: [kind, h, w, u0 (unmasked cells of the data's mask, ascending), dv, nv, kh, kw, norm, pad, check, os, hasC]
\* aa.Interferometer: h, w, u0 are the real-space mask; dv / nv are not frames (visibilities are judged pointwise)
Construct(ini) ==
    LET um0 == MaskOfSet({ini.u0[k] : k \in DOMAIN ini.u0}, ini.h, ini.w)
        d0 == IF ini.kind = "img" THEN Masked(ini.dv, um0) ELSE << >>
        n0 == IF ini.kind = "img" THEN Masked(ini.nv, um0) ELSE << >>
        p == IF ini.kind = "img" /\ ini.pad
             THEN PadCore(ini.h, ini.w, um0, d0, n0, 0, 0, ini.kh, ini.kw)
             ELSE [h |-> ini.h, w |-> ini.w, um |-> um0, d |-> d0, n |-> n0, oi |-> 0, oj |-> 0]
        s == [alive |-> TRUE, dom |-> TRUE, amb |-> FALSE,
              h |-> p.h, w |-> p.w, um |-> p.um, d |-> p.d, n |-> p.n, oi |-> p.oi, oj |-> p.oj,
              os |-> ini.os, kh |-> ini.kh, kw |-> ini.kw, nm |-> IF ini.kh > 0 /\ ini.norm THEN 1 ELSE 0,
              par |-> NoPar,
              c |-> IF ini.hasC THEN LinSeq(ini.h, ini.w) ELSE << >>,
              cs |-> IF ini.hasC THEN (IF Count(um0) = ini.h * ini.w THEN 1 ELSE 2) ELSE 0]
    IN IF ini.kind = "img" /\ ini.check /\ NonPositiveNoise(um0, n0) THEN Dead(s) ELSE s

\* ---- the derivations ------------------------------------------------------------------------------------------
\* a step is a record with all of the fields  a, mh, mw, m, req, mode, nval, snr, zero, kh, kw  (homogeneous logs)
Blank == [a |-> "none", mh |-> 0, mw |-> 0, m |-> << >>, req |-> << 0, 0, 0 >>, mode |-> "value", nval |-> 0,
          snr |-> 1, zero |-> FALSE, kh |-> 1, kw |-> 1]
CellsOk(m, h, w) == \A k \in DOMAIN m : m[k] >= 0 /\ m[k] < h*w
Ambiguous(s) == IsFull(s.um) /\ s.par.h > 0 /\ << s.par.h, s.par.w, s.par.d, s.par.n >> # << s.h, s.w, s.d, s.n >>

\* Imaging.apply_mask(mask): "every mask is always applied to the original unmasked imaging dataset" (kept as `unmasked`);
\* the data's own frame when it is not masked.  The constructor then pads for the PSF and checks the noise map.
StepMask(s, a) ==
    IF (~ IsFull(s.um) /\ s.par.h = 0) \/ Ambiguous(s) THEN OutOfDomain(s)
    ELSE LET b == IF IsFull(s.um) THEN SelfAsPar(s) ELSE s.par IN
         IF a.mh # b.h \/ a.mw # b.w \/ a.m = << >> \/ ~ CellsOk(a.m, b.h, b.w) THEN OutOfDomain(s)
         ELSE LET um1 == MaskOfSet({a.m[k] : k \in DOMAIN a.m}, b.h, b.w)
                  p == PadCore(b.h, b.w, um1, Masked(b.d, um1), Masked(b.n, um1), b.oi, b.oj, s.kh, s.kw)
                  rowsOk == b.cs = 1 /\ Len(b.c) = b.h * b.w
              IN IF NonPositiveNoise(um1, b.n) THEN Dead(s)
                 ELSE [s EXCEPT !.h = p.h, !.w = p.w, !.um = p.um, !.d = p.d, !.n = p.n, !.oi = p.oi, !.oj = p.oj,
                                !.par = b, !.nm = NormAfterCtor(s),
                                !.c = IF rowsOk THEN Gather(b.c, um1) ELSE << >>,
                                !.cs = IF b.cs = 0 THEN 0 ELSE IF rowsOk THEN 1 ELSE 2]

\* apply_over_sampling(OverSamplingDataset(...)): a given slot replaces, an unspecified slot keeps the dataset's scheme;
\* nothing else about the dataset is said to change
StepOS(s, a) ==
    [s EXCEPT !.os = [k \in 1 .. 3 |-> IF a.req[k] # 0 THEN a.req[k] ELSE s.os[k]], !.nm = NormAfterCtor(s)]

\* apply_noise_scaling(mask, noise_value | signal_to_noise_value, should_zero_data): "can only be applied before actual
\* masking".  On the False region of the given mask the noise becomes the value and the data 0; nothing else changes.
\* With a signal-to-noise value the value is  median(data on the edge of the region) / snr : pinned here only where C10
\* pins the edge (must = may, non-empty) and the median is positive (the docstring is silent on the sign).
StepScale(s, a) ==
    IF ~ IsFull(s.um) \/ a.mh # s.h \/ a.mw # s.w \/ ~ CellsOk(a.m, s.h, s.w) THEN OutOfDomain(s)
    ELSE LET rm == MaskOfSet({a.m[k] : k \in DOMAIN a.m}, s.h, s.w)
             must == EdgeMustLin(rm, s.h, s.w)
             pinned == must # << >> /\ must = EdgeMayLin(rm, s.h, s.w)
             tm == IF pinned THEN TwoMedian([k \in DOMAIN must |-> s.d[must[k] + 1]]) ELSE 0
             v == IF a.mode = "value" THEN a.nval ELSE tm \div (2 * a.snr)
         IN IF a.mode # "value" /\ (~ pinned \/ tm <= 0 \/ tm % (2 * a.snr) # 0) THEN OutOfDomain(s)
            ELSE [s EXCEPT !.d = TLCEval([k \in DOMAIN s.d |-> IF rm[k] /\ a.zero THEN 0 ELSE s.d[k]]),
                           !.n = TLCEval([k \in DOMAIN s.n |-> IF rm[k] THEN v ELSE s.n[k]]),
                           !.par = NoPar, !.nm = NormAfterCtor(s)]

\* trimmed_after_convolution_from(kernel_shape): data and noise map lose (k-1)/2 pixels on every side (centred crop, C14),
\* the mask with them; PSF, schemes and the kept unmasked dataset stay
StepTrim(s, a) ==
    LET h2 == s.h - (a.kh - 1)
        w2 == s.w - (a.kw - 1)
    IN IF a.kh % 2 = 0 \/ a.kw % 2 = 0 \/ a.kh < 1 \/ a.kw < 1 \/ h2 < 1 \/ w2 < 1 THEN OutOfDomain(s)
       ELSE LET um2 == WinMask(s.um, s.h, s.w, h2, w2, Half(a.kh), Half(a.kw))
                t == [s EXCEPT !.h = h2, !.w = w2, !.um = um2,
                               !.d = WinVals(s.d, s.h, s.w, h2, w2, Half(a.kh), Half(a.kw)),
                               !.n = WinVals(s.n, s.h, s.w, h2, w2, Half(a.kh), Half(a.kw)),
                               !.oi = s.oi + Half(a.kh), !.oj = s.oj + Half(a.kw),
                               !.cs = IF s.cs = 1 /\ Count(um2) # Count(s.um) THEN 2 ELSE s.cs]
            IN IF Count(um2) = 0 THEN OutOfDomain(s)
               ELSE [t EXCEPT !.amb = s.amb \/ Ambiguous(t)]

Step(s, a) ==
    IF ~ s.alive \/ ~ s.dom THEN s
    ELSE CASE a.a = "mask"  -> StepMask(s, a)
           [] a.a = "os"    -> StepOS(s, a)
           [] a.a = "scale" -> StepScale(s, a)
           [] a.a = "trim"  -> StepTrim(s, a)
           [] a.a = "copy"  -> s
           [] OTHER         -> OutOfDomain(s)

\* the dataset after the first k steps of a history
RECURSIVE RunHist(_, _, _)
RunHist(ini, steps, k) == IF k = 0 THEN Construct(ini) ELSE Step(RunHist(ini, steps, k - 1), steps[k])

\* ---- what the members are, as functions of the dataset value ---------------------------------------------------
PixelGrid(s, g) == GridOf(SlimLin(s.um), s.h, s.w, g)
BlurKind(s) == IF ~ HasPsf(s) THEN "none" ELSE IF FootLeaves(s.um, s.h, s.w, s.kh, s.kw) THEN "err" ELSE "grid"
BlurGrid(s, g) == GridOf(BlurLin(s.um, s.h, s.w, s.kh, s.kw), s.h, s.w, g)
ConvolverExists(s) == HasPsf(s) /\ ~ FootLeaves(s.um, s.h, s.w, s.kh, s.kw)

-----------------------------------------------------------------------------
(* Layer 2: the bounded machine.  Init picks a constructor instance, every action is one public derivation; the    *)
(* history is part of the state, so the state graph is the tree of ALL derivation sequences up to the depth and each  *)
(* node is dumped once (it is replayed on real objects, all members read at every node).  The depth is a field of   *)
(* the instance, so that tiny frames can be followed deeper than larger ones in one run.                            *)

VARIABLES iid, hist, st
vars == << iid, hist, st >>

Ini == Insts[iid]
CanAct == st.alive /\ st.dom /\ Len(hist) < Ini.depth
IsImg == Ini.kind = "img"
MaxOf(S) == CHOOSE x \in S : \A y \in S : x >= y
NextId == 1 + MaxOf({0} \cup {Ini.os[k] : k \in 1 .. 3}
                        \cup UNION {{hist[j].req[k] : k \in 1 .. 3} : j \in DOMAIN hist})
NoiseValue == 16 * (Len(hist) + 1)   \* a fresh value per step, above every input noise value

MasksOf(h, w) == IF h*w <= FullCells THEN (SUBSET (0 .. h*w - 1)) \ {{}}
                 ELSE { f.m : f \in { x \in FamMasks : x.h = h /\ x.w = w } }
RegionsOf(h, w) == IF h*w <= Ini.fullr THEN SUBSET (0 .. h*w - 1)
                   ELSE { f.m : f \in { x \in FamRegions : x.h = h /\ x.w = w } }
BaseShape(s) == IF IsFull(s.um) THEN << s.h, s.w >> ELSE << s.par.h, s.par.w >>

Dump == PrintT(ToJson([k |-> "inst", iid |-> iid, hist |-> hist']))
Take(a) == /\ Step(st, a).dom         \* (only derivations inside the documented domain are taken)
           /\ st' = Step(st, a)
           /\ hist' = Append(hist, a)
           /\ UNCHANGED iid
           /\ Dump

Init == /\ iid \in 1 .. Len(Insts)
        /\ hist = << >>
        /\ st = Construct(Insts[iid])

ApplyMask ==
    /\ CanAct /\ IsImg
    /\ \E m \in MasksOf(BaseShape(st)[1], BaseShape(st)[2]) :
          Take([Blank EXCEPT !.a = "mask", !.mh = BaseShape(st)[1], !.mw = BaseShape(st)[2], !.m = SetToSortSeq(m, <)])

ApplyOverSampling ==
    /\ CanAct
    /\ \E q \in (IF Ini.lean THEN RequestsLean ELSE Requests) :
          LET i1 == NextId
              i2 == i1 + (IF q[1] THEN 1 ELSE 0)
              i3 == i2 + (IF q[2] THEN 1 ELSE 0)
          IN Take([Blank EXCEPT !.a = "os", !.req = << IF q[1] THEN i1 ELSE 0, IF q[2] THEN i2 ELSE 0, IF q[3] THEN i3 ELSE 0 >>])

ApplyNoiseScaling ==
    /\ CanAct /\ IsImg /\ IsFull(st.um)
    /\ \E m \in RegionsOf(st.h, st.w), md \in (IF Ini.lean THEN ScaleModesLean ELSE ScaleModes) :
          Take([Blank EXCEPT !.a = "scale", !.mh = st.h, !.mw = st.w, !.m = SetToSortSeq(m, <), !.mode = md.mode,
                             !.zero = md.zero, !.snr = md.snr, !.nval = NoiseValue])

Trim ==
    /\ CanAct /\ IsImg
    /\ \E ks \in TrimKernels : Take([Blank EXCEPT !.a = "trim", !.kh = ks[1], !.kw = ks[2]])

Copy ==
    /\ CanAct
    /\ Take([Blank EXCEPT !.a = "copy"])

Next == ApplyMask \/ ApplyOverSampling \/ ApplyNoiseScaling \/ Trim \/ Copy
Spec == Init /\ [][Next]_vars

-----------------------------------------------------------------------------
(* Layer 3: properties of the design, checked by TLC on every derivation sequence *)

Judged == st.alive /\ st.dom
LastAct == IF hist = << >> THEN "ctor" ELSE hist[Len(hist)].a
BaseLin(k) == (RowOf(k-1, st.w) + st.oi) * Ini.w + ColOf(k-1, st.w) + st.oj      \* cell of the constructor's frame under cell k
Scaled == \E j \in DOMAIN hist : hist[j].a = "scale"
Zeroed == \E j \in DOMAIN hist : hist[j].a = "scale" /\ hist[j].zero

\* the state is the fold of its history (the machine and the trace specification use the same operators)
StateIsFoldOfHistory == st = RunHist(Ini, hist, Len(hist))

\* MembersDescribeCurrentState, part 1: every unmasked pixel of a derived dataset is a pixel of the constructor's frame,
\* at its own scaled coordinate, holding its own datum (or 0 where noise scaling zeroed it) and its own noise value
\* (unless noise scaling replaced it), whatever padding / trimming / re-masking lies between
SurvivorsKeepCoordinatesAndValues ==
    Judged /\ IsImg =>
        \A k \in 1 .. st.h * st.w : st.um[k] =>
            /\ InFrame(RowOf(k-1, st.w) + st.oi, ColOf(k-1, st.w) + st.oj, Ini.h, Ini.w)
            /\ \A g \in Geoms : CentreOf(k-1, st.h, st.w, g) = CentreOf(BaseLin(k), Ini.h, Ini.w, g)
            /\ st.d[k] \in {Ini.dv[BaseLin(k) + 1], 0}
            /\ (~ Zeroed => st.d[k] = Ini.dv[BaseLin(k) + 1])
            /\ (~ Scaled => st.n[k] = Ini.nv[BaseLin(k) + 1])
\* part 2: masked cells show 0, the frame and the mask agree in size
MaskedCellsShowZero ==
    Judged /\ IsImg =>
        /\ Len(st.um) = st.h * st.w /\ Len(st.d) = st.h * st.w /\ Len(st.n) = st.h * st.w
        /\ \A k \in 1 .. st.h * st.w : ~ st.um[k] => st.d[k] = 0 /\ st.n[k] = 0
\* part 3: a dataset made by apply_mask always has room for its blurring region (that is what the padding is for), so its
\* blurring grid and convolver exist exactly when it has a PSF; the two formulations of "the footprint leaves" agree
MaskedDatasetHasItsBlurringRegion ==
    Judged /\ IsImg =>
        /\ (LastAct = "mask" /\ HasPsf(st) => BlurKind(st) = "grid" /\ ConvolverExists(st))
        /\ (~ HasPsf(st) => BlurKind(st) = "none" /\ ~ ConvolverExists(st))
        /\ \A ks \in TrimKernels \cup {<< 1, 1 >>} :
              FootLeaves(st.um, st.h, st.w, ks[1], ks[2]) <=> FootLeavesDef(st.um, st.h, st.w, ks[1], ks[2])
        /\ \A x \in {BlurLin(st.um, st.h, st.w, 3, 3)[j] : j \in DOMAIN BlurLin(st.um, st.h, st.w, 3, 3)} : ~ st.um[x+1]

\* SchemesMergeAsDocumented: every slot holds the object of the latest request that gave it, else the constructor's
LatestGiven(slot) ==
    LET js == { j \in DOMAIN hist : hist[j].a = "os" /\ hist[j].req[slot] # 0 }
    IN IF js = {} THEN Ini.os[slot] ELSE hist[MaxOf(js)].req[slot]
SchemesMergeAsDocumented == Judged => \A slot \in 1 .. 3 : st.os[slot] = LatestGiven(slot)

\* NoiseScalingTouchesExactlyTheRegion (an action property)
NoiseScalingTouchesExactlyTheRegion ==
    [][ (hist' # hist /\ hist'[Len(hist')].a = "scale" /\ st'.dom) =>
          LET a == hist'[Len(hist')]
              R == {a.m[k] : k \in DOMAIN a.m}
          IN /\ st'.h = st.h /\ st'.w = st.w /\ st'.um = st.um /\ st'.os = st.os /\ st'.c = st.c
             /\ \A k \in 1 .. st.h * st.w :
                   IF (k-1) \in R
                   THEN /\ st'.d[k] = IF a.zero THEN 0 ELSE st.d[k]
                        /\ (a.mode = "value" => st'.n[k] = a.nval)
                        /\ \A k2 \in 1 .. st.h * st.w : (k2-1) \in R => st'.n[k2] = st'.n[k]
                   ELSE st'.d[k] = st.d[k] /\ st'.n[k] = st.n[k] ]_vars

\* SecondMaskAppliesToUnmaskedParent: a masked dataset holds its unmasked parent, every unmasked pixel shows the parent's
\* values at its place ...
ParentHoldsTheUnmaskedData ==
    Judged /\ IsImg /\ st.par.h > 0 /\ ~ IsFull(st.um) =>
        \A k \in 1 .. st.h * st.w : st.um[k] =>
            LET i == RowOf(k-1, st.w) + st.oi - st.par.oi
                j == ColOf(k-1, st.w) + st.oj - st.par.oj
            IN /\ InFrame(i, j, st.par.h, st.par.w)
               /\ st.d[k] = st.par.d[i * st.par.w + j + 1] /\ st.n[k] = st.par.n[i * st.par.w + j + 1]
\* ... and only the LAST mask of a history counts: the result of  p ; apply_mask(M)  is the result of  p' ; apply_mask(M)
\* where p' is p without its earlier masks and without what was trimmed off masked data that holds its unmasked parent
Unmasking(steps) ==
    LET keep == { j \in DOMAIN steps :
                    \/ steps[j].a \in {"os", "scale", "copy"}
                    \/ steps[j].a = "trim" /\ LET s == RunHist(Ini, steps, j - 1) IN IsFull(s.um) \/ s.par.h = 0 }
    IN SelectSeq([j \in DOMAIN steps |-> IF j \in keep THEN steps[j] ELSE Blank], LAMBDA x : x.a # "none")
Core(s) == << s.alive, s.h, s.w, s.um, s.d, s.n, s.oi, s.oj, s.os, s.c, s.cs >>
OnlyTheLastMaskCounts ==
    st.alive /\ st.dom /\ ~ st.amb /\ LastAct = "mask" =>
        LET p == SubSeq(hist, 1, Len(hist) - 1)
            q == Append(Unmasking(p), hist[Len(hist)])
        IN Core(st) = Core(RunHist(Ini, q, Len(q)))

\* consequences of dropping things at a derivation that the documentation does not mention (for the record; TLC shows the
\* counterexamples when these are turned into the implementation's behaviour -- see the known findings of X13)
OverSamplingKeepsTheRest ==
    [][ (hist' # hist /\ hist'[Len(hist')].a = "os") =>
          /\ st'.par = st.par /\ st'.c = st.c /\ st'.cs = st.cs
          /\ << st'.h, st'.w, st'.um, st'.d, st'.n >> = << st.h, st.w, st.um, st.d, st.n >> ]_vars
=============================================================================
