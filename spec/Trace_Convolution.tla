------------------------- MODULE Trace_Convolution -------------------------
(***************************************************************************)
(* Validation of recorded executions of the real convolution code against  *)
(* Convolution.tla (C03).  One record per group of public calls on one     *)
(* (mask, kernel); numbers are the float results divided by the known      *)
(* power-of-two scale (OffLattice marks a value that was not an integer    *)
(* multiple of the scale, or not finite).  Verdicts are total: every       *)
(* record is judged by named clauses; a rejected record is printed with    *)
(* the failing clauses, the signature of its input class and the value the *)
(* specification wanted.                                                   *)
(*                                                                         *)
(* Common fields: p, id, api, err ("" or the exception the call raised),   *)
(*   h, w (frame), kh, kw, k (flat kernel), u (unmasked linear indices).   *)
(***************************************************************************)
EXTENDS Convolution, IOUtils

Trace == JsonDeserialize(IOEnv.TRACE_FILE)

VARIABLE i

OffLattice == 999999999

Un(r) == { CellOf(r.u[n], r.w) : n \in DOMAIN r.u }
LinSeq(cells, W) == [n \in 1 .. Len(cells) |-> Lin(cells[n], W)]
Cl(n, b) == [n |-> n, ok |-> b]

OnLattice1(s) == \A n \in DOMAIN s : s[n] # OffLattice
OnLattice2(s) == \A n \in DOMAIN s : OnLattice1(s[n])

IsMatrix(m, rows) == /\ Len(m) = rows
                     /\ \A n \in DOMAIN m : Len(m[n]) = Len(m[1])
PosPart(m) == [a \in DOMAIN m |-> [b \in DOMAIN m[a] |-> IF m[a][b] > 0 THEN m[a][b] ELSE 0]]
HasNegative(m) == \E a \in DOMAIN m : \E b \in DOMAIN m[a] : m[a][b] < 0

ExpectedMatrix(r) == BlurMatrix(Un(r), r.k, r.h, r.w, r.kh, r.kw, r.m)

Clauses(r) ==
    IF r.api = "even" THEN
        \* Convolver(mask, kernel), Kernel2D.convolved_array_from, Kernel2D.convolved_array_with_mask_from
        << Cl("even-kernel-rejected",
              IF OddKernel(r.kh, r.kw) THEN \A n \in DOMAIN r.raised : r.raised[n] = ""
              ELSE \A n \in DOMAIN r.raised : r.raised[n] = "KernelException") >>
    ELSE IF r.err # "" THEN << Cl("no-error-for-odd-kernel-inside-frame", FALSE) >>
    ELSE LET u == Un(r) IN
    CASE r.api = "operator" ->
           \* the operator extracted by feeding basis images: rows = sources, columns = targets (slim order)
           LET oi == OpImage(u, r.k, r.h, r.w, r.kh, r.kw)
           IN << Cl("on-lattice", OnLattice2(r.opi) /\ OnLattice2(r.opb) /\ OnLattice2(r.opn)),
                 Cl("blurring-region", r.bl = LinSeq(BlSeq(u, r.h, r.w, r.kh, r.kw), r.w)),
                 Cl("image-operator", r.opi = oi),
                 Cl("blurring-operator", r.opb = OpBlur(u, r.k, r.h, r.w, r.kh, r.kw)),
                 Cl("no-blurring-operator", r.opn = oi),
                 Cl("payload-independent", r.real_ok) >>
      [] r.api = "image" ->
           \* one dense signed native image with junk outside mask + blurring region
           << Cl("on-lattice", OnLattice1(r.out) /\ OnLattice1(r.outn)),
              Cl("blurred-image-is-full-convolution-on-mask",
                 r.out = MaskedBlurOfNative(u, r.k, r.h, r.w, r.kh, r.kw, r.img)),
              Cl("no-blurring-image", r.outn = NoBlur(u, r.k, r.h, r.w, r.kh, r.kw, GatherOn(r.img, SlimSeq(u, r.h, r.w), r.w))),
              Cl("junk-outside-never-influences", r.junk_ok) >>
      [] r.api = "matrix" ->
           << Cl("on-lattice", OnLattice2(r.out)),
              Cl("matrix-is-columnwise-operator", IsMatrix(r.m, Cardinality(u)) /\ r.out = ExpectedMatrix(r)) >>
      [] r.api = "whole_frame" ->
           \* Kernel2D.convolved_array_from on the unmasked frame; ..._with_mask_from read on mask u; outc is
           \* Convolver(mask u, the same kernel object).convolve_image of the same native image.  The kernel object may
           \* have a history (r.history: derived by arithmetic from a kernel that was already used); its values are r.k.
           LET wf == WholeFrame(r.img, r.k, r.h, r.w, r.kh, r.kw)
           IN << Cl("on-lattice", OnLattice1(r.out) /\ OnLattice1(r.outm) /\ OnLattice1(r.outc)),
                 Cl("whole-frame-convolution", r.out = wf),
                 Cl("whole-frame-with-mask", r.outm = GatherOn(wf, SlimSeq(u, r.h, r.w), r.w)),
                 Cl("convolver-of-same-kernel", r.outc = MaskedBlurOfNative(u, r.k, r.h, r.w, r.kh, r.kw, r.img)),
                 Cl("whole-frame-agrees-with-convolver-on-mask", r.outm = r.outc) >>
      [] r.api = "simfit" ->
           \* SimulatorImaging (add_poisson_noise_to_data = False; background sky r.sky in data units, subtracted
           \* again iff r.subtract; any PSF normalisation / noise-map option) -> apply_mask -> convolver with the
           \* generating image.  The data contain the convolved image plus the sky that was declared left in.
           LET left == IF r.subtract THEN 0 ELSE r.sky
               conv == WholeFrameOn(r.img, r.k, r.h, r.w, r.kh, r.kw, SlimSeq(u, r.h, r.w))
           IN << Cl("on-lattice", OnLattice1(r.data) /\ OnLattice1(r.model)),
                 Cl("simulated-data-is-whole-frame-convolution-plus-sky-left-in",
                    r.data = [n \in DOMAIN conv |-> conv[n] + left]),
                 Cl("model-is-masked-blur", r.model = MaskedBlurOfNative(u, r.k, r.h, r.w, r.kh, r.kw, r.img)),
                 Cl("residual-zero", r.resid_zero /\ [n \in DOMAIN r.data |-> r.data[n] - left] = r.model) >>
      [] OTHER -> << Cl("unknown-api", FALSE) >>

Want(r) ==
    IF r.api = "even" THEN << "KernelException" >>
    ELSE IF r.err # "" THEN << "no exception" >>
    ELSE LET u == Un(r) IN
    CASE r.api = "operator" -> [bl |-> LinSeq(BlSeq(u, r.h, r.w, r.kh, r.kw), r.w),
                                opi |-> OpImage(u, r.k, r.h, r.w, r.kh, r.kw),
                                opb |-> OpBlur(u, r.k, r.h, r.w, r.kh, r.kw)]
      [] r.api = "image" -> [out |-> MaskedBlurOfNative(u, r.k, r.h, r.w, r.kh, r.kw, r.img)]
      [] r.api = "matrix" -> IF IsMatrix(r.m, Cardinality(u)) THEN [out |-> ExpectedMatrix(r)] ELSE << "malformed" >>
      [] r.api = "whole_frame" -> [out |-> WholeFrame(r.img, r.k, r.h, r.w, r.kh, r.kw)]
      [] r.api = "simfit" -> [data_less_sky_left_in |-> WholeFrameOn(r.img, r.k, r.h, r.w, r.kh, r.kw, SlimSeq(u, r.h, r.w))]
      [] OTHER -> << >>

\* Signature of the failing input class (matches known findings); suffix ":after-failed-call" when the judged calls
\* followed a refused call on the same Convolver (the clauses are the same: a failed call changes nothing).
\* A simulate -> fit record made with an
\* unnormalised kernel taken as it is (normalize_psf=False) whose masked dataset no longer carries the simulation's
\* kernel (r.psf_kept false) and whose model is exactly the blur with the kernel divided by its sum r.q gets its own
\* signature.  The other class singled out: a mapping matrix
\* with a negative entry whose result is exactly the operator applied to the POSITIVE PART of the matrix, i.e.
\* the negative entries were dropped.  Any other wrong result on such a matrix keeps the plain signature.
\* records whose judged calls were made on a convolver that had just refused a call (r.failed lists the refused calls)
AfterFailed(r) == "failed" \in DOMAIN r /\ r.failed # << >>

SigBase(r) ==
    IF r.api = "matrix" /\ r.err = ""
    THEN IF /\ IsMatrix(r.m, Cardinality(Un(r)))
            /\ HasNegative(r.m)
            /\ r.out = BlurMatrix(Un(r), r.k, r.h, r.w, r.kh, r.kw, PosPart(r.m))
         THEN "convolve_mapping_matrix:NegativeEntriesDropped"
         ELSE "convolve_mapping_matrix"
    ELSE IF r.api = "even" THEN "even_kernel"
    ELSE IF r.err # "" THEN r.api \o ":raised"
    ELSE IF /\ r.api = "simfit" /\ r.norm = "raw_asis" /\ ~ r.psf_kept
            /\ [n \in DOMAIN r.model |-> r.model[n] * r.q] = MaskedBlurOfNative(Un(r), r.k, r.h, r.w, r.kh, r.kw, r.img)
         THEN "simfit:unnormalised-psf-renormalised-by-apply_mask"
    ELSE IF r.api \in {"whole_frame", "simfit"} /\ r.history # "fresh" THEN r.api \o ":derived-kernel"
    ELSE IF r.api = "simfit" /\ r.sky # 0 THEN "simfit:background-sky"
    ELSE r.api

Sig(r) == LET base == SigBase(r) IN IF AfterFailed(r) /\ r.err = "" THEN base \o ":after-failed-call" ELSE base

Failed(r) == SelectSeq(Clauses(r), LAMBDA c : ~ c.ok)

TraceInit == /\ i = 1
             /\ shape = <<1, 1>> /\ ks = <<1, 1>> /\ variant = "pos" /\ kern = <<1>> /\ simopt = NoSim /\ U = {}
             /\ phase = "trace" /\ frames = << >> /\ op = << >> /\ sim = << >>

TraceNext ==
    /\ i <= Len(Trace)
    /\ LET r == Trace[i]
           f == Failed(r)
       IN IF f = << >> THEN TRUE
          ELSE PrintT(ToJson([k |-> "reject", i |-> i, id |-> r.id,
                              clauses |-> [j \in DOMAIN f |-> f[j].n],
                              sig |-> Sig(r), want |-> Want(r)]))
    /\ i' = i + 1
    /\ UNCHANGED vars

TraceSpec == TraceInit /\ [][TraceNext]_<< vars, i >>
TraceAccepted == TLCGet("stats").diameter - 1 = Len(Trace)
=============================================================================
