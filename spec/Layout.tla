------------------------------- MODULE Layout -------------------------------
(***************************************************************************)
(* Layout regions of PyAutoArray (C19): read-out rotations of arrays and   *)
(* regions, regions after the extraction of a window, front / trailing     *)
(* sub-regions, validation of regions.  Pure integers.                     *)
(*                                                                         *)
(* An array with H rows and W columns is a sequence of H rows of W entries.*)
(* Entries are never values: they are TAGS naming the cell of the original *)
(* frame an entry comes from (Ident(H, W)[i][j] = (i-1)*W + (j-1)), so     *)
(* that "the same content" is decidable structurally.                      *)
(* A 2D region is <<y0, y1, x0, x1>> (rows y0 .. y1-1, columns x0 .. x1-1, *)
(* half open, 0-based), a 1D region / interval is <<x0, x1>>.              *)
(* A read-out corner is <<a, b>>: a = 1 bottom / a = 0 top, b = 0 left /   *)
(* b = 1 right.  "Rotating" brings that corner to the bottom left <<1,0>>. *)
(*                                                                         *)
(* Layer 1 (meaning) is parametrised by shapes so that the bounded machine *)
(* and the trace specification share it.                                   *)
(***************************************************************************)
EXTENDS Integers, Sequences, FiniteSets, TLC, Json, FiniteSetsExt

CONSTANTS RotShapes,  \* set of <<H,W>>: arrays on which every region and corner is explored
          IvMax,      \* interval quadruples for 1D extraction are drawn from 0 .. IvMax
          ExtShapes,  \* set of <<H,W>>: frames in which every (region, window) pair is explored
          SubShapes,  \* set of <<H,W>>: frames in which every parent region is explored for sub-regions
          Sub1Max,    \* 1D parents are drawn from 0 .. Sub1Max
          PxMax,      \* pixel ranges (a, b) are drawn from 0 .. PxMax
          CtorLo,     \* constructor arguments are drawn from CtorLo .. CtorHi
          CtorHi,
          HistShapes, \* set of <<H,W>>: frames on which layout histories are explored
          HistDepth,  \* number of Rotate / Extract steps after the layout has been built
          HistAllSlots, \* TRUE: the explored region is placed in each of the three layout slots in turn
          MaskShapes  \* set of <<H,W>>: frames on which every (non-empty) mask and corner is explored for masked arrays

Absent   == << >>    \* "no region" (None in the code)
Rejected == << >>    \* "the constructor raised"

-----------------------------------------------------------------------------
(* Layer 1: meaning *)

Corners == { <<1, 0>>, <<0, 0>>, <<1, 1>>, <<0, 1>> }
FlipsRows(c) == c[1] = 0   \* read-out electronics at the top: mirror the rows to bring them to the bottom
FlipsCols(c) == c[2] = 1   \* read-out electronics on the right: mirror the columns to bring them to the left

Rows(A) == Len(A)
Cols(A) == IF Len(A) = 0 THEN 0 ELSE Len(A[1])
Ident(H, W) == [i \in 1 .. H |-> [j \in 1 .. W |-> (i-1) * W + (j-1)]]

\* where the cell p = <<i,j>> (0-based) of an H x W frame lies after the rotation for corner c
RotCell(c, H, W, p) == << IF FlipsRows(c) THEN H - 1 - p[1] ELSE p[1],
                          IF FlipsCols(c) THEN W - 1 - p[2] ELSE p[2] >>
\* the rotated array: RotCell is its own inverse, so position p holds what was at RotCell(p)
RotArray(c, A) ==
    LET H == Rows(A)
        W == Cols(A)
    IN [i \in 1 .. H |-> [j \in 1 .. W |->
            LET q == RotCell(c, H, W, <<i-1, j-1>>) IN A[q[1] + 1][q[2] + 1]]]

\* regions
Valid1(p) == p[1] >= 0 /\ p[2] >= 0 /\ p[1] < p[2]
Valid2(r) == r[1] >= 0 /\ r[2] >= 0 /\ r[3] >= 0 /\ r[4] >= 0 /\ r[1] < r[2] /\ r[3] < r[4]
\* "negative or empty extents"
Invalid1(p) == p[1] < 0 \/ p[2] < 0 \/ p[2] - p[1] <= 0
Invalid2(r) == r[1] < 0 \/ r[2] < 0 \/ r[3] < 0 \/ r[4] < 0 \/ r[2] - r[1] <= 0 \/ r[4] - r[3] <= 0
Inside(r, H, W) == Valid2(r) /\ r[2] <= H /\ r[4] <= W
CellsOf(r) == (r[1] .. r[2]-1) \X (r[3] .. r[4]-1)
Cells2(H, W) == (0 .. H-1) \X (0 .. W-1)
\* the box spanned by a non-empty set of cells
BoxOf(S) == LET ys == { p[1] : p \in S }
                xs == { p[2] : p \in S }
            IN << Min(ys), Max(ys) + 1, Min(xs), Max(xs) + 1 >>
Intervals(n) == { p \in (0 .. n) \X (0 .. n) : p[1] < p[2] }
Regions2(H, W) == { y \o x : y \in Intervals(H), x \in Intervals(W) }

\* the content a region addresses in an array
Slice(A, r) == [i \in 1 .. (r[2] - r[1]) |-> [j \in 1 .. (r[4] - r[3]) |-> A[r[1] + i][r[3] + j]]]
Slice1(a, p) == [j \in 1 .. (p[2] - p[1]) |-> a[p[1] + j]]

\* the rotated region: the box occupied by the cells of r after every cell has been moved by the rotation
RotRegion(c, sh, r) == BoxOf({ RotCell(c, sh[1], sh[2], p) : p \in CellsOf(r) })
\* second formulation, shaped like rotate_region_via_roe_corner_from
RotRegionCode(c, sh, r) ==
    CASE c = <<1, 0>> -> r
      [] c = <<0, 0>> -> << sh[1] - r[2], sh[1] - r[1], r[3], r[4] >>
      [] c = <<1, 1>> -> << r[1], r[2], sh[2] - r[4], sh[2] - r[3] >>
      [] c = <<0, 1>> -> << sh[1] - r[2], sh[1] - r[1], sh[2] - r[4], sh[2] - r[3] >>

\* ---- extraction of a window e: the region that addresses, inside the window, the overlap of o and e ----
OverlapCells(o, e) == CellsOf(o) \cap CellsOf(e)
AfterExtraction(o, e) ==
    IF OverlapCells(o, e) = {} THEN Absent
    ELSE LET b == BoxOf(OverlapCells(o, e)) IN << b[1] - e[1], b[2] - e[1], b[3] - e[3], b[4] - e[3] >>
\* BEGIN shared-interval-operators (repeated verbatim in Layout_Apalache.tla, where the identity is proved for all naturals)
Max2(a, b) == IF a > b THEN a ELSE b
Min2(a, b) == IF a < b THEN a ELSE b
\* code-shaped formulation: the case analysis of x0x1_after_extraction (x1 may stay unbound)
CodeX0(x0o, x1o, x0e, x1e) == IF x0e >= x0o /\ x0e <= x1o THEN 0
                              ELSE IF x0e <= x0o THEN x0o - x0e
                              ELSE 0
CodeHasX1(x0o, x1o, x0e, x1e) == (x1e >= x0o /\ x1e <= x1o) \/ x1e > x1o
CodeX1(x0o, x1o, x0e, x1e) == IF x1e >= x0o /\ x1e <= x1o THEN x1e - x0e ELSE x1o - x0e
\* END shared-interval-operators
\* per axis: [max(o0,e0) - e0, min(o1,e1) - e0) or Absent
Overlap1(o, e) == LET lo == Max2(o[1], e[1])
                      hi == Min2(o[2], e[2])
                  IN IF lo < hi THEN << lo - e[1], hi - e[1] >> ELSE Absent
Overlap2(o, e) == LET y == Overlap1(<<o[1], o[2]>>, <<e[1], e[2]>>)
                      x == Overlap1(<<o[3], o[4]>>, <<e[3], e[4]>>)
                  IN IF y = Absent \/ x = Absent THEN Absent ELSE y \o x
\* second formulation of the interval after extraction, from the shared code-shaped operators
CodeOverlap1(o, e) ==
    LET x0 == CodeX0(o[1], o[2], e[1], e[2])
        x1 == CodeX1(o[1], o[2], e[1], e[2])
    IN IF ~ CodeHasX1(o[1], o[2], e[1], e[2]) \/ x0 < 0 \/ x1 < 0 \/ x0 = x1 THEN Absent ELSE << x0, x1 >>

\* how a window lies relative to a region along one axis (classification of inputs, used for signatures)
IvClass(o, e) ==
    CASE e[2] <= o[1] \/ o[2] <= e[1] -> IF e[2] = o[1] \/ o[2] = e[1] THEN "touching" ELSE "disjoint"
      [] e[1] <= o[1] /\ o[2] <= e[2] -> "window-contains-region"
      [] o[1] <= e[1] /\ e[2] <= o[2] -> "window-inside-region"
      [] e[1] < o[1] -> "window-clips-front"
      [] OTHER -> "window-clips-back"

\* ---- front / trailing sub-regions ---------------------------------------------------------------
\* Along the clocking axis a parent occupies pixels p[1] .. p[2]-1; p[1] is its front edge (closest to the
\* read-out electronics at index 0), p[2] its trailing edge.  pixels = (a, b) requests the pixels number
\* a .. b-1 counted from the named edge in the direction away from the read-out; pixels_from_end = n
\* requests the last n pixels of the parent.
Picked(mode, p, px) ==
    CASE mode = "front"     -> { p[1] + k : k \in px[1] .. px[2] - 1 }
      [] mode = "trailing"  -> { p[2] + k : k \in px[1] .. px[2] - 1 }
      [] mode = "front_end" -> { p[2] - k : k \in 1 .. px[1] }
Sub1(mode, p, px) == LET S == Picked(mode, p, px)
                     IN IF S = {} \/ Min(S) < 0 THEN Rejected ELSE << Min(S), Max(S) + 1 >>
AxisOf(m) == IF m \in {"parallel_front", "parallel_trailing", "parallel_front_end"} THEN "parallel" ELSE "serial"
ModeOf(m) == CASE m \in {"parallel_front", "serial_front", "front"} -> "front"
               [] m \in {"parallel_trailing", "serial_trailing", "trailing"} -> "trailing"
               [] OTHER -> "front_end"
Methods2 == {"parallel_front", "parallel_trailing", "parallel_front_end",
             "serial_front", "serial_trailing", "serial_front_end"}
Methods1 == {"front", "trailing", "front_end"}
\* parallel = along rows (axis 0), serial = along columns (axis 1); the other axis is the parent's
Sub2(m, r, px) ==
    LET y == IF AxisOf(m) = "parallel" THEN Sub1(ModeOf(m), <<r[1], r[2]>>, px) ELSE <<r[1], r[2]>>
        x == IF AxisOf(m) = "serial" THEN Sub1(ModeOf(m), <<r[3], r[4]>>, px) ELSE <<r[3], r[4]>>
    IN IF y = Rejected \/ x = Rejected THEN Rejected ELSE y \o x
\* second formulation, shaped like region.py (arithmetic on the edge, then the validating constructor)
SubCode1(mode, p, px) ==
    LET q == CASE mode = "front"     -> << p[1] + px[1], p[1] + px[2] >>
               [] mode = "trailing"  -> << p[2] + px[1], p[2] + px[2] >>
               [] mode = "front_end" -> << p[1] + ((p[2] - p[1]) - px[1]), p[1] + (p[2] - p[1]) >>
    IN IF q[1] < 0 \/ q[2] < 0 \/ q[1] >= q[2] THEN Rejected ELSE q

\* ---- rotation of MASKED arrays (Array2D.original_orientation, Layout2D.original_orientation_from) --------
\* A masked array on an H x W frame is its set U of unmasked cells; its native content holds the tag of every
\* unmasked cell and Zero at masked cells.  Rotating it moves every entry -- zeros included -- to the mirrored
\* cell: the rotated array holds at a cell what the original held at the mirrored cell, and if the result carries
\* a mask, it is the mirrored mask.  A 1D (slim) result lists the non-zero entries of that array in row-major order.
\* Masks are exchanged as bitmaps (1 = unmasked) in row-major order.
Zero == -1
CellAt(k, W) == << k \div W, k % W >>
UnmaskedOf(bm, W) == { CellAt(k - 1, W) : k \in { j \in 1 .. Len(bm) : bm[j] = 1 } }
BitmapOf(U, H, W) == [k \in 1 .. H * W |-> IF CellAt(k - 1, W) \in U THEN 1 ELSE 0]
MaskedIdent(H, W, U) == [i \in 1 .. H |-> [j \in 1 .. W |-> IF <<i-1, j-1>> \in U THEN (i-1) * W + (j-1) ELSE Zero]]
RotMasked(c, H, W, U) == RotArray(c, MaskedIdent(H, W, U))
RotUnmasked(c, H, W, U) == { RotCell(c, H, W, p) : p \in U }
\* second formulation: rotate the full content, then apply the given mask (what an Array2D constructor does)
ApplyMask(A, U) == [i \in 1 .. Rows(A) |-> [j \in 1 .. Cols(A) |-> IF <<i-1, j-1>> \in U THEN A[i][j] ELSE Zero]]
Flatten(A) == [k \in 1 .. Rows(A) * Cols(A) |-> A[((k-1) \div Cols(A)) + 1][((k-1) % Cols(A)) + 1]]
SlimOf(A) == SelectSeq(Flatten(A), LAMBDA v : v # Zero)

\* ---- layout histories ---------------------------------------------------------------------------
\* A Layout2D carries three region slots (parallel_overscan, serial_prescan, serial_overscan; Absent = None) that
\* describe an array.  A layout state is the frame shape sh of the array it describes, the read-out corner c of
\* the last rotation, the slots regs and -- tracked by the specification only -- the array arr (source tags) the
\* layout belongs to.  A step is [op, c, e]:
\*   "build"     Layout2D(shape_2d, regions)                          (first step only)
\*   "buildrot"  Layout2D.rotated_from_roe_corner(c, shape, regions)  (first step only): build, then rotate for c
\*   "rot"       new_rotated_from(c): APPLY the flips of corner c to every slot, and to the array
\*   "ext"       layout_extracted_from(e): every slot becomes its overlap with window e in window coordinates; the
\*               array becomes the window, whose shape is the frame any later rotation reflects about.
\* stale = TRUE gives the second formulation shaped like layout.py, where an extraction keeps the old shape_2d.
RotReg(c, sh, r) == IF r = Absent THEN Absent ELSE RotRegion(c, sh, r)
ExtReg(r, e) == IF r = Absent THEN Absent ELSE AfterExtraction(r, e)
StepLayout(L, s, stale) ==
    CASE s.op = "rot" ->
           [sh |-> L.sh, c |-> s.c, regs |-> [k \in 1 .. 3 |-> RotReg(s.c, L.sh, L.regs[k])], arr |-> RotArray(s.c, L.arr)]
      [] s.op = "ext" ->
           [sh |-> IF stale THEN L.sh ELSE << s.e[2] - s.e[1], s.e[4] - s.e[3] >>, c |-> L.c,
            regs |-> [k \in 1 .. 3 |-> ExtReg(L.regs[k], s.e)], arr |-> Slice(L.arr, s.e)]
      [] OTHER -> L
FirstLayout(sh, regs, s) ==
    LET L0 == [sh |-> sh, c |-> <<1, 0>>, regs |-> [k \in 1 .. 3 |-> regs[k]], arr |-> Ident(sh[1], sh[2])]
    IN IF s.op = "buildrot" THEN StepLayout(L0, [op |-> "rot", c |-> s.c, e |-> s.e], FALSE) ELSE L0
RECURSIVE RunFrom(_, _, _, _)
RunFrom(L, steps, k, stale) == IF k > Len(steps) THEN L ELSE RunFrom(StepLayout(L, steps[k], stale), steps, k + 1, stale)
RunHist(sh, regs, steps, stale) == RunFrom(FirstLayout(sh, regs, steps[1]), steps, 2, stale)
IsRotStep(s) == s.op \in {"rot", "buildrot"}
\* the single corner whose flips equal the flips of c followed by the flips of d
ComposeCorners(c, d) == << IF FlipsRows(c) # FlipsRows(d) THEN 0 ELSE 1, IF FlipsCols(c) # FlipsCols(d) THEN 1 ELSE 0 >>
\* windows explored by the bounded machine: trim one row or one column off one side of an H x W frame
HistWindows(H, W) == { e \in { <<1, H, 0, W>>, <<0, H - 1, 0, W>>, <<0, H, 1, W>>, <<0, H, 0, W - 1>> } : Valid2(e) }

-----------------------------------------------------------------------------
(* Layer 2: the bounded machine.  Init picks one call and its input; one    *)
(* named action per public call computes what that call must return.        *)

VARIABLES kind, inp, phase, obs,
          hist,   \* layout histories: the steps taken so far
          lay     \* layout histories: the layout state after every step
vars == << kind, inp, phase, obs, hist, lay >>

Blank == [sh |-> <<0, 0>>, c |-> <<1, 0>>, r |-> << >>, e |-> << >>, px |-> << >>, m |-> ""]
PxPairs == (0 .. PxMax) \X (0 .. PxMax)    \* includes empty and reversed ranges (a >= b)
CtorVals == CtorLo .. CtorHi

\* slot pattern of a history: the explored region in slot k, the last row of the frame in the next, none in the third
SlotsOf(sh, r) == IF HistAllSlots THEN 0 .. 2 ELSE { (r[1] + r[2] + r[3] + r[4]) % 3 }
Triple(sh, r, k) == [j \in 1 .. 3 |-> IF j - 1 = k THEN r
                                       ELSE IF j - 1 = (k + 1) % 3 THEN << sh[1] - 1, sh[1], 0, sh[2] >> ELSE Absent]

Init ==
    /\ phase = "input"
    /\ obs = << >>
    /\ hist = << >>
    /\ lay = << >>
    /\ \/ /\ kind = "rot"
          /\ \E sh \in RotShapes, c \in Corners : \E r \in Regions2(sh[1], sh[2]) :
                inp = [Blank EXCEPT !.sh = sh, !.c = c, !.r = r]
       \/ /\ kind = "ext1"
          /\ \E o \in Intervals(IvMax), e \in Intervals(IvMax) : inp = [Blank EXCEPT !.r = o, !.e = e]
       \/ /\ kind = "ext2"
          /\ \E sh \in ExtShapes : \E o \in Regions2(sh[1], sh[2]), e \in Regions2(sh[1], sh[2]) :
                inp = [Blank EXCEPT !.sh = sh, !.r = o, !.e = e]
       \/ /\ kind = "sub1"
          /\ \E p \in Intervals(Sub1Max), m \in Methods1 :
                \/ m # "front_end" /\ \E px \in PxPairs : inp = [Blank EXCEPT !.r = p, !.m = m, !.px = px]
                \/ m = "front_end" /\ \E n \in 0 .. (p[2] - p[1]) : inp = [Blank EXCEPT !.r = p, !.m = m, !.px = <<n>>]
       \/ /\ kind = "sub2"
          /\ \E sh \in SubShapes : \E r \in Regions2(sh[1], sh[2]), m \in Methods2 :
                \/ ModeOf(m) # "front_end" /\ \E px \in PxPairs : inp = [Blank EXCEPT !.sh = sh, !.r = r, !.m = m, !.px = px]
                \/ ModeOf(m) = "front_end"
                   /\ \E n \in 0 .. (IF AxisOf(m) = "parallel" THEN r[2] - r[1] ELSE r[4] - r[3]) :
                         inp = [Blank EXCEPT !.sh = sh, !.r = r, !.m = m, !.px = <<n>>]
       \/ /\ kind = "ctor1"
          /\ \E p \in CtorVals \X CtorVals : inp = [Blank EXCEPT !.r = p]
       \/ /\ kind = "ctor2"
          /\ \E r \in CtorVals \X CtorVals \X CtorVals \X CtorVals : inp = [Blank EXCEPT !.r = r]
       \/ /\ kind = "moo"
          /\ \E sh \in MaskShapes, c \in Corners : \E S \in (SUBSET (1 .. sh[1] * sh[2])) \ {{}} :
                inp = [Blank EXCEPT !.sh = sh, !.c = c, !.r = [k \in 1 .. sh[1] * sh[2] |-> IF k \in S THEN 1 ELSE 0]]
       \/ /\ kind = "hist"
          /\ \E sh \in HistShapes : \E r \in Regions2(sh[1], sh[2]) : \E k \in SlotsOf(sh, r) :
                inp = [Blank EXCEPT !.sh = sh, !.r = Triple(sh, r, k)]

Dump == PrintT(ToJson([k |-> "inst", kind |-> kind, sh |-> inp.sh, c |-> inp.c, r |-> inp.r,
                       e |-> inp.e, px |-> inp.px, m |-> inp.m]))

Ready(k) == kind = k /\ phase = "input"
Done == phase' = "observed" /\ Dump /\ UNCHANGED << kind, inp, hist, lay >>

\* rotate_array_via_roe_corner_from / rotate_region_via_roe_corner_from / Region2D.slice
Rotate == /\ Ready("rot")
          /\ obs' = LET A == Ident(inp.sh[1], inp.sh[2])
                        ra == RotArray(inp.c, A)
                        rr == RotRegion(inp.c, inp.sh, inp.r)
                    IN [arot |-> ra, rrot |-> rr, s0 |-> Slice(A, inp.r), srot |-> Slice(ra, rr)]
          /\ Done
\* x0x1_after_extraction
Extract1 == Ready("ext1") /\ obs' = [out |-> Overlap1(inp.r, inp.e)] /\ Done
\* region_after_extraction / Layout2D.layout_extracted_from
Extract2 == Ready("ext2") /\ obs' = [out |-> AfterExtraction(inp.r, inp.e)] /\ Done
\* Region1D.front_region_from / trailing_region_from
SubRegion1 == Ready("sub1") /\ obs' = [out |-> Sub1(ModeOf(inp.m), inp.r, inp.px)] /\ Done
\* Region2D.parallel_/serial_ front_/trailing_ region_from
SubRegion2 == Ready("sub2") /\ obs' = [out |-> Sub2(inp.m, inp.r, inp.px)] /\ Done
\* Region1D(...) / Region2D(...)
Construct1 == Ready("ctor1") /\ obs' = [rejected |-> Invalid1(inp.r)] /\ Done
Construct2 == Ready("ctor2") /\ obs' = [rejected |-> Invalid2(inp.r)] /\ Done
\* Array2D(values, mask, header).original_orientation / Layout2D.original_orientation_from(masked Array2D)
RotateMasked == /\ Ready("moo")
                /\ obs' = LET U == UnmaskedOf(inp.r, inp.sh[2])
                          IN [out |-> RotMasked(inp.c, inp.sh[1], inp.sh[2], U),
                              umask |-> BitmapOf(RotUnmasked(inp.c, inp.sh[1], inp.sh[2], U), inp.sh[1], inp.sh[2])]
                /\ Done

\* ---- layout histories: Build / BuildRotated(c), then up to HistDepth steps Rotate(c) / Extract(e) ----
HistDump == PrintT(ToJson([k |-> "inst", kind |-> "hist", sh |-> inp.sh, regs |-> inp.r, steps |-> hist']))
HistKeep == UNCHANGED << kind, inp, phase, obs >>
Begin(s) == /\ kind = "hist"
            /\ hist = << >>
            /\ hist' = << s >>
            /\ lay' = << FirstLayout(inp.sh, inp.r, s) >>
            /\ HistDump
            /\ HistKeep
Advance(s) == /\ hist' = Append(hist, s)
              /\ lay' = Append(lay, StepLayout(lay[Len(lay)], s, FALSE))
              /\ HistDump
              /\ HistKeep
Live == kind = "hist" /\ Len(hist) >= 1 /\ Len(hist) <= HistDepth
\* Layout2D(shape_2d=..., parallel_overscan=..., serial_prescan=..., serial_overscan=...)
BuildLayout == kind = "hist" /\ Begin([op |-> "build", c |-> <<1, 0>>, e |-> << >>])
\* Layout2D.rotated_from_roe_corner(roe_corner=c, shape_native=..., regions)
BuildRotatedLayout(c) == kind = "hist" /\ Begin([op |-> "buildrot", c |-> c, e |-> << >>])
\* layout.new_rotated_from(roe_corner=c)
RotateLayout(c) == Live /\ Advance([op |-> "rot", c |-> c, e |-> << >>])
\* layout.layout_extracted_from(extraction_region=e), e one of the explored windows of the current frame
CurWindows == IF kind = "hist" /\ Len(lay) >= 1 THEN HistWindows(lay[Len(lay)].sh[1], lay[Len(lay)].sh[2]) ELSE {}
ExtractLayout == Live /\ \E e \in CurWindows : Advance([op |-> "ext", c |-> <<1, 0>>, e |-> e])

Next == \/ Rotate \/ Extract1 \/ Extract2 \/ SubRegion1 \/ SubRegion2 \/ Construct1 \/ Construct2 \/ RotateMasked
        \/ BuildLayout
        \/ \E c \in Corners : BuildRotatedLayout(c)
        \/ \E c \in Corners : RotateLayout(c)
        \/ ExtractLayout
Spec == Init /\ [][Next]_vars

-----------------------------------------------------------------------------
(* Layer 3: the design-level theorems, checked by TLC on every instance *)

Seen(k) == phase = "observed" /\ kind = k

\* the rotated region slices from the rotated array exactly the rotated content of the original region
Commute == Seen("rot") => obs.srot = RotArray(inp.c, obs.s0)
\* the same rotation twice restores array and region
Involution ==
    Seen("rot") => /\ RotArray(inp.c, obs.arot) = Ident(inp.sh[1], inp.sh[2])
                   /\ RotRegion(inp.c, inp.sh, obs.rrot) = inp.r
\* the cell-image definition and the reflection arithmetic of the code agree; the result is a region of the
\* same extents inside the same frame
RotRegionForms ==
    Seen("rot") => /\ obs.rrot = RotRegionCode(inp.c, inp.sh, inp.r)
                   /\ Inside(obs.rrot, inp.sh[1], inp.sh[2])
                   /\ obs.rrot[2] - obs.rrot[1] = inp.r[2] - inp.r[1]
                   /\ obs.rrot[4] - obs.rrot[3] = inp.r[4] - inp.r[3]
                   /\ CellsOf(obs.rrot) = { RotCell(inp.c, inp.sh[1], inp.sh[2], p) : p \in CellsOf(inp.r) }
\* rotations compose like flips: each corner is an involution and <<0,1>> is <<0,0>> followed by <<1,1>>
RotCompose ==
    Seen("rot") => /\ RotArray(<<1, 1>>, RotArray(<<0, 0>>, obs.arot)) = RotArray(<<0, 1>>, obs.arot)
                   /\ RotArray(<<1, 0>>, obs.arot) = obs.arot

\* interval identity: definition = code-shaped case analysis, on every valid quadruple in the bound
CodeShapeIsOverlap1 == Seen("ext1") => CodeOverlap1(inp.r, inp.e) = obs.out
\* the per-axis formula is the cell-level overlap, and it addresses inside the window what o addressed in the frame
OverlapForms ==
    Seen("ext2") => /\ obs.out = Overlap2(inp.r, inp.e)
                    /\ obs.out = LET y == CodeOverlap1(<<inp.r[1], inp.r[2]>>, <<inp.e[1], inp.e[2]>>)
                                     x == CodeOverlap1(<<inp.r[3], inp.r[4]>>, <<inp.e[3], inp.e[4]>>)
                                 IN IF y = Absent \/ x = Absent THEN Absent ELSE y \o x
                    /\ (obs.out = Absent) <=> (OverlapCells(inp.r, inp.e) = {})
ExtractAddressesOverlap ==
    Seen("ext2") /\ obs.out # Absent =>
        LET A == Ident(inp.sh[1], inp.sh[2])
            win == Slice(A, inp.e)
        IN /\ Valid2(obs.out) /\ obs.out[2] <= Rows(win) /\ obs.out[4] <= Cols(win)
           /\ Slice(win, obs.out) = Slice(A, BoxOf(OverlapCells(inp.r, inp.e)))
           /\ { Slice(win, obs.out)[i][j] : i \in 1 .. obs.out[2] - obs.out[1], j \in 1 .. obs.out[4] - obs.out[3] }
                = { p[1] * inp.sh[2] + p[2] : p \in OverlapCells(inp.r, inp.e) }

\* sub-regions: set-of-pixels definition = edge arithmetic + validating constructor
SubForms1 == Seen("sub1") => obs.out = SubCode1(ModeOf(inp.m), inp.r, inp.px)
SubForms2 ==
    Seen("sub2") =>
        LET par == AxisOf(inp.m) = "parallel"
            a == SubCode1(ModeOf(inp.m), IF par THEN <<inp.r[1], inp.r[2]>> ELSE <<inp.r[3], inp.r[4]>>, inp.px)
        IN obs.out = IF a = Rejected THEN Rejected
                     ELSE IF par THEN a \o <<inp.r[3], inp.r[4]>> ELSE <<inp.r[1], inp.r[2]>> \o a
\* exactly the requested number of pixels; front pixels within the parent's length lie inside the parent and start
\* a pixels after its front edge, trailing pixels lie outside and start a pixels after its trailing edge,
\* "from end" pixels end at the trailing edge
SubCounts ==
    Seen("sub1") /\ obs.out # Rejected =>
        LET mode == ModeOf(inp.m)
            p == inp.r
        IN CASE mode = "front" -> /\ obs.out[2] - obs.out[1] = inp.px[2] - inp.px[1]
                                  /\ obs.out[1] - p[1] = inp.px[1]
                                  /\ (inp.px[2] <= p[2] - p[1] => obs.out[2] <= p[2])
             [] mode = "trailing" -> /\ obs.out[2] - obs.out[1] = inp.px[2] - inp.px[1]
                                     /\ obs.out[1] - p[2] = inp.px[1]
                                     /\ obs.out[1] >= p[2]
             [] OTHER -> /\ obs.out[2] - obs.out[1] = inp.px[1]
                         /\ obs.out[2] = p[2] /\ obs.out[1] >= p[1]
\* an empty or reversed request never yields a region
SubRejectsEmpty ==
    /\ Seen("sub1") /\ Len(inp.px) = 2 /\ inp.px[1] >= inp.px[2] => obs.out = Rejected
    /\ Seen("sub2") /\ Len(inp.px) = 2 /\ inp.px[1] >= inp.px[2] => obs.out = Rejected
    /\ Seen("sub1") /\ Len(inp.px) = 1 /\ inp.px[1] = 0 => obs.out = Rejected
    /\ Seen("sub2") /\ Len(inp.px) = 1 /\ inp.px[1] = 0 => obs.out = Rejected

\* a region is rejected exactly when it addresses no pixel or has a negative coordinate
CtorMeaning ==
    /\ Seen("ctor1") => (obs.rejected <=> ~ Valid1(inp.r))
    /\ Seen("ctor2") => (obs.rejected <=> ~ Valid2(inp.r))
    /\ Seen("ctor2") /\ ~ obs.rejected => CellsOf(inp.r) # {}

\* ---- masked arrays ----
\* the rotated masked array is the rotated full content under the rotated mask; its non-zero cells are exactly the
\* rotated unmasked cells; a slim reading has one entry per unmasked cell
MaskedRotForms ==
    Seen("moo") =>
        LET H == inp.sh[1]
            W == inp.sh[2]
            U == UnmaskedOf(inp.r, W)
            RU == RotUnmasked(inp.c, H, W, U)
        IN /\ obs.out = ApplyMask(RotArray(inp.c, Ident(H, W)), RU)
           /\ { p \in Cells2(H, W) : obs.out[p[1]+1][p[2]+1] # Zero } = RU
           /\ obs.umask = BitmapOf(RU, H, W)
           /\ Len(SlimOf(obs.out)) = Cardinality(U)
\* the same rotation twice restores the masked array and its mask
MaskedRotInvolution ==
    Seen("moo") =>
        LET H == inp.sh[1]
            W == inp.sh[2]
            U == UnmaskedOf(inp.r, W)
        IN /\ RotArray(inp.c, obs.out) = MaskedIdent(H, W, U)
           /\ RotUnmasked(inp.c, H, W, RotUnmasked(inp.c, H, W, U)) = U
\* wrapping the rotated content with the UN-rotated mask is right exactly for masks symmetric under the flips
StaleMaskTheorem ==
    Seen("moo") =>
        LET H == inp.sh[1]
            W == inp.sh[2]
            U == UnmaskedOf(inp.r, W)
        IN (ApplyMask(obs.out, U) = obs.out) <=> (RotUnmasked(inp.c, H, W, U) = U)

\* ---- layout histories ----
InHist == kind = "hist" /\ Len(hist) >= 1
TagsOf(A) == { A[i][j] : i \in 1 .. Rows(A), j \in 1 .. Cols(A) }
\* after any history every slot addresses, in the array the layout belongs to, exactly those cells of its original
\* region that are still in the array (in whatever orientation), and is absent iff none is left
HistRegionsIndexArray ==
    InHist =>
        LET L == lay[Len(lay)]
            left == TagsOf(L.arr)
        IN /\ L.sh = << Rows(L.arr), Cols(L.arr) >>
           /\ \A k \in 1 .. 3 :
                 LET t0 == IF inp.r[k] = Absent THEN {}
                           ELSE { p[1] * inp.sh[2] + p[2] : p \in CellsOf(inp.r[k]) } \cap left
                 IN IF t0 = {} THEN L.regs[k] = Absent
                    ELSE /\ L.regs[k] # Absent
                         /\ Inside(L.regs[k], L.sh[1], L.sh[2])
                         /\ TagsOf(Slice(L.arr, L.regs[k])) = t0
\* the same rotation twice in a row restores the regions and the array -- through either entry point
HistInvolution ==
    InHist =>
        \A k \in 2 .. Len(hist) :
            IsRotStep(hist[k]) /\ IsRotStep(hist[k-1]) /\ hist[k].c = hist[k-1].c =>
                IF k = 2 THEN /\ \A j \in 1 .. 3 : lay[2].regs[j] = inp.r[j]
                              /\ lay[2].arr = Ident(inp.sh[1], inp.sh[2])
                ELSE lay[k].regs = lay[k-2].regs /\ lay[k].arr = lay[k-2].arr
\* two rotations in a row are the rotation for the composed corner (histories mixing corners)
HistCompose ==
    InHist =>
        \A k \in 3 .. Len(hist) :
            hist[k].op = "rot" /\ hist[k-1].op = "rot" =>
                LET one == StepLayout(lay[k-2], [op |-> "rot", c |-> ComposeCorners(hist[k-1].c, hist[k].c), e |-> << >>], FALSE)
                IN lay[k].regs = one.regs /\ lay[k].arr = one.arr
=============================================================================
