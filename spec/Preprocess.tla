----------------------------- MODULE Preprocess -----------------------------
(***************************************************************************)
(* X01 -- dataset preprocessing obeys its definitions for every input      *)
(* (PyAutoArray: autoarray/dataset/preprocess.py).                         *)
(*                                                                         *)
(* Exact domain.  An array lives on an H x W frame with the set U of       *)
(* unmasked cells <<i,j>> (0-based, row i from the top); native arrays are *)
(* row-major sequences of length H*W whose masked cells hold 0.  Every     *)
(* real quantity is an INTEGER MANTISSA times a power of two that only the *)
(* driver knows (all operators below are homogeneous in each group of      *)
(* inputs, so the power of two factors out exactly in IEEE arithmetic):    *)
(*   data d (any sign), exposure time t > 0, gain g > 0, background noise  *)
(*   b >= 0, weights wn/wd (any sign of wn), noise n > 0, limit ln/ld.     *)
(* Quotients are rationals <<num, den>>, den > 0; a recorded quotient is   *)
(* the integer round(x * L) for a common denominator L carried by the      *)
(* record and is judged by cross-multiplication.  Square roots are judged  *)
(*   - exactly when the radicand is a perfect square (fine scale SF), and  *)
(*   - otherwise in fixed point at a coarse scale S with the derived bound *)
(*     |s - S*sqrt(N)/D| <= 1  <=>  ((s-1)D)^2 <= S^2 N <= ((s+1)D)^2,     *)
(*     evaluated in 32-bit integers under an explicit range guard.         *)
(* Data movement (edges_from, array_with_new_shape, an odd PSF) is judged  *)
(* on TAGS: the source cell of every output position (Zero = -1).          *)
(* The random functions are judged on content identifiers (fingerprints    *)
(* numbered by first occurrence).                                          *)
(*                                                                         *)
(* Layer 1 (meaning) is written from the docstrings and is parametrised by *)
(* shapes / sequences so that Trace_Preprocess reuses it.  Where the code  *)
(* is built differently from the definition (edges_from concatenates four  *)
(* slices per ring; the resize loops of array_2d_util; np.random.seed then *)
(* a draw from the global generator) that formulation is included too and  *)
(* layer 3 states where both agree.                                        *)
(***************************************************************************)
EXTENDS Integers, Sequences, FiniteSets, TLC, Json, SequencesExt, FiniteSetsExt, Folds

CONSTANTS
  PixShapes,    \* <<H,W>> of the frames for the element-wise functions (conversions, noise builders, weights)
  MaskMax,      \* every non-empty mask is explored on frames with at most MaskMax cells, a mask family beyond
  PixTuples,    \* sequence of <<d, t, b>>: data, exposure time, background noise (or variance) of one pixel
  PixOffs,      \* offsets into PixTuples (the cell with linear index L takes tuple L + off, cyclically)
  Gains,        \* gains g
  ExpTimes,     \* scalar exposure times (counts -> counts per second)
  WeightVals,   \* sequence of <<wn, wd>>: weight wn/wd, wd > 0
  WeightOffs,
  EdgeShapes,   \* frames for edges_from and the two background estimators (every number of rings 1..NRings)
  EdgeVals,     \* sequence of image values
  EdgeOffs,
  SnrShapes,    \* frames for the signal-to-noise limit
  SnrTuples,    \* sequence of <<d, n>>: data, noise (> 0)
  SnrOffs,
  Limits,       \* set of <<ln, ld>>: signal-to-noise limit ln/ld
  ResizeIn, ResizeOut,   \* shapes for array_with_new_shape
  PsfShapes,    \* kernel shapes for psf_with_odd_dimensions_from
  RngFns,       \* names of the random functions
  Seeds,        \* seeds >= 0 (0 included)
  GlobalSeeds,  \* states of the global generator before a call
  FxScale       \* coarse fixed-point scale S used by the design theorems

VARIABLES inst, phase, obs
vars == << inst, phase, obs >>

\* C14's centred resize (only its constant-level operators are used)
R == INSTANCE Resize WITH InShapes <- {}, OutShapes <- {}, KernelShapes <- {}, MaskShapes <- {}, MaskKernels <- {},
                          Buffers <- {}, HalfScales <- {}, Origins <- {}

Zero   == -1           \* tag: "this position holds an exact 0"
Off    == 2000000000   \* alpha sentinel: not on the lattice / unknown tag / out of range
NaNTag == 1999999999   \* alpha sentinel: not a number
InfTag == 1999999997   \* alpha sentinel: infinite
Large  == 1999999998   \* alpha sentinel: finite and >= 1e8 ("a large value")

Abs(x) == IF x < 0 THEN -x ELSE x
SumSeq(s) == FoldLeft(LAMBDA a, b : a + b, 0, s)
SumSqSeq(s) == FoldLeft(LAMBDA a, b : a + b * b, 0, s)
MinOf(S) == CHOOSE x \in S : \A y \in S : x <= y
MaxOf(S) == CHOOSE x \in S : \A y \in S : x >= y
Sorted(s) == SortSeq(s, LAMBDA a, b : a < b)
SameBag(a, b) == Len(a) = Len(b) /\ Sorted(a) = Sorted(b)

-----------------------------------------------------------------------------
(* Layer 1: meaning *)

Cells(H, W) == (0 .. H-1) \X (0 .. W-1)
Lin(c, W) == c[1] * W + c[2]
CellOf(k, W) == << k \div W, k % W >>
RowMajor(H, W) == [k \in 1 .. H*W |-> CellOf(k-1, W)]
LinSeq(U, H, W) == LET s == SelectSeq(RowMajor(H, W), LAMBDA c : c \in U)
                   IN [k \in 1 .. Len(s) |-> Lin(s[k], W)]
Unmasked(k, U, W) == CellOf(k-1, W) \in U            \* k = native position, 1-based
\* an element-wise result: native, zero in masked cells
Native(U, H, W, f(_)) == [k \in 1 .. H*W |-> IF Unmasked(k, U, W) THEN f(k) ELSE 0]
Gather(native, U, H, W) == LET ls == LinSeq(U, H, W) IN [k \in 1 .. Len(ls) |-> native[ls[k] + 1]]

\* ---- rationals <<num, den>>, den > 0 -------------------------------------------------------
QEq(p, q) == p[1] * q[2] = q[1] * p[2]
QInt(x) == << x, 1 >>
QMulInt(p, k) == << p[1] * k, p[2] >>
QDivInt(p, k) == << p[1], p[2] * k >>                  \* k > 0
\* a recorded quotient x = round(value * L) equals the rational q (range guard first: the alpha sentinels and
\* absurd values are a plain "no", never a 32-bit overflow)
InRange(x) == x >= -10000000 /\ x <= 10000000
IsQ(x, L, q) == InRange(x) /\ x * q[2] = L * q[1]

\* ---- unit conversions (per pixel) ------------------------------------------------------------
\*   [Counts] = [EPS] * [Exposure_time]          [EPS] = [Counts] / [Exposure_time]
\*   [ADUs]   = [EPS] * [Exposure_time] / [Gain] [EPS] = [ADUs] * [Gain] / [Exposure_time]
\*   counts per second = counts / exposure time
EpsToCountsQ(e, t)    == QMulInt(e, t)
CountsToEpsQ(c, t)    == QDivInt(c, t)
EpsToAdusQ(e, t, g)   == QDivInt(QMulInt(e, t), g)
AdusToEpsQ(a, t, g)   == QDivInt(QMulInt(a, g), t)
CountsToCpsQ(c, et)   == QDivInt(c, et)

\* ---- noise-map builders: every one is sqrt(N) / D with integers N >= 0, D > 0 ---------------------
\*   from data in eps and an exposure time map:   sqrt(|d t|) / t
\*   with a background noise map b (RMS, eps):    sqrt(|d t| + (b t)^2) / t
\*   with background variances v:                 sqrt(|d t| + v t) / t
\*   from a weight map w = wn/wd > 0:             1 / sqrt(w) = sqrt(wn wd) / wn
\*   from an inverse noise map:                   1 / inverse
Rad(N, D) == [n |-> N, d |-> D]
PoissonRad(d, t)     == Rad(Abs(d * t), t)
BgNoiseRad(d, t, b)  == Rad(Abs(d * t) + (b * t) * (b * t), t)
BgVarRad(d, t, v)    == Rad(Abs(d * t) + v * t, t)
WeightRad(wn, wd)    == Rad(wn * wd, wn)                \* only for wn > 0
InverseNoiseQ(inv)   == << 1, inv >>                     \* inv > 0

\* integer square root (bisection; x < 2^31)
RECURSIVE IsqrtB(_, _, _)
IsqrtB(x, lo, hi) == IF lo = hi THEN lo
                     ELSE LET m == (lo + hi + 1) \div 2
                          IN IF m * m <= x THEN IsqrtB(x, m, hi) ELSE IsqrtB(x, lo, m - 1)
Isqrt(x) == IsqrtB(x, 0, 46340)
IsSquare(x) == x >= 0 /\ Isqrt(x) * Isqrt(x) = x

\* coarse fixed point: s = round(S * sqrt(N) / D) up to one unit; guarded against 32-bit overflow
FxInRange(s, N, D, S) == /\ S >= 1 /\ N >= 0 /\ D >= 1
                         /\ N <= 2000000000 \div (S * S)
                         /\ s >= 0 /\ s <= (46000 \div D) - 1
FxSqrtOk(s, N, D, S) ==
    /\ FxInRange(s, N, D, S)
    /\ S * S * N <= ((s + 1) * D) * ((s + 1) * D)
    /\ (s >= 1 => ((s - 1) * D) * ((s - 1) * D) <= S * S * N)
\* exact mode for perfect squares N = r^2: sf = round(SF * r / D), |sf D - SF r| <= D/2 (integers: <= D div 2)
ExactSqrtOk(sf, N, D, SF) ==
    LET r == Isqrt(N)
    IN /\ sf >= 0 /\ D >= 1 /\ sf <= 2000000000 \div D /\ r <= 2000000000 \div SF
       /\ Abs(sf * D - SF * r) <= D \div 2
\* the verdict on one reported square root (coarse s at scale S, fine sf at scale SF)
SqrtOk(s, sf, rad, S, SF) ==
    IF IsSquare(rad.n) THEN ExactSqrtOk(sf, rad.n, rad.d, SF) ELSE FxSqrtOk(s, rad.n, rad.d, S)

\* the weight map: positive weights give 1/sqrt(w); non-positive weights are "converted to large values
\* to omit them from the analysis"
WeightOk(s, sf, wn, wd, S, SF) ==
    IF wn > 0 THEN SqrtOk(s, sf, WeightRad(wn, wd), S, SF) ELSE s = Large /\ sf = Large

\* ---- the edge rings -----------------------------------------------------------------------------
\* ring e of an H x W frame: the cells whose distance to the nearest side of the frame is e
RingOf(c, H, W) == MinOf({ c[1], c[2], H - 1 - c[1], W - 1 - c[2] })
NRings(H, W) == ((IF H < W THEN H ELSE W) + 1) \div 2
RingCells(H, W, n) == { c \in Cells(H, W) : RingOf(c, H, W) < n }
\* "extract the edges of an image": every pixel of the n outermost rings, once (row-major here; judged as a bag)
EdgeCellSeq(H, W, n) == SelectSeq(RowMajor(H, W), LAMBDA c : RingOf(c, H, W) < n)
TagOf(c, U, W) == IF c \in U THEN Lin(c, W) ELSE Zero
ValOf(c, v, U, W) == IF c \in U THEN v[Lin(c, W) + 1] ELSE 0
EdgeTags(U, H, W, n) == LET s == EdgeCellSeq(H, W, n) IN [k \in 1 .. Len(s) |-> TagOf(s[k], U, W)]
EdgeValueSeq(v, U, H, W, n) == LET s == EdgeCellSeq(H, W, n) IN [k \in 1 .. Len(s) |-> ValOf(s[k], v, U, W)]

\* twice the median of a non-empty sequence of integers
Median2(s) == LET q == Sorted(s)
                  n == Len(s)
              IN IF n % 2 = 1 THEN 2 * q[(n + 1) \div 2] ELSE q[n \div 2] + q[n \div 2 + 1]
\* n^2 times the (population) variance
VarNum(s) == Len(s) * SumSqSeq(s) - SumSeq(s) * SumSeq(s)
\* sd = round(S * standard deviation) up to one unit:  |sd n - S sqrt(VarNum)| <= n
StdOk(sd, s, S) == Len(s) >= 1 /\ FxSqrtOk(sd, VarNum(s), Len(s), S)

\* ---- the signal-to-noise limit ---------------------------------------------------------------------
\* signal to noise d/n exceeds the limit ln/ld (n, ln, ld > 0)
Exceeds(d, n, ln, ld) == d * ld > ln * n
\* the limited noise as a rational: |d| / limit where the limit is exceeded and the pixel is not covered, else n
LimitedQ(d, n, ln, ld, covered) == IF Exceeds(d, n, ln, ld) /\ ~ covered THEN << Abs(d) * ld, ln >> ELSE QInt(n)

\* ---- an odd-sized PSF ------------------------------------------------------------------------------
\* "the closest odd-sized dimensions": an odd dimension stays, an even one moves by one
OddDimOk(n, m) == m % 2 = 1 /\ (IF n % 2 = 1 THEN m = n ELSE Abs(m - n) = 1)

-----------------------------------------------------------------------------
(* The same things formulated the way the implementation builds them *)

\* python range(a, b) for 0 <= a
PyRange(a, b) == [k \in 1 .. (IF b > a THEN b - a ELSE 0) |-> a + k - 1]
\* edges_from: per ring e the slices  top [e, e:W-e], bottom [H-1-e, e:W-e], right [e+1:H-1-e, W-1-e],
\* left [e+1:H-1-e, e], concatenated in this order  (only for n <= NRings: no index wraps around)
CodeRing(H, W, e) ==
    LET cols == PyRange(e, W - e)
        rows == PyRange(e + 1, H - 1 - e)
    IN [k \in DOMAIN cols |-> << e, cols[k] >>] \o [k \in DOMAIN cols |-> << H - 1 - e, cols[k] >>]
       \o [k \in DOMAIN rows |-> << rows[k], W - 1 - e >>] \o [k \in DOMAIN rows |-> << rows[k], e >>]
RECURSIVE CodeEdgeCells(_, _, _)
CodeEdgeCells(H, W, n) == IF n = 0 THEN << >> ELSE CodeEdgeCells(H, W, n - 1) \o CodeRing(H, W, n - 1)
CodeEdgeTags(U, H, W, n) == LET s == CodeEdgeCells(H, W, n) IN [k \in 1 .. Len(s) |-> TagOf(s[k], U, W)]
CodeEdgeVals(v, U, H, W, n) == LET s == CodeEdgeCells(H, W, n) IN [k \in 1 .. Len(s) |-> ValOf(s[k], v, U, W)]
\* among the n outermost rings there is one that is a single row (top slice = bottom slice), or a single column
\* of at least three cells (left slice = right slice: its interior cells)
SingleLineRing(H, W, n) ==
    \E e \in 0 .. n - 1 : /\ 2 * e <= H - 1 /\ 2 * e <= W - 1
                          /\ (H - 1 - e = e \/ (W - 1 - e = e /\ H - 1 - e > e + 1))

\* the seeded noise functions: `if seed == -1: seed = randint(...)` ; np.random.seed(seed) ; draw from the global
\* generator.  A content is named by the generator state it was drawn from.
CodeDraw(fn, seed, g) == IF seed = -1 THEN << fn, "global", g >> ELSE << fn, "seeded", seed >>

-----------------------------------------------------------------------------
(* Layer 2: the bounded machine.  Init picks an instance; one action per group of public calls. *)

MaskFamily(H, W) ==
    { Cells(H, W),
      { c \in Cells(H, W) : (c[1] + c[2]) % 2 = 0 },
      { c \in Cells(H, W) : c[2] > 0 },
      { c \in Cells(H, W) : RingOf(c, H, W) > 0 },
      { c \in Cells(H, W) : c # << 0, W - 1 >> /\ c # << H - 1, 0 >> },
      { << H \div 2, W \div 2 >> } } \ { {} }
MasksOf(H, W) == IF H * W <= MaskMax THEN (SUBSET Cells(H, W)) \ { {} } ELSE MaskFamily(H, W)

Blank == [kind |-> "none", h |-> 1, w |-> 1, u |-> {}, off |-> 0, a |-> 1, b |-> 1, h2 |-> 1, w2 |-> 1, fn |-> "", lm |-> {}]

Cyc(seq, L, off) == seq[((L + off) % Len(seq)) + 1]

Init ==
    /\ \/ \E s \in PixShapes : \E u \in MasksOf(s[1], s[2]) : \E o \in PixOffs, g \in Gains, et \in ExpTimes :
             inst = [Blank EXCEPT !.kind = "pix", !.h = s[1], !.w = s[2], !.u = u, !.off = o, !.a = g, !.b = et]
       \/ \E s \in PixShapes : \E u \in MasksOf(s[1], s[2]) : \E o \in WeightOffs :
             inst = [Blank EXCEPT !.kind = "weight", !.h = s[1], !.w = s[2], !.u = u, !.off = o]
       \/ \E s \in EdgeShapes : \E u \in MaskFamily(s[1], s[2]) : \E o \in EdgeOffs : \E n \in 1 .. NRings(s[1], s[2]) :
             inst = [Blank EXCEPT !.kind = "edges", !.h = s[1], !.w = s[2], !.u = u, !.off = o, !.a = n]
       \/ \E s \in SnrShapes : \E u \in MasksOf(s[1], s[2]) : \E o \in SnrOffs, l \in Limits :
             \E lm \in { {}, { c \in Cells(s[1], s[2]) : (c[1] + c[2]) % 2 = 1 }, { << 0, 0 >> }, Cells(s[1], s[2]) } :
             inst = [Blank EXCEPT !.kind = "snr", !.h = s[1], !.w = s[2], !.u = u, !.off = o, !.a = l[1], !.b = l[2], !.lm = lm]
       \/ \E s \in ResizeIn, t \in ResizeOut : \E u \in MaskFamily(s[1], s[2]) :
             inst = [Blank EXCEPT !.kind = "newshape", !.h = s[1], !.w = s[2], !.u = u, !.h2 = t[1], !.w2 = t[2]]
       \/ \E s \in PsfShapes :
             inst = [Blank EXCEPT !.kind = "psf", !.h = s[1], !.w = s[2], !.u = Cells(s[1], s[2])]
       \/ \E f \in RngFns, sd \in Seeds : \E g1 \in GlobalSeeds, g2 \in GlobalSeeds :
             inst = [Blank EXCEPT !.kind = "rng", !.fn = f, !.off = sd, !.a = g1, !.b = g2]
    /\ phase = "input"
    /\ obs = << >>

\* the value arrays of an instance (native order; masked cells carry values too: they must not matter)
PixD(x) == [k \in 1 .. x.h * x.w |-> Cyc(PixTuples, k - 1, x.off)[1]]
PixT(x) == [k \in 1 .. x.h * x.w |-> Cyc(PixTuples, k - 1, x.off)[2]]
PixB(x) == [k \in 1 .. x.h * x.w |-> Cyc(PixTuples, k - 1, x.off)[3]]
WgtN(x) == [k \in 1 .. x.h * x.w |-> Cyc(WeightVals, k - 1, x.off)[1]]
WgtD(x) == [k \in 1 .. x.h * x.w |-> Cyc(WeightVals, k - 1, x.off)[2]]
EdgV(x) == [k \in 1 .. x.h * x.w |-> Cyc(EdgeVals, k - 1, x.off)]
SnrD(x) == [k \in 1 .. x.h * x.w |-> Cyc(SnrTuples, k - 1, x.off)[1]]
SnrN(x) == [k \in 1 .. x.h * x.w |-> Cyc(SnrTuples, k - 1, x.off)[2]]

Base(x) == [k |-> "inst", kind |-> x.kind, h |-> x.h, w |-> x.w, u |-> LinSeq(x.u, x.h, x.w)]

\* unit conversions and the noise builders that take data / exposure time / background
DoPix ==
    /\ phase = "input" /\ inst.kind = "pix"
    /\ LET d == PixD(inst)
           t == PixT(inst)
           b == PixB(inst)
           H == inst.h
           W == inst.w
           U == inst.u
       IN /\ obs' = [ counts |-> Native(U, H, W, LAMBDA k : EpsToCountsQ(QInt(d[k]), t[k])),
                      eps    |-> Native(U, H, W, LAMBDA k : CountsToEpsQ(QInt(d[k]), t[k])),
                      adus   |-> Native(U, H, W, LAMBDA k : EpsToAdusQ(QInt(d[k]), t[k], inst.a)),
                      aeps   |-> Native(U, H, W, LAMBDA k : AdusToEpsQ(QInt(d[k]), t[k], inst.a)),
                      cps    |-> Native(U, H, W, LAMBDA k : CountsToCpsQ(QInt(d[k]), inst.b)),
                      pn     |-> Native(U, H, W, LAMBDA k : PoissonRad(d[k], t[k])),
                      bn     |-> Native(U, H, W, LAMBDA k : BgNoiseRad(d[k], t[k], b[k])),
                      bv     |-> Native(U, H, W, LAMBDA k : BgVarRad(d[k], t[k], b[k])),
                      inv    |-> Native(U, H, W, LAMBDA k : InverseNoiseQ(t[k])) ]
          /\ PrintT(ToJson(Base(inst) @@ [d |-> d, t |-> t, b |-> b, g |-> inst.a, et |-> inst.b]))
    /\ phase' = "done"
    /\ UNCHANGED inst

DoWeight ==
    /\ phase = "input" /\ inst.kind = "weight"
    /\ LET wn == WgtN(inst)
           wd == WgtD(inst)
       IN /\ obs' = [ wn |-> wn, wd |-> wd ]
          /\ PrintT(ToJson(Base(inst) @@ [wn |-> wn, wd |-> wd]))
    /\ phase' = "done"
    /\ UNCHANGED inst

DoEdges ==
    /\ phase = "input" /\ inst.kind = "edges"
    /\ LET v == EdgV(inst)
       IN /\ obs' = [ v    |-> v,
                      tags |-> EdgeTags(inst.u, inst.h, inst.w, inst.a),
                      vals |-> EdgeValueSeq(v, inst.u, inst.h, inst.w, inst.a),
                      code |-> CodeEdgeTags(inst.u, inst.h, inst.w, inst.a) ]
          /\ PrintT(ToJson(Base(inst) @@ [v |-> v, n |-> inst.a]))
    /\ phase' = "done"
    /\ UNCHANGED inst

DoSnr ==
    /\ phase = "input" /\ inst.kind = "snr"
    /\ LET d == SnrD(inst)
           n == SnrN(inst)
           H == inst.h
           W == inst.w
       IN /\ obs' = [ d |-> d, n |-> n,
                      out |-> [k \in 1 .. H*W |->
                                 IF Unmasked(k, inst.u, W)
                                 THEN LimitedQ(d[k], n[k], inst.a, inst.b, CellOf(k-1, W) \in inst.lm)
                                 ELSE QInt(0)] ]
          /\ PrintT(ToJson(Base(inst) @@ [d |-> d, nz |-> n, ln |-> inst.a, ld |-> inst.b,
                                          lm |-> LinSeq(inst.lm, H, W)]))
    /\ phase' = "done"
    /\ UNCHANGED inst

\* array_with_new_shape = Array2D.resized_from: the loop formulation of array_2d_util (Resize!CodeResizeSrc)
DoNewShape ==
    /\ phase = "input" /\ inst.kind = "newshape"
    /\ obs' = [ src |-> R!CodeResizeSrc(inst.h, inst.w, inst.u, inst.h2, inst.w2) ]
    /\ PrintT(ToJson(Base(inst) @@ [h2 |-> inst.h2, w2 |-> inst.w2]))
    /\ phase' = "done"
    /\ UNCHANGED inst

\* psf_with_odd_dimensions_from: rescale by 1.0, then one more row / column for every even dimension
DoPsfOdd ==
    /\ phase = "input" /\ inst.kind = "psf"
    /\ obs' = [ oh |-> IF inst.h % 2 = 0 THEN inst.h + 1 ELSE inst.h,
                ow |-> IF inst.w % 2 = 0 THEN inst.w + 1 ELSE inst.w ]
    /\ PrintT(ToJson(Base(inst)))
    /\ phase' = "done"
    /\ UNCHANGED inst

\* a seeded noise function called under two different states of the global generator
DoRng ==
    /\ phase = "input" /\ inst.kind = "rng"
    /\ obs' = [ first |-> CodeDraw(inst.fn, inst.off, inst.a), second |-> CodeDraw(inst.fn, inst.off, inst.b) ]
    /\ PrintT(ToJson([k |-> "inst", kind |-> "rng", fn |-> inst.fn, seed |-> inst.off, g1 |-> inst.a, g2 |-> inst.b]))
    /\ phase' = "done"
    /\ UNCHANGED inst

Next == DoPix \/ DoWeight \/ DoEdges \/ DoSnr \/ DoNewShape \/ DoPsfOdd \/ DoRng
Spec == Init /\ [][Next]_vars

-----------------------------------------------------------------------------
(* Layer 3: properties of the design, checked by TLC on every instance *)

Done(kind) == phase = "done" /\ inst.kind = kind
UPos == { k \in 1 .. inst.h * inst.w : Unmasked(k, inst.u, inst.w) }

\* each conversion composed with its inverse is the identity (on rationals, pixel by pixel)
ConversionsAreMutualInverses ==
    Done("pix") =>
        LET d == PixD(inst)
            t == PixT(inst)
            g == inst.a
        IN \A k \in UPos :
              /\ QEq(CountsToEpsQ(obs.counts[k], t[k]), QInt(d[k]))
              /\ QEq(EpsToCountsQ(obs.eps[k], t[k]), QInt(d[k]))
              /\ QEq(AdusToEpsQ(obs.adus[k], t[k], g), QInt(d[k]))
              /\ QEq(EpsToAdusQ(obs.aeps[k], t[k], g), QInt(d[k]))
              \* the two routes to ADUs agree: counts / gain
              /\ QEq(obs.adus[k], QDivInt(obs.counts[k], g))
              \* counts per second with exposure time et is counts -> eps with a constant exposure time map
              /\ QEq(obs.cps[k], CountsToEpsQ(QInt(d[k]), inst.b))
\* masked cells never contribute: their (arbitrary) input values do not appear in any result
MaskedCellsAreZero ==
    Done("pix") =>
        \A k \in (1 .. inst.h * inst.w) \ UPos :
            obs.counts[k] = 0 /\ obs.eps[k] = 0 /\ obs.adus[k] = 0 /\ obs.pn[k] = 0 /\ obs.bn[k] = 0 /\ obs.inv[k] = 0
\* the three data-based noise maps are one family: no background = Poisson; a background noise map b is the
\* background variance b^2 t; noise^2 = Poisson^2 + b^2 (quadrature)
NoiseBuildersAreOneFamily ==
    Done("pix") =>
        LET d == PixD(inst)
            t == PixT(inst)
            b == PixB(inst)
        IN \A k \in UPos :
              /\ BgNoiseRad(d[k], t[k], 0) = obs.pn[k]
              /\ BgVarRad(d[k], t[k], 0) = obs.pn[k]
              /\ BgVarRad(d[k], t[k], b[k] * b[k] * t[k]) = obs.bn[k]
              /\ obs.bn[k].n = obs.pn[k].n + b[k] * b[k] * obs.pn[k].d * obs.pn[k].d
              /\ obs.pn[k].n >= 0 /\ obs.bn[k].n >= obs.pn[k].n /\ obs.bv[k].n >= obs.pn[k].n
              \* the sign of the data never matters
              /\ PoissonRad(-d[k], t[k]) = obs.pn[k]
\* the fixed-point verdict accepts the true value and nothing three units away (sound and tight)
FixedPointBracketsTheSquareRoot ==
    Done("pix") =>
        \A k \in UPos : \A rad \in { obs.pn[k], obs.bn[k], obs.bv[k] } :
            LET S == FxScale
                a == Isqrt(S * S * rad.n) \div rad.d
            IN /\ FxSqrtOk(a, rad.n, rad.d, S) \/ FxSqrtOk(a + 1, rad.n, rad.d, S)
               /\ ~ FxSqrtOk(a + 3, rad.n, rad.d, S)
               /\ (a >= 3 => ~ FxSqrtOk(a - 3, rad.n, rad.d, S))
               /\ (IsSquare(rad.n) => ExactSqrtOk((4096 * Isqrt(rad.n) + rad.d \div 2) \div rad.d, rad.n, rad.d, 4096))
\* a positive weight and its noise satisfy noise^2 * w = 1; the two special branches are disjoint from it
WeightNoiseInvertsTheWeight ==
    Done("weight") =>
        \A k \in UPos :
            LET wn == obs.wn[k]
                wd == obs.wd[k]
            IN /\ wd > 0
               /\ (wn > 0 => LET rad == WeightRad(wn, wd) IN rad.n * wn = rad.d * rad.d * wd)
               /\ (wn <= 0 => WeightOk(Large, Large, wn, wd, FxScale, 4096) /\ ~ WeightOk(NaNTag, NaNTag, wn, wd, FxScale, 4096))

\* rings partition the frame; the n outermost rings of a frame with NRings rings are the whole frame
RingsPartitionTheFrame ==
    Done("edges") =>
        LET H == inst.h
            W == inst.w
        IN /\ \A c \in Cells(H, W) : RingOf(c, H, W) \in 0 .. NRings(H, W) - 1
           /\ RingCells(H, W, NRings(H, W)) = Cells(H, W)
           /\ Len(obs.tags) = Cardinality(RingCells(H, W, inst.a))
           /\ \A c \in Cells(H, W) : RingOf(c, H, W) = 0 <=> (c[1] = 0 \/ c[2] = 0 \/ c[1] = H - 1 \/ c[2] = W - 1)
           \* peeling: ring e of the frame is ring 0 of the frame without its e outermost rings
           /\ \A c \in Cells(H, W) : RingOf(c, H, W) >= 1 =>
                  RingOf(<< c[1] - 1, c[2] - 1 >>, H - 2, W - 2) = RingOf(c, H, W) - 1
\* the four-slices formulation returns every ring pixel exactly once -- except that a ring which is a single row or a
\* single column is taken twice (top = bottom, left = right): there, and only there, the code leaves the definition
SlicesAgreeWithRingsOffSingleLineRings ==
    Done("edges") =>
        /\ ToSet(obs.code) = ToSet(obs.tags)
        /\ (SameBag(obs.code, obs.tags) <=> ~ SingleLineRing(inst.h, inst.w, inst.a))
        /\ Len(obs.code) >= Len(obs.tags)
\* median and standard deviation: elementary sanity of the definitions used by the verdicts
EstimatorsAreSane ==
    Done("edges") =>
        LET s == obs.vals
        IN /\ Median2(s) >= 2 * MinOf(ToSet(s)) /\ Median2(s) <= 2 * MaxOf(ToSet(s))
           /\ VarNum(s) >= 0
           /\ (VarNum(s) = 0 <=> Cardinality(ToSet(s)) = 1)
           /\ Median2(s \o s) = Median2(s)                       \* taking EVERY pixel twice changes nothing ...
           /\ VarNum(s \o s) = 4 * VarNum(s)                     \* ... (n doubles: same variance)
           /\ LET a == Isqrt(FxScale * FxScale * VarNum(s)) \div Len(s)
              IN StdOk(a, s, FxScale) \/ StdOk(a + 1, s, FxScale)

\* what the limit is for: afterwards no uncovered pixel exceeds it; noise is never lowered; covered pixels and
\* pixels below the limit keep their noise; limiting twice is limiting once
LimitCapsSignalToNoise ==
    Done("snr") =>
        \A k \in UPos :
            LET q == obs.out[k]
                d == obs.d[k]
                n == obs.n[k]
                cov == CellOf(k-1, inst.w) \in inst.lm
            IN /\ q[1] * 1 >= n * q[2]                                               \* never lowered
               /\ (~ cov => d * inst.b * q[2] <= inst.a * q[1])                      \* d/q <= ln/ld
               /\ ((cov \/ ~ Exceeds(d, n, inst.a, inst.b)) => q = QInt(n))
               /\ (Exceeds(d, n, inst.a, inst.b) /\ ~ cov => QEq(QMulInt(q, inst.a), QInt(Abs(d) * inst.b)))

\* array_with_new_shape is C14's centred resize: the loop formulation is one of the allowed centred windows
NewShapeIsTheCentredResize ==
    Done("newshape") =>
        /\ R!ValidResize(obs.src, inst.h, inst.w, inst.u, inst.h2, inst.w2)
        /\ (inst.h2 = inst.h /\ inst.w2 = inst.w =>
              obs.src = [k \in 1 .. inst.h * inst.w |-> IF Unmasked(k, inst.u, inst.w) THEN k - 1 ELSE R!Pad])
\* the odd-sized PSF: closest odd dimensions; an odd kernel keeps its shape; doing it twice changes nothing more
PsfOddDimensions ==
    Done("psf") =>
        /\ OddDimOk(inst.h, obs.oh) /\ OddDimOk(inst.w, obs.ow)
        /\ OddDimOk(obs.oh, obs.oh) /\ OddDimOk(obs.ow, obs.ow)
        /\ (inst.h % 2 = 1 /\ inst.w % 2 = 1 => obs.oh = inst.h /\ obs.ow = inst.w)
\* a seeded call (seed >= 0) does not see the global generator; an unseeded one (-1) does
SeededDrawsIgnoreTheGlobalGenerator ==
    Done("rng") =>
        /\ (inst.off >= 0 => obs.first = obs.second)
        /\ (inst.a # inst.b => CodeDraw(inst.fn, -1, inst.a) # CodeDraw(inst.fn, -1, inst.b))
=============================================================================
