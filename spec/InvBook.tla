------------------------------ MODULE InvBook ------------------------------
(***************************************************************************)
(* X11: the bookkeeping of an inversion over a LIST of linear objects is a *)
(* consistent partition of the parameter vector.                           *)
(*                                                                         *)
(* An inversion is built from an ordered list of linear objects (mappers   *)
(* with p pixels, linear function lists with q columns; each with or       *)
(* without a regularization; several objects of one class and equal        *)
(* objects allowed).  Everything AbstractInversion publishes about "which  *)
(* parameter belongs to which object" must be one and the same partition   *)
(* of 0 .. total-1 into consecutive intervals, in list order:              *)
(*   ranges, class selections, the unregularised index list, the column    *)
(*   blocks of the (operated) mapping matrix, the diagonal blocks of the   *)
(*   regularization matrix, the reduced forms, the per-object dictionaries *)
(*   of the reconstruction / the mapped data / the noise map, the sums     *)
(*   over objects.                                                         *)
(*                                                                         *)
(* Exact domain: integers.  An INSTANCE I is a record                      *)
(*   n      number of data pixels (rows of every mapping matrix)           *)
(*   objs   sequence of objects  o = [cls, reg, p, M, B, H, edge, wts]     *)
(*            cls  concrete class name of the object                       *)
(*            reg  concrete class name of its regularization, or "none"    *)
(*            p    number of parameters                                    *)
(*            M    n x p  the object's own mapping matrix                  *)
(*            B    n x p  the object's own operated (PSF blurred) matrix   *)
(*            H    p x p  the object's own regularization matrix (zero     *)
(*                        matrix when reg = "none")                        *)
(*            edge edge pixels of a mapper, relative to the mapper (0..)   *)
(*            wts  p regularization weights of the object's own scheme     *)
(*   w, d   n noise weights, n data values (in the units of B)             *)
(*   g      curvature units per regularization unit:  C = F + g * H        *)
(*   eps    the diagonal term of unregularised parameters (curvature units)*)
(*   s      the reconstruction, total integers (times S when not exact)    *)
(*   S      fixed-point scale of s and of everything linear in s (1 when   *)
(*          exact)                                                         *)
(*   exact  TRUE: s is an integer vector (laws are equalities);            *)
(*          FALSE: s is a solved real vector in fixed point (data movement *)
(*          within one unit, linear laws within the derived rounding bound)*)
(*   zpix   data pixels (0-based) of settings.image_pixels_source_zero     *)
(* Published index values are 0-based and ranges half open, as in Python.  *)
(*                                                                         *)
(* Layer 1 (meaning)  what each published quantity must be, from the       *)
(*         statement and the docstrings of AbstractInversion.              *)
(* Second formulation  the same quantities built the way the code builds   *)
(*         them: a running pixel count, block_diag, hstack, np.delete of   *)
(*         an index list, dictionaries keyed by the objects and filled in  *)
(*         a loop, sum over dictionary values, cached properties.          *)
(* Layer 2 (machine)  Init/Build(list), Read(q) in any order and repeated, *)
(*         with the cache of one inversion object.                         *)
(* Layer 3 (properties) RangesPartition, ClassSelectionsAreSublists,       *)
(*         ReducedDeletesExactlyUnregularised,                             *)
(*         DictSlicesConcatenateToReconstruction, MappedDataIsSumOfParts,  *)
(*         ReadsAreOrderIndependent, CacheHoldsMeaning.                    *)
(* Design switches (value of the design first; the other values give TLC's *)
(* counterexample):                                                        *)
(*   KeyMode  "identity" | "content" | "class"   what a dictionary key is  *)
(*   CachePerObject  TRUE | FALSE   cached values belong to one inversion  *)
(***************************************************************************)
EXTENDS Integers, Sequences, FiniteSets, TLC, Json, FiniteSetsExt, SequencesExt

CONSTANTS Alphabet,        \* symbols the bounded machine builds lists from: records [cls, reg, p, c] (c = content code)
          MaxLen,          \* lists of length 1 .. MaxLen
          MaxReads,        \* reads per inversion explored
          ReadSet,         \* read requests explored: records [q, arg]
          NRows,           \* data pixels of the synthetic payload
          KeyMode,         \* "identity" (the design) | "content" | "class"
          CachePerObject,  \* TRUE (the design): a new inversion starts with an empty cache
          Rebuilds,        \* BOOLEAN: Build(list) may be repeated (a new inversion over another list)
          DumpInstances    \* BOOLEAN: print every initial list (the instances the driver realises)

SumOver(S, f(_)) == FoldSet(LAMBDA x, acc : acc + f(x), 0, S)
Abs(x) == IF x < 0 THEN -x ELSE x
Idx(n) == [k \in 1 .. n |-> k]
ZeroMat(r, c) == [a \in 1 .. r |-> [b \in 1 .. c |-> 0]]
ZeroVec(n) == [a \in 1 .. n |-> 0]
\* a fully evaluated r x c matrix (function constructors are lazy in TLC)
Mat(r, c, f(_, _)) == TLCEval([a \in 1 .. r |-> TLCEval([b \in 1 .. c |-> f(a, b)])])

-----------------------------------------------------------------------------
(* classes: isinstance follows the subclass relation *)
Parent == ("LinearObj" :> "") @@ ("AbstractMapper" :> "LinearObj") @@ ("MapperRectangular" :> "AbstractMapper")
          @@ ("MapperDelaunay" :> "AbstractMapper") @@ ("AbstractLinearObjFuncList" :> "LinearObj")
          @@ ("VFuncList" :> "AbstractLinearObjFuncList") @@ ("VFuncListOverride" :> "VFuncList")
          @@ ("AbstractRegularization" :> "") @@ ("VReg" :> "AbstractRegularization") @@ ("VRegSub" :> "VReg")
          @@ ("Constant" :> "AbstractRegularization")
RECURSIVE IsSub(_, _)
IsSub(c, cls) == c \in DOMAIN Parent /\ (c = cls \/ IsSub(Parent[c], cls))
IsMapper(o) == IsSub(o.cls, "AbstractMapper")
IsFunc(o) == IsSub(o.cls, "AbstractLinearObjFuncList")
HasReg(o) == o.reg # "none"

-----------------------------------------------------------------------------
(* Layer 1: meaning.  T = Tab(I) holds what is derived once per instance. *)
RECURSIVE Pre(_, _)
Pre(objs, k) == IF k = 0 THEN 0 ELSE Pre(objs, k - 1) + objs[k].p

Tab(I) ==
  LET N == Len(I.objs)
      st == TLCEval([k \in 1 .. N + 1 |-> Pre(I.objs, k - 1)])            \* st[k] = 0-based first parameter of object k
      tot == st[N + 1]
      own == TLCEval([c \in 1 .. tot |-> CHOOSE k \in 1 .. N : st[k] < c /\ c <= st[k + 1]])
      keep == SelectSeq(Idx(tot), LAMBDA c : HasReg(I.objs[own[c]]))     \* 1-based parameters of regularised objects
  IN [I |-> I, N |-> N, st |-> st, tot |-> tot, own |-> own, keep |-> keep]
\* the concatenated matrices: object k's block sits in range k (columns; rows and columns for the square ones)
MMof(T) == Mat(T.I.n, T.tot, LAMBDA t, c : T.I.objs[T.own[c]].M[t][c - T.st[T.own[c]]])
BBcalc(T) == Mat(T.I.n, T.tot, LAMBDA t, c : T.I.objs[T.own[c]].B[t][c - T.st[T.own[c]]])
HHcalc(T) == Mat(T.tot, T.tot, LAMBDA a, b : IF T.own[a] = T.own[b] THEN T.I.objs[T.own[a]].H[a - T.st[T.own[a]]][b - T.st[T.own[a]]] ELSE 0)
\* curvature matrix F = B' W B + eps on the diagonal of unregularised parameters;  C = F + g H
FFcalc(T, BB) == Mat(T.tot, T.tot, LAMBDA a, b : SumOver(1 .. T.I.n, LAMBDA t : BB[t][a] * BB[t][b] * T.I.w[t])
                                                 + (IF a = b /\ ~ HasReg(T.I.objs[T.own[a]]) THEN T.I.eps ELSE 0))
CCcalc(T, FF, HH) == Mat(T.tot, T.tot, LAMBDA a, b : FF[a][b] + T.I.g * HH[a][b])
\* a table that also carries them (trace validation judges many reads of one instance); the accessors work on both kinds of table
TabFull(I) == LET T == Tab(I) BB == BBcalc(T) HH == HHcalc(T) FF == FFcalc(T, BB) CC == CCcalc(T, FF, HH)
              IN [I |-> I, N |-> T.N, st |-> T.st, tot |-> T.tot, own |-> T.own, keep |-> T.keep, BB |-> BB, HH |-> HH, FF |-> FF, CC |-> CC]
BBof(T) == IF "BB" \in DOMAIN T THEN T.BB ELSE BBcalc(T)
HHof(T) == IF "HH" \in DOMAIN T THEN T.HH ELSE HHcalc(T)
FFof(T) == IF "FF" \in DOMAIN T THEN T.FF ELSE FFcalc(T, BBcalc(T))
CCof(T) == IF "CC" \in DOMAIN T THEN T.CC ELSE CCcalc(T, FFcalc(T, BBcalc(T)), HHcalc(T))

ParamRange(T, k) == << T.st[k], T.st[k + 1] >>
\* positions (1-based) of the linear objects / of the objects whose regularization is an instance of cls, in list order
SelObjs(T, cls) == SelectSeq(Idx(T.N), LAMBDA k : IsSub(T.I.objs[k].cls, cls))
SelRegs(T, cls) == SelectSeq(Idx(T.N), LAMBDA k : IsSub(T.I.objs[k].reg, cls))
RangesOf(T, cls) == LET s == SelObjs(T, cls) IN [j \in 1 .. Len(s) |-> ParamRange(T, s[j])]
\* cls_list_from / total / has run over  linear_obj_list + regularization_list : tokens k-1 (object k) and 100+k-1 (its regularization)
ClsList(T, cls, filt) ==
  LET so == SelectSeq(SelObjs(T, cls), LAMBDA k : ~ IsSub(T.I.objs[k].cls, filt))
      sr == SelectSeq(SelRegs(T, cls), LAMBDA k : ~ IsSub(T.I.objs[k].reg, filt))
  IN [j \in 1 .. Len(so) |-> so[j] - 1] \o [j \in 1 .. Len(sr) |-> 100 + sr[j] - 1]
RegList(T) == [k \in 1 .. T.N |-> IF HasReg(T.I.objs[k]) THEN 100 + k - 1 ELSE -1]
NumRegs(T) == Len(SelectSeq(Idx(T.N), LAMBDA k : HasReg(T.I.objs[k])))
\* the 0-based parameters of unregularised objects / of mappers
UnregSeq(T) == LET s == SelectSeq(Idx(T.tot), LAMBDA c : ~ HasReg(T.I.objs[T.own[c]])) IN [j \in 1 .. Len(s) |-> s[j] - 1]
EdgeSeq(T) == LET s == SelObjs(T, "AbstractMapper")
                  RECURSIVE Cat(_)
                  Cat(j) == IF j > Len(s) THEN << >>
                            ELSE [e \in 1 .. Len(T.I.objs[s[j]].edge) |-> T.I.objs[s[j]].edge[e] + T.st[s[j]]] \o Cat(j + 1)
              IN Cat(1)
\* per mapper: the pixels that receive a data pixel of zpix
ZeroSet(T, k) == LET o == T.I.objs[k]
                 IN { T.st[k] + c - 1 : c \in { c \in 1 .. o.p : \E z \in ToSet(T.I.zpix) : o.M[z + 1][c] # 0 } }
SamePerm(seq, want) == Len(seq) = Len(want) /\ ToSet(seq) = ToSet(want)

Red2(m, keep) == [a \in 1 .. Len(keep) |-> [b \in 1 .. Len(keep) |-> m[keep[a]][keep[b]]]]
Red1(v, keep) == [a \in 1 .. Len(keep) |-> v[keep[a]]]
Slice(T, v, k) == SubSeq(v, T.st[k] + 1, T.st[k + 1])
\* object k's part of the model data: its (operated, f = "B" / plain, f = "M") block times its slice of the reconstruction
Part(T, k, f) == LET o == T.I.objs[k] IN [t \in 1 .. T.I.n |-> SumOver(1 .. o.p, LAMBDA c : o[f][t][c] * T.I.s[T.st[k] + c])]
Parts(T, f) == TLCEval([k \in 1 .. T.N |-> Part(T, k, f)])
SumParts(T, ps, skip) == [t \in 1 .. T.I.n |-> SumOver((1 .. T.N) \ skip, LAMBDA k : ps[k][t])]
RegTerm(T) == LET HH == HHof(T) IN SumOver(ToSet(T.keep), LAMBDA a : SumOver(ToSet(T.keep), LAMBDA b : T.I.s[a] * HH[a][b] * T.I.s[b]))
\* dictionaries are abstracted to sequences of [key, v] in key order; key = 0-based position of the object in the list
DictOf(keys, val(_)) == [j \in 1 .. Len(keys) |-> [key |-> keys[j] - 1, v |-> val(keys[j])]]

\* rounding bounds (not exact: s and the observed values are round(x * S))
TolMove(T) == IF T.I.exact THEN 0 ELSE 1
RowAbs(o, f, t) == SumOver(1 .. o.p, LAMBDA c : Abs(o[f][t][c]))
TolPart(T, k, f, t) == IF T.I.exact THEN 0 ELSE (RowAbs(T.I.objs[k], f, t) + 1) \div 2 + 1
TolSum(T, f, t, skip) == IF T.I.exact THEN 0 ELSE SumOver((1 .. T.N) \ skip, LAMBDA k : (RowAbs(T.I.objs[k], f, t) + 1) \div 2) + 1

\* exact determinant by Laplace expansion (k <= 4; the driver keeps the entries small)
RECURSIVE Det(_, _)
Det(M, k) ==
  IF k = 0 THEN 1
  ELSE IF k = 1 THEN M[1][1]
  ELSE LET Minor(c) == [i \in 1 .. k - 1 |-> [j \in 1 .. k - 1 |-> M[i + 1][IF j < c THEN j ELSE j + 1]]]
       IN SumOver(1 .. k, LAMBDA c : (IF c % 2 = 1 THEN 1 ELSE -1) * M[1][c] * Det(Minor(c), k - 1))
Without(M, n, x) == LET ix == SelectSeq(Idx(n), LAMBDA a : a # x) IN Red2(M, ix)

\* the value the statement pins for a request [q, arg, filt]  (requests judged by a postcondition instead are in Trace_InvBook)
Want(T, q, arg, filt) ==
  CASE q = "total_params" -> T.tot
    [] q = "param_range_list_from" -> RangesOf(T, arg)
    [] q = "cls_list_from" -> ClsList(T, arg, filt)
    [] q = "total" -> Len(ClsList(T, arg, ""))
    [] q = "has" -> Len(ClsList(T, arg, "")) > 0
    [] q = "regularization_list" -> RegList(T)
    [] q = "total_regularizations" -> NumRegs(T)
    [] q = "all_linear_obj_have_regularization" -> NumRegs(T) = T.N
    [] q = "no_regularization_index_list" -> UnregSeq(T)
    [] q = "mapper_edge_pixel_list" -> EdgeSeq(T)
    [] q = "mapping_matrix" -> MMof(T)
    [] q = "operated_mapping_matrix" -> BBof(T)
    [] q = "operated_mapping_matrix_list" -> [k \in 1 .. T.N |-> T.I.objs[k].B]
    [] q = "linear_func_operated_mapping_matrix_dict" -> DictOf(SelObjs(T, "AbstractLinearObjFuncList"), LAMBDA k : T.I.objs[k].B)
    [] q = "mapper_operated_mapping_matrix_dict" -> DictOf(SelObjs(T, "AbstractMapper"), LAMBDA k : T.I.objs[k].B)
    [] q = "regularization_matrix" -> HHof(T)
    [] q = "regularization_matrix_reduced" -> Red2(HHof(T), T.keep)
    [] q = "curvature_matrix" -> FFof(T)
    [] q = "curvature_reg_matrix" -> CCof(T)
    [] q = "curvature_reg_matrix_reduced" -> Red2(CCof(T), T.keep)
    [] q = "reconstruction" -> T.I.s
    [] q = "reconstruction_reduced" -> Red1(T.I.s, T.keep)
    [] q = "reconstruction_dict" -> DictOf(Idx(T.N), LAMBDA k : Slice(T, T.I.s, k))
    [] q \in {"mapped_reconstructed_data_dict", "mapped_reconstructed_image_dict"} ->
         LET ps == Parts(T, "B") IN DictOf(Idx(T.N), LAMBDA k : ps[k])
    [] q \in {"mapped_reconstructed_data", "mapped_reconstructed_image"} -> SumParts(T, Parts(T, "B"), {})
    [] q = "data_subtracted_dict" ->
         LET ps == Parts(T, "B") IN DictOf(Idx(T.N), LAMBDA k : LET sm == SumParts(T, ps, {k}) IN [t \in 1 .. T.I.n |-> T.I.S * T.I.d[t] - sm[t]])
    [] q = "regularization_term" -> RegTerm(T)
    [] q = "regularization_weights_mapper_dict" -> DictOf(SelObjs(T, "AbstractMapper"), LAMBDA k : T.I.objs[k].wts)
    [] q = "regularization_weights_from" -> [k \in 1 .. T.N |-> T.I.objs[k].wts]      \* index = position in the list
    [] OTHER -> << "unknown-request", q >>

-----------------------------------------------------------------------------
(* second formulation, structured like the code *)

\* param_range_list_from: one pass with a running pixel count
RECURSIVE CodeRanges(_, _, _, _)
CodeRanges(objs, cls, k, count) ==
  IF k > Len(objs) THEN << >>
  ELSE (IF IsSub(objs[k].cls, cls) THEN << << count, count + objs[k].p >> >> ELSE << >>)
       \o CodeRanges(objs, cls, k + 1, count + objs[k].p)
RangeList(a, b) == [j \in 1 .. b - a |-> a + j - 1]                       \* range(a, b)
\* no_regularization_index_list: zip(objects, regularizations, ranges of every object)
CodeNoReg(objs) ==
  LET rl == CodeRanges(objs, "LinearObj", 1, 0)
      RECURSIVE Acc(_)
      Acc(k) == IF k > Len(objs) THEN << >>
                ELSE (IF objs[k].reg = "none" THEN RangeList(rl[k][1], rl[k][2]) ELSE << >>) \o Acc(k + 1)
  IN Acc(1)
CodeEdge(objs) ==
  LET rl == CodeRanges(objs, "LinearObj", 1, 0)
      RECURSIVE Acc(_)
      Acc(k) == IF k > Len(objs) THEN << >>
                ELSE (IF IsMapper(objs[k]) THEN [e \in 1 .. Len(objs[k].edge) |-> objs[k].edge[e] + rl[k][1]] ELSE << >>) \o Acc(k + 1)
  IN Acc(1)
\* np.hstack of the objects' matrices
RECURSIVE CodeHStack(_, _, _, _)
CodeHStack(objs, f, n, k) ==
  IF k > Len(objs) THEN [t \in 1 .. n |-> << >>]
  ELSE LET rest == CodeHStack(objs, f, n, k + 1) IN [t \in 1 .. n |-> objs[k][f][t] \o rest[t]]
\* scipy block_diag of the objects' regularization matrices, one block appended after the other
RECURSIVE CodeBlockDiag(_, _, _)
CodeBlockDiag(objs, k, acc) ==
  IF k > Len(objs) THEN acc
  ELSE LET old == Len(acc) p == objs[k].p
       IN CodeBlockDiag(objs, k + 1,
            [a \in 1 .. old + p |-> [b \in 1 .. old + p |->
               IF a <= old /\ b <= old THEN acc[a][b]
               ELSE IF a > old /\ b > old THEN objs[k].H[a - old][b - old] ELSE 0]])
\* np.delete(m, index list, axis 0) then axis 1; np.delete(v, index list)
CodeDelete2(m, drop) == LET keep == SelectSeq(Idx(Len(m)), LAMBDA a : (a - 1) \notin ToSet(drop)) IN Red2(m, keep)
CodeDelete1(v, drop) == LET keep == SelectSeq(Idx(Len(v)), LAMBDA a : (a - 1) \notin ToSet(drop)) IN Red1(v, keep)
AllReg(objs) == \A k \in DOMAIN objs : objs[k].reg # "none"

\* dictionaries keyed by the linear objects: what a key is decides whether two equal objects are two entries
\* (a key is named by the 0-based position of the FIRST object it cannot be told from: under "identity" its own position)
KeyOf(objs, k) ==
  CASE KeyMode = "identity" -> k - 1
    [] KeyMode = "content" -> (CHOOSE l \in 1 .. k : objs[l].c = objs[k].c /\ \A m \in 1 .. l - 1 : objs[m].c # objs[k].c) - 1
    [] OTHER -> (CHOOSE l \in 1 .. k : objs[l].cls = objs[k].cls /\ \A m \in 1 .. l - 1 : objs[m].cls # objs[k].cls) - 1
Put(dict, key, val) ==
  IF \E j \in DOMAIN dict : dict[j].key = key
  THEN [j \in DOMAIN dict |-> IF dict[j].key = key THEN [key |-> key, v |-> val] ELSE dict[j]]
  ELSE Append(dict, [key |-> key, v |-> val])
Lookup(dict, key) == dict[CHOOSE j \in DOMAIN dict : dict[j].key = key].v
\* source_quantity_dict_from: slices taken with a running index
RECURSIVE CodeDict(_, _, _, _, _)
CodeDict(objs, vec, k, index, acc) ==
  IF k > Len(objs) THEN acc
  ELSE CodeDict(objs, vec, k + 1, index + objs[k].p, Put(acc, KeyOf(objs, k), SubSeq(vec, index + 1, index + objs[k].p)))
\* mapped_reconstructed_data_dict: for (index, object): block of the list times reconstruction_dict[object]
RECURSIVE CodeMapped(_, _, _, _, _)
CodeMapped(objs, rdict, n, k, acc) ==
  IF k > Len(objs) THEN acc
  ELSE LET rec == Lookup(rdict, KeyOf(objs, k))
           val == [t \in 1 .. n |-> SumOver(1 .. objs[k].p, LAMBDA c : objs[k].B[t][c] * rec[c])]
       IN CodeMapped(objs, rdict, n, k + 1, Put(acc, KeyOf(objs, k), val))
CodeSumValues(dict, n) == [t \in 1 .. n |-> SumOver(DOMAIN dict, LAMBDA j : dict[j].v[t])]
\* data_subtracted_dict: data minus the images of the OTHER objects (other = another key)
RECURSIVE CodeSubtracted(_, _, _, _, _, _)
CodeSubtracted(objs, mdict, d, n, k, acc) ==
  IF k > Len(objs) THEN acc
  ELSE LET key == KeyOf(objs, k)
           val == [t \in 1 .. n |-> d[t] - SumOver({ l \in 1 .. Len(objs) : KeyOf(objs, l) # key },
                                                    LAMBDA l : Lookup(mdict, KeyOf(objs, l))[t])]
       IN CodeSubtracted(objs, mdict, d, n, k + 1, Put(acc, key, val))
\* regularization_weights_mapper_dict, as it must be (the weights of the mapper's own scheme)
RECURSIVE CodeWeights(_, _, _)
CodeWeights(objs, k, acc) ==
  IF k > Len(objs) THEN acc
  ELSE CodeWeights(objs, k + 1, IF IsMapper(objs[k]) THEN Put(acc, KeyOf(objs, k), objs[k].wts) ELSE acc)

\* cached properties and what each evaluation reads (Get: from the cache if present)
CachedNames == {"total_params", "mapping_matrix", "operated_mapping_matrix", "regularization_matrix", "regularization_matrix_reduced",
                "curvature_reg_matrix", "curvature_reg_matrix_reduced", "reconstruction_reduced", "mapped_reconstructed_data",
                "data_subtracted_dict", "regularization_term"}
Deps(q) == CASE q = "regularization_matrix_reduced" -> {"regularization_matrix"}
             [] q = "curvature_reg_matrix" -> {"regularization_matrix"}
             [] q = "curvature_reg_matrix_reduced" -> {"curvature_reg_matrix"}
             [] q = "regularization_term" -> {"reconstruction_reduced", "regularization_matrix_reduced"}
             [] OTHER -> {}
RECURSIVE Closure(_)
Closure(q) == {q} \cup UNION { Closure(x) : x \in Deps(q) }

RECURSIVE Code(_, _, _, _)
Get(I, c, q, arg) == IF q \in DOMAIN c THEN c[q] ELSE Code(I, c, q, arg)
Code(I, c, q, arg) ==
  LET objs == I.objs IN
  CASE q = "total_params" -> SumOver(DOMAIN objs, LAMBDA k : objs[k].p)
    [] q = "param_range_list_from" -> CodeRanges(objs, arg, 1, 0)
    [] q = "no_regularization_index_list" -> CodeNoReg(objs)
    [] q = "mapper_edge_pixel_list" -> CodeEdge(objs)
    [] q = "mapping_matrix" -> CodeHStack(objs, "M", I.n, 1)
    [] q = "operated_mapping_matrix" -> CodeHStack(objs, "B", I.n, 1)
    [] q = "regularization_matrix" -> CodeBlockDiag(objs, 1, << >>)
    [] q = "regularization_matrix_reduced" ->
         LET m == Get(I, c, "regularization_matrix", "") IN IF AllReg(objs) THEN m ELSE CodeDelete2(m, CodeNoReg(objs))
    [] q = "curvature_reg_matrix" ->
         LET bb == CodeHStack(objs, "B", I.n, 1)
             nr == ToSet(CodeNoReg(objs))
             tot == Len(bb[1])
             hh == Get(I, c, "regularization_matrix", "")
         IN [a \in 1 .. tot |-> [b \in 1 .. tot |->
               SumOver(1 .. I.n, LAMBDA t : bb[t][a] * bb[t][b] * I.w[t]) + (IF a = b /\ (a - 1) \in nr THEN I.eps ELSE 0)
               + I.g * hh[a][b]]]
    [] q = "curvature_reg_matrix_reduced" ->
         LET m == Get(I, c, "curvature_reg_matrix", "") IN IF AllReg(objs) THEN m ELSE CodeDelete2(m, CodeNoReg(objs))
    [] q = "reconstruction_reduced" -> IF AllReg(objs) THEN I.s ELSE CodeDelete1(I.s, CodeNoReg(objs))
    [] q = "reconstruction_dict" -> CodeDict(objs, I.s, 1, 0, << >>)
    [] q = "mapped_reconstructed_data_dict" -> CodeMapped(objs, CodeDict(objs, I.s, 1, 0, << >>), I.n, 1, << >>)
    [] q = "mapped_reconstructed_data" ->
         CodeSumValues(CodeMapped(objs, CodeDict(objs, I.s, 1, 0, << >>), I.n, 1, << >>), I.n)
    [] q = "data_subtracted_dict" ->
         CodeSubtracted(objs, CodeMapped(objs, CodeDict(objs, I.s, 1, 0, << >>), I.n, 1, << >>), I.d, I.n, 1, << >>)
    [] q = "regularization_term" ->
         LET sr == Get(I, c, "reconstruction_reduced", "") hr == Get(I, c, "regularization_matrix_reduced", "")
         IN SumOver(DOMAIN sr, LAMBDA a : SumOver(DOMAIN sr, LAMBDA b : sr[a] * hr[a][b] * sr[b]))
    [] q = "regularization_weights_mapper_dict" -> CodeWeights(objs, 1, << >>)
    [] OTHER -> << "unknown-request", q >>

-----------------------------------------------------------------------------
(* Layer 2: the bounded machine.  The payload of a symbol is synthetic and depends on the symbol only, so two equal symbols
   in a list are two EQUAL objects (same blocks), which must still be two parameters groups. *)
SymObj(x) ==
  [cls |-> x.cls, reg |-> x.reg, p |-> x.p, c |-> x.c,
   M |-> Mat(NRows, x.p, LAMBDA t, c : 10 * x.c + 3 * t + c),
   B |-> Mat(NRows, x.p, LAMBDA t, c : 5 * x.c - 2 * t + c * c),
   H |-> IF x.reg = "none" THEN Mat(x.p, x.p, LAMBDA a, b : 0)
         ELSE Mat(x.p, x.p, LAMBDA a, b : IF a = b THEN 20 + x.c + a ELSE x.c + a + b),
   edge |-> IF IsSub(x.cls, "AbstractMapper") THEN << 0, x.p - 1 >> ELSE << >>,
   wts |-> IF x.reg = "none" THEN TLCEval(ZeroVec(x.p)) ELSE TLCEval([a \in 1 .. x.p |-> 10 * x.c + a])]
InstOf(l) ==
  LET objs == TLCEval([k \in 1 .. Len(l) |-> SymObj(l[k])])
      tot == Pre(objs, Len(l))
  IN [n |-> NRows, objs |-> objs, w |-> TLCEval([t \in 1 .. NRows |-> t]), d |-> TLCEval([t \in 1 .. NRows |-> 50 * t + 1]), g |-> 2, eps |-> 7,
      s |-> TLCEval([k \in 1 .. tot |-> 2 * k + (k % 3) - 4]), S |-> 1, exact |-> TRUE, zpix |-> << 0 >>]

RECURSIVE ListsOfLen(_)
ListsOfLen(len) == IF len = 0 THEN { << >> } ELSE { Append(l, x) : l \in ListsOfLen(len - 1), x \in Alphabet }
Lists == UNION { ListsOfLen(len) : len \in 1 .. MaxLen }

VARIABLES lst,     \* the list of the current inversion (sequence of symbols)
          cache,   \* cached property name -> value of the current inversion
          nreads,  \* reads done on the current inversion
          out      \* last read: [q, arg, v]
vars == << lst, cache, nreads, out >>
NoCache == [x \in {} |-> 0]
NoOut == [q |-> "none", arg |-> "", v |-> 0]

Init == /\ lst \in Lists /\ cache = NoCache /\ nreads = 0 /\ out = NoOut
        /\ (DumpInstances => PrintT(ToJson([k |-> "inst", objs |-> lst])))

\* a new inversion over another list
Build == /\ Rebuilds /\ nreads > 0
         /\ \E l \in Lists : lst' = l
         /\ cache' = IF CachePerObject THEN NoCache ELSE cache
         /\ nreads' = 0 /\ out' = NoOut

Read == /\ nreads < MaxReads
        /\ LET I == InstOf(lst)
           IN \E rq \in ReadSet :
                LET v == Get(I, cache, rq.q, rq.arg)
                    new == (Closure(rq.q) \cap CachedNames) \ DOMAIN cache
                IN /\ out' = [q |-> rq.q, arg |-> rq.arg, v |-> v]
                   /\ cache' = cache @@ [x \in new |-> IF x = rq.q THEN v ELSE Get(I, cache, x, "")]
        /\ nreads' = nreads + 1
        /\ UNCHANGED lst

Next == Build \/ Read
Spec == Init /\ [][Next]_vars

-----------------------------------------------------------------------------
(* Layer 3: properties.  The first five speak about the list only and are evaluated once per list (nreads = 0, empty cache). *)
Fresh == nreads = 0 /\ cache = NoCache
RangesPartition ==
  Fresh => LET I == InstOf(lst) rl == CodeRanges(I.objs, "LinearObj", 1, 0) N == Len(lst)
           IN /\ Len(rl) = N
              /\ rl[1][1] = 0
              /\ \A k \in 1 .. N : rl[k][2] - rl[k][1] = I.objs[k].p
              /\ \A k \in 1 .. N - 1 : rl[k][2] = rl[k + 1][1]
              /\ rl[N][2] = Code(I, NoCache, "total_params", "")
              /\ rl = RangesOf(Tab(I), "LinearObj")
ClassSelectionsAreSublists ==
  Fresh => LET I == InstOf(lst) T == Tab(I)
           IN \A cls \in DOMAIN Parent :
                /\ CodeRanges(I.objs, cls, 1, 0) = RangesOf(T, cls)
                /\ LET sel == SelObjs(T, cls)
                   IN /\ \A j \in 1 .. Len(sel) - 1 : sel[j] < sel[j + 1]
                      /\ ToSet(sel) = { k \in 1 .. T.N : IsSub(I.objs[k].cls, cls) }
\* the reduced forms keep exactly the parameters of regularised objects, wherever the others sit; equivalently they are built
\* from the regularised objects alone
ReducedDeletesExactlyUnregularised ==
  Fresh => LET I == InstOf(lst) T == Tab(I)
               regs == SelectSeq(Idx(T.N), LAMBDA k : HasReg(I.objs[k]))
               only == [j \in 1 .. Len(regs) |-> I.objs[regs[j]]]
           IN /\ ToSet(CodeNoReg(I.objs)) = ToSet(UnregSeq(T)) /\ Len(CodeNoReg(I.objs)) = Len(UnregSeq(T))
              /\ Code(I, NoCache, "regularization_matrix", "") = HHof(T)
              /\ Code(I, NoCache, "regularization_matrix_reduced", "") = Red2(HHof(T), T.keep)
              /\ Code(I, NoCache, "regularization_matrix_reduced", "") = CodeBlockDiag(only, 1, << >>)
              /\ Code(I, NoCache, "curvature_reg_matrix_reduced", "") = Red2(CCof(T), T.keep)
              /\ Code(I, NoCache, "reconstruction_reduced", "") = Red1(I.s, T.keep)
              /\ Len(T.keep) + Len(UnregSeq(T)) = T.tot
RECURSIVE Flatten(_, _)
Flatten(dict, j) == IF j > Len(dict) THEN << >> ELSE dict[j].v \o Flatten(dict, j + 1)
DictSlicesConcatenateToReconstruction ==
  Fresh => LET I == InstOf(lst) dict == Code(I, NoCache, "reconstruction_dict", "")
           IN /\ Len(dict) = Len(lst)
              /\ \A j \in DOMAIN dict : Len(dict[j].v) = I.objs[j].p
              /\ Flatten(dict, 1) = I.s
MappedDataIsSumOfParts ==
  Fresh => LET I == InstOf(lst) T == Tab(I)
               BB == BBof(T)
               whole == [t \in 1 .. I.n |-> SumOver(1 .. T.tot, LAMBDA c : BB[t][c] * I.s[c])]
           IN /\ Code(I, NoCache, "mapped_reconstructed_data", "") = whole
              /\ Len(Code(I, NoCache, "mapped_reconstructed_data_dict", "")) = Len(lst)
              /\ Code(I, NoCache, "operated_mapping_matrix", "") = BB
              /\ Code(I, NoCache, "mapping_matrix", "") = MMof(T)
\* whatever was read before, and on whichever inversion, a read returns what the statement pins
ReadsAreOrderIndependent == out.q # "none" => out.v = Want(Tab(InstOf(lst)), out.q, out.arg, "")
CacheHoldsMeaning == DOMAIN cache # {} => LET T == Tab(InstOf(lst)) IN \A x \in DOMAIN cache : cache[x] = Want(T, x, "", "")
TypeOK == lst \in Lists /\ DOMAIN cache \subseteq CachedNames /\ nreads \in 0 .. MaxReads
=============================================================================
