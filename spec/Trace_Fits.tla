----------------------------- MODULE Trace_Fits -----------------------------
(***************************************************************************)
(* Validation of recorded FITS histories of the real code against Fits.tla *)
(* Each record is one library call at its return (also on the error path)  *)
(* together with the projection of the real file system afterwards.        *)
(* Verdicts are total: a disagreement is reported and the model state is   *)
(* re-synchronised with the logged projection so the rest is still judged. *)
(***************************************************************************)
EXTENDS Fits, IOUtils

Trace == JsonDeserialize(IOEnv.TRACE_FILE)

VARIABLE i

Proj(f) == [p \in Paths |-> f[p].cid]
\* take the logged projection as the state (orientation bookkeeping: keep what the model knew, else current flip)
Resync(f, logged, fl) ==
    [p \in Paths |-> IF logged[p] = NoFile THEN None
                     ELSE IF f[p].cid = logged[p] THEN f[p]
                     ELSE [cid |-> logged[p], wflip |-> fl, ext |-> << >>]]

ToSetOfStrings(s) == { s[k] : k \in DOMAIN s }

\* signature of the failing call site / input class (computed here, used to match known findings)
Sig(r) ==
    CASE r.a = "Write" -> "Write:" \o KindOf[r.c] \o ":" \o r.p
      [] r.a = "Read"  -> "Read:" \o r.kind \o ":" \o r.p
      [] r.a = "ReadHdu" -> "ReadHdu:" \o r.kind \o ":" \o r.p
      [] r.a = "WriteImaging" -> "WriteImaging"
      [] r.a = "ReadImaging" -> "ReadImaging"
      [] r.a = "HduIn" -> "HduIn:" \o r.kind \o
                          (IF r.n \in DOMAIN hdus /\ hdus[r.n].cid \in Aniso THEN ":anisotropic" ELSE "")
      [] OTHER -> r.a

Reject(r, clauses, want) ==
    PrintT(ToJson([k |-> "reject", i |-> i, id |-> r.id, clauses |-> clauses, sig |-> Sig(r), want |-> want]))

Cl(n, b) == IF b THEN << >> ELSE << n >>

TraceInit == /\ i = 1
             /\ fs = [p \in Paths |-> None]
             /\ dirs = InitDirs
             /\ flip = FALSE
             /\ hdus = << >>
             /\ res = [a |-> "Start"]
             /\ hist = << >>

StepStart(r) ==
    /\ fs' = [p \in Paths |-> None] /\ dirs' = InitDirs /\ flip' = r.b /\ hdus' = << >>
    /\ res' = [a |-> "Start"] /\ hist' = << >>

StepWrite(r) ==
    LET ok  == WriteOk(fs, r.p, r.ow)
        mfs == FsAfterWrite(fs, flip, r.c, r.p, r.ow)
        md  == DirsAfterWrite(fs, dirs, r.p, r.ow)
        bad == Cl("write-fails-iff-exists-and-no-overwrite", ok = r.ok)
               \o Cl("file-system-after-write", Proj(mfs) = r.files)
               \o Cl("directories-created", (ok /\ r.ok) => (DirOf[r.p] \subseteq ToSetOfStrings(r.dirs)))
    IN /\ IF bad = << >> THEN TRUE ELSE Reject(r, bad, [ok |-> ok, files |-> Proj(mfs)])
       /\ fs' = IF Proj(mfs) = r.files THEN mfs ELSE Resync(fs, r.files, flip)
       /\ dirs' = md \cup ToSetOfStrings(r.dirs)
       /\ res' = [a |-> "Write", ok |-> r.ok]
       /\ UNCHANGED << flip, hdus, hist >>

\* A read is judged when the model knows the file; its orientation only when the option is the same at both ends
StepRead(r) ==
    LET known == fs[r.p] # None
        want  == IF known THEN ReadValue(fs[r.p], flip) ELSE [cid |-> NoFile, flipped |-> FALSE]
        same  == known /\ fs[r.p].wflip = flip
        bad   == Cl("read-returns-written-values", known /\ r.cid = want.cid)
                 \o Cl("flip-on-output-undone-on-input", (same /\ r.cid = want.cid) => ~ r.flipped)
                 \o Cl("masked-zero-and-dtype", r.extra_ok)
                 \o Cl("read-leaves-files-alone", Proj(fs) = r.files)
    IN /\ IF bad = << >> THEN TRUE ELSE Reject(r, bad, want)
       /\ fs' = IF Proj(fs) = r.files THEN fs ELSE Resync(fs, r.files, flip)
       /\ res' = [a |-> "Read"]
       /\ UNCHANGED << dirs, flip, hdus, hist >>

StepHduOut(r) ==
    /\ hdus' = Append(hdus, [cid |-> r.c, wflip |-> flip])
    /\ res' = [a |-> "HduOut"]
    /\ UNCHANGED << fs, dirs, flip, hist >>

StepHduIn(r) ==
    LET known == r.n \in DOMAIN hdus
        want  == IF known THEN ReadValue(hdus[r.n], flip) ELSE [cid |-> NoFile, flipped |-> FALSE]
        same  == known /\ hdus[r.n].wflip = flip
        bad   == Cl("hdu-returns-written-values", known /\ r.cid = want.cid)
                 \o Cl("hdu-flip-on-output-undone-on-input", (same /\ r.cid = want.cid) => ~ r.flipped)
                 \o Cl("header-round-trips-pixel-scale", r.scale_ok)
                 \o Cl("masked-zero-and-dtype", r.extra_ok)
    IN /\ IF bad = << >> THEN TRUE ELSE Reject(r, bad, want)
       /\ res' = [a |-> "HduIn"]
       /\ UNCHANGED << fs, dirs, flip, hdus, hist >>

StepWriteMulti(r) ==
    LET ok  == r.n1 \in DOMAIN hdus /\ r.n2 \in DOMAIN hdus
        mfs == IF ok THEN [fs EXCEPT ![r.p] = [cid |-> hdus[r.n1].cid, wflip |-> hdus[r.n1].wflip, ext |-> << hdus[r.n2] >>]] ELSE fs
    IN /\ fs' = IF Proj(mfs) = r.files THEN mfs ELSE Resync(fs, r.files, flip)
       /\ dirs' = dirs \cup ToSetOfStrings(r.dirs)
       /\ res' = [a |-> "WriteMulti"]
       /\ UNCHANGED << flip, hdus, hist >>

StepReadHdu(r) ==
    LET known == fs[r.p] # None /\ r.hdu >= 1 /\ r.hdu <= Len(fs[r.p].ext)
        want  == IF known THEN ReadValue(fs[r.p].ext[r.hdu], flip) ELSE [cid |-> NoFile, flipped |-> FALSE]
        same  == known /\ fs[r.p].ext[r.hdu].wflip = flip
        bad   == Cl("hdu-index-selects-the-extension-written-there", known /\ r.cid = want.cid)
                 \o Cl("flip-on-output-undone-on-input", (same /\ r.cid = want.cid) => ~ r.flipped)
                 \o Cl("read-leaves-files-alone", Proj(fs) = r.files)
    IN /\ IF bad = << >> THEN TRUE ELSE Reject(r, bad, want)
       /\ res' = [a |-> "ReadHdu"]
       /\ UNCHANGED << fs, dirs, flip, hdus, hist >>

StepWriteImaging(r) ==
    LET ok  == SeqOk(fs, r.ow)
        mfs == FsAfterSeq(fs, flip, << r.cd, r.ck, r.cn >>, r.ow, 1)
        bad == Cl("imaging-output-fails-iff-a-path-exists-and-no-overwrite", ok = r.ok)
               \o Cl("file-system-after-imaging-output", Proj(mfs) = r.files)
    IN /\ IF bad = << >> THEN TRUE ELSE Reject(r, bad, [ok |-> ok, files |-> Proj(mfs)])
       /\ fs' = IF Proj(mfs) = r.files THEN mfs ELSE Resync(fs, r.files, flip)
       /\ dirs' = dirs \cup ToSetOfStrings(r.dirs)
       /\ res' = [a |-> "WriteImaging", ok |-> r.ok]
       /\ UNCHANGED << flip, hdus, hist >>

StepReadImaging(r) ==
    LET part(nm, got_cid, got_flipped) ==
            LET e == fs[nm] known == e # None want == IF known THEN ReadValue(e, flip) ELSE [cid |-> NoFile, flipped |-> FALSE] IN
            Cl("imaging-" \o nm \o "-returns-written-values", known /\ got_cid = want.cid)
            \o Cl("imaging-" \o nm \o "-flip-undone", (known /\ e.wflip = flip /\ got_cid = want.cid) => ~ got_flipped)
        valid == << fs["img_data"].cid, fs["img_psf"].cid, fs["img_noise"].cid >> \in ImagingTriples
        bad == IF ~ valid THEN << >>     \* the three files do not form a valid dataset: no claim
               ELSE part("img_data", r.data_cid, r.data_flipped) \o part("img_psf", r.psf_cid, r.psf_flipped)
                    \o part("img_noise", r.noise_cid, r.noise_flipped)
    IN /\ IF bad = << >> THEN TRUE ELSE Reject(r, bad, Proj(fs))
       /\ res' = [a |-> "ReadImaging"]
       /\ UNCHANGED << fs, dirs, flip, hdus, hist >>

StepSetFlip(r) ==
    /\ flip' = r.b /\ res' = [a |-> "SetFlip"] /\ UNCHANGED << fs, dirs, hdus, hist >>

StepUnknown(r) ==
    /\ Reject(r, << "unknown-event" >>, << >>)
    /\ UNCHANGED vars

TraceNext ==
    /\ i <= Len(Trace)
    /\ LET r == Trace[i] IN
         CASE r.a = "Start"   -> StepStart(r)
           [] r.a = "Write"   -> StepWrite(r)
           [] r.a = "Read"    -> StepRead(r)
           [] r.a = "HduOut"  -> StepHduOut(r)
           [] r.a = "HduIn"   -> StepHduIn(r)
           [] r.a = "SetFlip" -> StepSetFlip(r)
           [] r.a = "WriteMulti" -> StepWriteMulti(r)
           [] r.a = "ReadHdu" -> StepReadHdu(r)
           [] r.a = "WriteImaging" -> StepWriteImaging(r)
           [] r.a = "ReadImaging" -> StepReadImaging(r)
           [] OTHER           -> StepUnknown(r)
    /\ i' = i + 1

TraceSpec == TraceInit /\ [][TraceNext]_<< vars, i >>
TraceAccepted == TLCGet("stats").diameter - 1 = Len(Trace)
=============================================================================
