------------------------- MODULE Trace_VisNormalEq -------------------------
(***************************************************************************)
(* Validation of recorded executions of the real interferometer inversion  *)
(* code against VisNormalEq.tla (X10).  One record per call / object:      *)
(*   inv      one inversion object (form mapping | w_tilde | factory): its *)
(*            transformed mapping matrix, data vector, curvature matrix,   *)
(*            the curvature matrix re-read at the end of the read history  *)
(*   map      mapped reconstructed data / image, summed and per object, in *)
(*            fixed point together with the reconstruction they belong to  *)
(*   pair     reconstructions / mapped data of the two formalisms          *)
(*   wtilde, preload, compose, expand, wdata, curvpre, mvis, dvec          *)
(*            the utility functions of inversion_interferometer_util       *)
(*   dsw      Interferometer.w_tilde (full table, offset table, dirty      *)
(*            image, noise value)                                          *)
(* Common fields: id, api, h, w, u, org, b (as Trace_Dft), raised, err     *)
(* (exception class), off (a value was not within 1e-9 of the lattice),    *)
(* ret (the call returned a value).  alpha has divided by the known powers *)
(* of two: all numbers are integers.  Verdicts are total.                  *)
(***************************************************************************)
EXTENDS VisNormalEq, IOUtils

Trace == JsonDeserialize(IOEnv.TRACE_FILE)

VARIABLE i

Un(r) == { CellOf(r.u[k], r.w) : k \in DOMAIN r.u }
Org(r) == << r.org[1], r.org[2] >>
Cen(r) == Centres(Un(r), r.h, r.w, Org(r))
Bl(r) == [k \in DOMAIN r.b |-> << r.b[k][1], r.b[k][2] >>]
Sl(r) == SlimSeq(Un(r), r.h, r.w)
NPix(r) == Len(r.u)

Cl(n, ok) == IF ok THEN << >> ELSE << n >>
\* evaluate e ONCE and hand its value to Body (a LET definition is re-evaluated by TLC at every reference)
Let1(e, Body(_)) == CHOOSE y \in {Body(x) : x \in {e}} : TRUE
IsVec(v, n) == Len(v) = n
IsMat(m, rows, cols) == Len(m) = rows /\ \A a \in 1 .. rows : Len(m[a]) = cols
IsGVec(v, n) == Len(v) = n /\ \A k \in 1 .. n : Len(v[k]) = 2
IsGMat(m, rows, cols) == Len(m) = rows /\ \A a \in 1 .. rows : IsGVec(m[a], cols)

\* the call returned normally a value on the lattice
Sound(r) == ~ r.raised /\ r.ret /\ ~ r.off
Pre(r) ==
    Cl("input-on-lattice", OnLattice(Cen(r), Bl(r)))
    \o Cl("no-exception", ~ r.raised)
    \o Cl("documented-value-returned", r.raised \/ r.ret)
    \o Cl("values-on-lattice", r.raised \/ ~ r.ret \/ ~ r.off)

Wts(r) == Weights(r.se, r.emax)
\* weights of a real noise map given as exponents
WReal(r) == [k \in 1 .. Len(r.ser) |-> Pow4(r.emax - r.ser[k])]

RECURSIVE LayoutFrom(_, _)
LayoutFrom(objs, o) == IF o > Len(objs) THEN "" ELSE (IF objs[o].mapper THEN "m" ELSE "f") \o LayoutFrom(objs, o + 1)
Layout(r) == LayoutFrom(r.objs, 1)
NoiseClass(r) == IF EqualNoise(r.se) THEN "noise-re=im" ELSE "noise-re#im"
HasUnreg(r) == \E o \in DOMAIN r.objs : ~ r.objs[o].reg
ObjsOk(r) == /\ Len(r.objs) >= 1
             /\ \A o \in DOMAIN r.objs : Len(r.objs[o].M) = NPix(r) /\ \A p \in 1 .. NPix(r) : Len(r.objs[o].M[p]) = Len(r.objs[o].M[1])

-----------------------------------------------------------------------------
(* inversions *)
DName == "data-vector-is-weighted-re-plus-im-product-in-object-order"
FName == "curvature-matrix-is-weighted-re-plus-im-gram-plus-diagonal-term"
InvWant(r) ==
    LET t == TOf(r.objs, Cen(r), Bl(r))
        wt == Wts(r)
    IN [t |-> t, d |-> DMap(t, r.v, wt), f |-> FMap(t, wt, r.objs)]

Want0(r) == IF ObjsOk(r) THEN LET want == InvWant(r) IN [d |-> want.d, f |-> want.f] ELSE << >>

ClassOk(r) ==
    CASE r.form = "mapping" -> r.cls = "InversionInterferometerMapping"
      [] r.form = "w_tilde" -> r.cls = "InversionInterferometerWTilde"
      [] OTHER -> /\ r.cls \in {"InversionInterferometerMapping", "InversionInterferometerWTilde"}
                  /\ (~ r.usew => r.cls = "InversionInterferometerMapping")

\* what the driver itself fed into a w-tilde inversion (tables built from the specification, dirty image of the donor)
FedOk(r) ==
    (r.form = "w_tilde" /\ r.tables \in {"given", "shared"}) =>
        /\ EqualNoise(r.se)
        /\ r.wgiven = WTable(Sl(r), Bl(r), RealW(Wts(r)))
        /\ r.dirtygiven = Dirty(r.vdonor, Wts(r), Cen(r), Bl(r))

InvValueClauses(r, want) ==
    LET T == Total(r.objs)
        K == Len(r.b)
    IN Cl("class-follows-settings", ClassOk(r))
       \o Cl("transformed-mapping-matrix-is-forward-transform-of-each-column",
             r.t = << >> \/ (IsGMat(r.t, K, T) /\ r.t = want.t))
       \o Cl(DName, IsVec(r.d, T) /\ r.d = want.d)
       \o Cl(FName, IsMat(r.f, T, T) /\ r.f = want.f)
       \o Cl("curvature-matrix-symmetric", IsMat(r.f, T, T) /\ \A a \in 1 .. T : \A c \in 1 .. T : r.f[a][c] = r.f[c][a])
       \o Cl("curvature-matrix-reread-agrees", r.f2 = r.f)
InvClauses(r) ==
    IF ~ ObjsOk(r) THEN << "malformed-record" >>
    ELSE Cl("input-on-lattice", OnLattice(Cen(r), Bl(r)))
         \o Cl("input-fed-by-driver-is-consistent", FedOk(r))
         \o Cl("no-exception", ~ r.raised)
         \o Cl("values-on-lattice", r.raised \/ ~ r.off)
         \o (IF r.raised \/ r.off THEN << >> ELSE Let1(InvWant(r), LAMBDA want : InvValueClauses(r, want)))

\* signature of an inversion record: call site : noise class : object layout (or what went wrong before any value came back)
InvSig(r) ==
    IF ~ ObjsOk(r) THEN "inv:malformed"
    ELSE LET site == r.form \o ":" \o r.route
         IN CASE r.raised -> site \o ":raises-" \o r.err
              [] r.off -> site \o ":off-lattice"
              [] OTHER -> site \o ":" \o NoiseClass(r) \o ":" \o Layout(r)

\* recognised defect forms of the w-tilde class (each a specific documented-vs-code disagreement).  A failed value clause
\* that is EXACTLY explained by such forms is reported under their signatures (one rejection line per form); every other
\* failed clause of the record is reported under the generic signature.
SigDonor == "w_tilde:data_vector:from-the-dirty-image-of-the-w-tilde-object-not-from-own-data"
SigFirst == "w_tilde:data_vector:first-object-only"
SigNoDiag == "w_tilde:curvature_matrix:without-diagonal-term-on-unregularised"
FirstBlockOf(r, d) == Len(r.objs) > 1 /\ r.d = SubSeq(d, 1, Width(r.objs[1]))
DDefects(r, want) ==
    LET own == want.d
        donor == DMap(want.t, r.vdonor, Wts(r))
        shared == r.tables = "shared" /\ r.vdonor # r.v
    IN IF IsVec(r.d, Total(r.objs)) /\ r.d = own THEN << >>
       ELSE IF shared /\ r.d = donor THEN << SigDonor >>
       ELSE IF shared /\ FirstBlockOf(r, donor) /\ ~ FirstBlockOf(r, own) THEN << SigDonor, SigFirst >>
       ELSE IF FirstBlockOf(r, own) THEN << SigFirst >>
       ELSE << >>
FDefects(r, want) ==
    LET T == Total(r.objs)
    IN IF IsMat(r.f, T, T) /\ r.f # want.f /\ HasUnreg(r) /\ r.f = Curvature(want.t, Wts(r)) THEN << SigNoDiag >> ELSE << >>
InvGroupsW(r, f, want) ==
    LET wd == [d |-> want.d, f |-> want.f]
    IN Let1(<< IF \E n \in DOMAIN f : f[n] = DName THEN DDefects(r, want) ELSE << >>,
               IF \E n \in DOMAIN f : f[n] = FName THEN FDefects(r, want) ELSE << >> >>,
            LAMBDA df :
              LET explained == (IF df[1] # << >> THEN {DName} ELSE {}) \cup (IF df[2] # << >> THEN {FName} ELSE {})
                  rest == SelectSeq(f, LAMBDA c : c \notin explained)
              IN [k \in 1 .. Len(df[1]) |-> [clauses |-> << DName >>, sig |-> df[1][k], want |-> wd]]
                 \o [k \in 1 .. Len(df[2]) |-> [clauses |-> << FName >>, sig |-> df[2][k], want |-> wd]]
                 \o (IF rest = << >> THEN << >> ELSE << [clauses |-> rest, sig |-> InvSig(r), want |-> wd] >>))
InvGroups(r, f) ==
    IF r.form = "w_tilde" /\ ObjsOk(r) /\ ~ r.raised /\ ~ r.off
    THEN Let1(InvWant(r), LAMBDA want : InvGroupsW(r, f, want))
    ELSE << [clauses |-> f, sig |-> InvSig(r), want |-> Want0(r)] >>

-----------------------------------------------------------------------------
(* mapped reconstructions in fixed point: s, data, image are round(G x) of the real quantities (the reconstruction in the   *)
(* units of the integer mapping matrices).  |round(G T s) - T round(G s)| <= 1/2 + sum_c |T_kc| / 2 per part.              *)
Bound2(diff, l1) == 2 * XAbs(diff) <= l1 + 2
MapObjOk(r, o) ==
    LET objs == r.objs
        K == Len(r.b)
        W == Width(objs[o])
    IN \A so \in {SliceOf(r.s, objs, o)} : \A to \in {TransformMatrix(objs[o].M, Cen(r), Bl(r))} :
       \A td \in {GMatVec(to, so)} : \A ti \in {MatVec(objs[o].M, so)} :
          /\ IsGVec(r.datao[o], K) /\ IsVec(r.imageo[o], NPix(r))
          /\ \A k \in 1 .. K :
                /\ Bound2(r.datao[o][k][1] - td[k][1], ISum([c \in 1 .. W |-> XAbs(to[k][c][1])]))
                /\ Bound2(r.datao[o][k][2] - td[k][2], ISum([c \in 1 .. W |-> XAbs(to[k][c][2])]))
          /\ \A p \in 1 .. NPix(r) : Bound2(r.imageo[o][p] - ti[p], ISum([c \in 1 .. W |-> XAbs(objs[o].M[p][c])]))
MapClauses(r) ==
    IF ~ ObjsOk(r) THEN << "malformed-record" >>
    ELSE IF r.raised THEN << "no-exception" >>
    ELSE LET L == Len(r.objs)
             K == Len(r.b)
         IN IF ~ (IsVec(r.s, Total(r.objs)) /\ Len(r.datao) = L /\ Len(r.imageo) = L /\ IsGVec(r.data, K) /\ IsVec(r.image, NPix(r)))
            THEN << "documented-shapes" >>
            ELSE Cl("mapped-data-of-each-object-is-T-s", \A o \in 1 .. L : MapObjOk(r, o))
                 \o Cl("mapped-data-is-sum-over-objects",
                       \A o \in 1 .. L : IsGVec(r.datao[o], K)
                       /\ \A k \in 1 .. K : \A part \in 1 .. 2 :
                             2 * XAbs(r.data[k][part] - ISum([q \in 1 .. L |-> r.datao[q][k][part]])) <= L + 2)
                 \o Cl("mapped-image-is-sum-over-objects",
                       \A o \in 1 .. L : IsVec(r.imageo[o], NPix(r))
                       /\ \A p \in 1 .. NPix(r) : 2 * XAbs(r.image[p] - ISum([q \in 1 .. L |-> r.imageo[q][p]])) <= L + 2)
MapSig(r) == IF ObjsOk(r) THEN "mapped:" \o r.form \o (IF r.raised THEN ":raises-" \o r.err ELSE "") \o ":" \o Layout(r) ELSE "mapped:malformed"

\* reconstructions are compared when both formalisms hold the same normal equations (their D and F are judged by the inv records)
PairClauses(r) ==
    IF r.raised THEN << "no-exception" >>
    ELSE IF r.D_m # r.D_w \/ r.F_m # r.F_w THEN << >>
    ELSE Cl("same-reconstruction", Len(r.sig_m) = Len(r.sig_w) /\ \A k \in DOMAIN r.sig_m : XAbs(r.sig_m[k] - r.sig_w[k]) <= r.tol)
         \o Cl("same-mapped-reconstructed-data", Len(r.map_m) = Len(r.map_w) /\ \A k \in DOMAIN r.map_m : XAbs(r.map_m[k] - r.map_w[k]) <= r.tol)
PairSig(r) == "pair:" \o (IF r.raised THEN "raises-" \o r.err \o ":" ELSE "") \o LayoutFrom(r.objs, 1)

-----------------------------------------------------------------------------
(* utility functions and the dataset's tables *)
TabWant(r) ==
    LET sl == Sl(r)
        bs == Bl(r)
        cen == Cen(r)
    IN CASE r.api = "wtilde" -> [out |-> WTable(sl, bs, WReal(r))]
         [] r.api = "preload" -> [out |-> PreTable(r.ys, r.xs, bs, WReal(r))]
         [] r.api = "compose" -> [out |-> WTable(sl, bs, WReal(r))]
         [] r.api = "expand" -> [out |-> Expand(r.pre, sl, r.ys, r.xs)]
         [] r.api = "wdata" -> [out |-> WData(r.vr, WReal(r), cen, bs)]
         [] r.api = "curvpre" -> [out |-> FPre(r.pixw, r.np, r.pre, sl, r.ys, r.xs)]
         [] r.api = "mvis" -> [out |-> GMatVec(r.t, r.s)]
         [] r.api = "dvec" -> [out |-> DataVector(r.t, r.v, Wts(r))]
         [] r.api = "dsw" -> [w |-> WTable(sl, bs, RealW(Wts(r))), dirty |-> Dirty(r.v, Wts(r), cen, bs)]
         [] OTHER -> << >>

ExtOk(r) == << r.ys, r.xs >> = Extent(Un(r))
TableShape(t, r) == IsMat(t, 2 * r.ys, 2 * r.xs)
TabClauses(r) ==
    LET want == TabWant(r)
        P == NPix(r)
    IN Pre(r) \o
       (IF ~ Sound(r) THEN << >>
        ELSE CASE r.api = "wtilde" ->
                    Cl("w-tilde-is-noise-weighted-cosine-of-pixel-offsets", IsMat(r.out, P, P) /\ r.out = want.out)
               [] r.api = "preload" ->
                    Cl("input-extent-is-the-mask-extent", ExtOk(r))
                    \o Cl("offset-table-has-two-entries-per-axis-offset", TableShape(r.out, r))
                    \o Cl("offset-table-expands-to-w-tilde",
                          TableShape(r.out, r) /\ ExtOk(r) /\ Expand(r.out, Sl(r), r.ys, r.xs) = WTable(Sl(r), Bl(r), WReal(r)))
               [] r.api = "compose" ->
                    Cl("preload-expanded-by-w_tilde_via_preload_from-is-w-tilde", IsMat(r.out, P, P) /\ r.out = want.out)
               [] r.api = "expand" ->
                    Cl("input-extent-is-the-mask-extent", ExtOk(r) /\ TableShape(r.pre, r))
                    \o Cl("expansion-reads-the-entry-of-the-pixel-offset", IsMat(r.out, P, P) /\ ExtOk(r) /\ TableShape(r.pre, r) /\ r.out = want.out)
               [] r.api = "wdata" ->
                    Cl("data-term-is-adjoint-of-weighted-real-parts", IsVec(r.out, P) /\ r.out = want.out)
               [] r.api = "curvpre" ->
                    Cl("input-extent-is-the-mask-extent", ExtOk(r) /\ TableShape(r.pre, r) /\ Len(r.pixw) = P)
                    \o Cl("curvature-from-offset-table-is-Mt-W-M",
                          IsMat(r.out, r.np, r.np) /\ ExtOk(r) /\ TableShape(r.pre, r) /\ Len(r.pixw) = P /\ r.out = want.out)
               [] r.api = "mvis" ->
                    Cl("mapped-visibilities-are-T-s", IsGVec(r.out, Len(r.t)) /\ r.out = want.out)
               [] r.api = "dvec" ->
                    Cl("data-vector-is-weighted-re-plus-im-product", IsVec(r.out, Len(r.t[1])) /\ r.out = want.out)
               [] r.api = "dsw" ->
                    Cl("dataset-w-matrix-is-w-tilde-of-the-real-noise", IsMat(r.wm, P, P) /\ r.wm = want.w)
                    \o Cl("dataset-offset-table-expands-to-w-tilde",
                          ExtOk(r) /\ TableShape(r.pre, r) /\ Expand(r.pre, Sl(r), r.ys, r.xs) = want.w)
                    \o Cl("dataset-dirty-image-is-adjoint-of-weighted-visibilities", IsVec(r.dirty, P) /\ r.dirty = want.dirty)
                    \o Cl("dataset-noise-value-is-first-noise-entry", r.nv_ok)
               [] OTHER -> << "unknown-api" >>)
\* the five table functions of the w-tilde formalism; a body that returns nothing or rejects the documented caller's arguments
StubSites == {"util:w_tilde_data_interferometer_from", "util:w_tilde_curvature_interferometer_from",
              "util:w_tilde_curvature_preload_interferometer_from", "util:w_tilde_via_preload_from",
              "util:curvature_matrix_via_w_tilde_curvature_preload_interferometer_from"}
TabSig(r) ==
    IF r.site \in StubSites /\ ((~ r.raised /\ ~ r.ret) \/ (r.raised /\ r.err = "TypeError"))
    THEN "util:w-tilde-table-functions:no-implementation"
    ELSE r.site \o (IF r.raised THEN ":raises-" \o r.err
                    ELSE IF ~ r.ret THEN ":returns-nothing"
                    ELSE IF r.off THEN ":off-lattice" ELSE "")

-----------------------------------------------------------------------------
IsTab(r) == r.api \in {"wtilde", "preload", "compose", "expand", "wdata", "curvpre", "mvis", "dvec", "dsw"}
Clauses(r) ==
    CASE r.api = "inv" -> InvClauses(r)
      [] r.api = "map" -> MapClauses(r)
      [] r.api = "pair" -> PairClauses(r)
      [] IsTab(r) -> TabClauses(r)
      [] OTHER -> << "unknown-api" >>
Sig(r) ==
    CASE r.api = "inv" -> InvSig(r)
      [] r.api = "map" -> MapSig(r)
      [] r.api = "pair" -> PairSig(r)
      [] IsTab(r) -> TabSig(r)
      [] OTHER -> "unknown-api"
Want(r) ==
    CASE r.api = "inv" /\ ObjsOk(r) -> LET want == InvWant(r) IN [d |-> want.d, f |-> want.f]
      [] IsTab(r) /\ r.api \notin {"preload"} -> TabWant(r)
      [] OTHER -> << >>

TraceInit == /\ i = 1
             /\ shape = << 1, 1 >> /\ U = {} /\ org = << 0, 0 >> /\ B = << >>
             /\ phase = "trace" /\ inp = << >> /\ obs = << >>

Groups(r, f) == IF r.api = "inv" THEN InvGroups(r, f) ELSE << [clauses |-> f, sig |-> Sig(r), want |-> Want(r)] >>

\* (bounded quantifiers over singleton sets bind VALUES: every record, its verdict and its rejection lines are computed once)
TraceNext ==
    /\ i <= Len(Trace)
    /\ \A r \in {Trace[i]} : \A f \in {Clauses(r)} :
          IF f = << >> THEN TRUE
          ELSE \A g \in {Groups(r, f)} : \A n \in 1 .. Len(g) :
                  PrintT(ToJson([k |-> "reject", i |-> i, id |-> r.id, clauses |-> g[n].clauses, sig |-> g[n].sig, want |-> g[n].want]))
    /\ i' = i + 1
    /\ UNCHANGED vars

TraceSpec == TraceInit /\ [][TraceNext]_<< vars, i >>
TraceAccepted == TLCGet("stats").diameter - 1 = Len(Trace)
=============================================================================
