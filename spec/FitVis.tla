------------------------------- MODULE FitVis -------------------------------
(***************************************************************************)
(* X04: visibility containers and interferometer fit statistics follow     *)
(* their definitions for every input.                                      *)
(*                                                                         *)
(* Statement modelled.                                                     *)
(*  - A Visibilities / VisibilitiesNoiseMap object built from complex      *)
(*    values or from (real, imag) pairs holds exactly those complex        *)
(*    numbers, in order.  Its summaries (the [K,2] array / grid of         *)
(*    (real, imag) pairs, the real-parts-then-imaginary-parts vector,      *)
(*    amplitudes, phases, (max re, max im), (min re, min im), for a noise  *)
(*    map the 1/sigma^2 weights) are the element-wise real/imag split,     *)
(*    modulus and argument of ITS OWN values - also for an object obtained *)
(*    by arithmetic on another container.                                  *)
(*  - Interferometer fit: residual = data - model (complex); normalized    *)
(*    residual and chi-squared map treat real and imaginary parts          *)
(*    SEPARATELY with the real and imaginary parts of the complex noise    *)
(*    map; chi-squared = sum_k (Re r/Re s)^2 + (Im r/Im s)^2; noise        *)
(*    normalization = sum_k ln(2 pi Re s^2) + ln(2 pi Im s^2); likelihood  *)
(*    = -(chi-squared + normalization)/2; with an inversion evidence =     *)
(*    -(chi-squared + reg + ldc - ldr + normalization)/2 and the figure of *)
(*    merit is the evidence.                                               *)
(*  - Interferometer dataset: keeps data, noise map and baselines as       *)
(*    given; signal-to-noise per part, clipped at zero; the dirty image /  *)
(*    noise map / signal-to-noise map are the adjoint of the Fourier       *)
(*    operator (Dft.tla, C13) applied to the corresponding visibilities.   *)
(*                                                                         *)
(* Exact domain.  A visibility is a Gaussian integer <<re, im>> (Dft.tla). *)
(* A noise value is 2^a + i 2^b with exponents <<a, b>> in -NE..NE.        *)
(* Quantities divided by the noise are carried in units of 2^-NE ("Q"      *)
(* units: x / 2^e = x 2^(NE-e) / 2^NE), their squares in units of 4^-NE.   *)
(* ln(2 pi 4^e) enters through the CONSTANT LogTable (math.log, not the    *)
(* code under test), atan(q/p) on the first octant through AngTable; both  *)
(* are pinned by the ASSUMEs below and used with rounding bounds derived   *)
(* in Trace_FitVis.tla.  Moduli are decided by the exact relation          *)
(* a^2 = re^2 + im^2 on the fixed-point value.                             *)
(*                                                                         *)
(* The module EXTENDS Dft: pixel centres, the quarter-turn lattice, the    *)
(* adjoint operator and its theorems are the ones C13 checks; the machine  *)
(* below reuses Dft's variables (shape, U, org, B describe the real-space  *)
(* mask and the baselines; inp is the dataset; obs what a call returns).   *)
(***************************************************************************)
EXTENDS Dft

CONSTANTS
  NE,         \* noise exponents range over -NE .. NE
  LogTable,   \* e |-> round(LogScale * ln(2 pi 4^e)),  e in -NE .. NE
  LogScale,
  AngTable,   \* AngTable[p][q + 1] = round(AngScale * atan(q/p)),  1 <= p <= AngMax, 0 <= q <= p (a tuple of rows)
  AngScale,
  AngMax,
  PiFix,      \* round(AngScale * pi)
  FullK,      \* every assignment of values is explored for vectors of length <= FullK ...
  MaxK,       \* ... and value patterns for lengths FullK+1 .. MaxK
  VisVals1,   \* real / imaginary parts explored for a single visibility
  VisVals2,   \* ... for vectors of length 2 .. FullK
  NoiseExps,  \* noise exponents explored (subset of -NE .. NE)
  InvTerms    \* set of <<reg4, ldc4, ldr4>>: inversion terms in quarter units explored for the evidence

Ang(p, q) == AngTable[p][q + 1]

\* ---- the tables are what the driver computed with math.log / math.atan; pin them against known digits and against
\* ---- the functional equations of the logarithm and of the arctangent
ASSUME LogScale = 100000 =>
         /\ LogTable[0] \in {183787, 183788}                                      \* ln(2 pi) = 1.8378770664...
         /\ \A e \in (-NE) .. (NE - 1) : LogTable[e + 1] - LogTable[e] \in {138629, 138630}   \* ln 4 = 1.3862943611...
ASSUME AngScale = 100000 =>
         /\ PiFix = 314159
         /\ \A p \in 1 .. AngMax :
              /\ Ang(p, 0) = 0
              /\ Ang(p, p) = 78540                                     \* pi/4 = 0.7853981633...
              /\ \A q \in 0 .. (p - 1) : Ang(p, q) < Ang(p, q + 1)        \* increasing in q/p
              /\ \A q \in 0 .. p : 2 * p <= AngMax => Ang(2 * p, 2 * q) = Ang(p, q)
         /\ (AngMax >= 3 => Ang(2, 1) + Ang(3, 1) - Ang(1, 1) \in -1 .. 1)   \* Euler
         /\ (AngMax >= 7 => 2 * Ang(3, 1) + Ang(7, 1) - Ang(1, 1) \in -2 .. 2)  \* Hutton

VOff == 2000000000   \* alpha sentinel: not on the lattice / not finite / out of range

VAbs(x) == IF x < 0 THEN -x ELSE x
VMax0(x) == IF x < 0 THEN 0 ELSE x
RECURSIVE Pow2(_)
Pow2(n) == IF n <= 0 THEN 1 ELSE 2 * Pow2(n - 1)

-----------------------------------------------------------------------------
(* Layer 1: meaning *)

\* ---- containers: a sequence of Gaussian integers, in the order given -------------------------------------------
GSub(a, b) == << a[1] - b[1], a[2] - b[2] >>
ReParts(v) == [k \in 1 .. Len(v) |-> v[k][1]]
ImParts(v) == [k \in 1 .. Len(v) |-> v[k][2]]
FromComplex(z) == [k \in 1 .. Len(z) |-> << z[k][1], z[k][2] >>]
FromPairs(pairs) == [k \in 1 .. Len(pairs) |-> << pairs[k][1], pairs[k][2] >>]   \* row k = (real, imag) of entry k

InArray(v) == [k \in 1 .. Len(v) |-> << v[k][1], v[k][2] >>]     \* the [K, 2] array: column 1 real, column 2 imaginary
Ordered(v) == ReParts(v) \o ImParts(v)                           \* all real parts, then all imaginary parts
Amp2(v) == [k \in 1 .. Len(v) |-> v[k][1] * v[k][1] + v[k][2] * v[k][2]]
SeqMax(s) == CHOOSE x \in {s[k] : k \in DOMAIN s} : \A k \in DOMAIN s : s[k] <= x
SeqMin(s) == CHOOSE x \in {s[k] : k \in DOMAIN s} : \A k \in DOMAIN s : s[k] >= x
Maxima(v) == << SeqMax(ReParts(v)), SeqMax(ImParts(v)) >>
Minima(v) == << SeqMin(ReParts(v)), SeqMin(ImParts(v)) >>

\* a fixed-point modulus a = round(sc * |z|):  |a^2 - sc^2 |z|^2| = |a - sc|z|| (a + sc|z|) <= a + 1
AmpIsModulus(a, z, sc) ==
    /\ a >= 0 /\ a <= 46000
    /\ VAbs(a * a - sc * sc * (z[1] * z[1] + z[2] * z[2])) <= a + 1

\* twice the argument of x + iy in fixed point (table units), x > 0, y >= 0
ArgQ1Twice(x, y) == IF y <= x THEN 2 * Ang(x, y) ELSE PiFix - 2 * Ang(y, x)
InAngTable(z) == VAbs(z[1]) <= AngMax /\ VAbs(z[2]) <= AngMax
\* the argument is pinned in (-pi, pi] for every non-zero value; -pi and pi are the same angle on the negative real
\* axis; the argument of zero is not defined (any angle of the range is accepted).  Tolerance: t = round(S theta),
\* table entries and PiFix are rounded once each: |2t - want| <= 1 + 2 * (1/2) + 1 = 3 (4 allowed).
RECURSIVE PhaseIsArgument(_, _)
PhaseIsArgument(t, z) ==
    LET x == z[1] y == z[2] IN
    IF t = VOff \/ VAbs(t) > PiFix + 2 THEN FALSE
    ELSE IF x = 0 /\ y = 0 THEN TRUE
    ELSE IF y < 0 THEN PhaseIsArgument(-t, << x, -y >>)
    ELSE IF x > 0 THEN VAbs(2 * t - ArgQ1Twice(x, y)) <= 4
    ELSE IF x = 0 THEN VAbs(2 * t - PiFix) <= 4
    ELSE IF y = 0 THEN VAbs(2 * VAbs(t) - 2 * PiFix) <= 4
    ELSE VAbs(2 * t - (2 * PiFix - ArgQ1Twice(-x, y))) <= 4
\* coarse class of the argument, exact: 0 zero, 1..4 open quadrants (counter-clockwise), 5..8 the half axes +x, +y, -x, -y
PhaseClass(z) ==
    LET x == z[1] y == z[2] IN
    CASE x = 0 /\ y = 0 -> 0
      [] x > 0 /\ y = 0 -> 5 [] x = 0 /\ y > 0 -> 6 [] x < 0 /\ y = 0 -> 7 [] x = 0 /\ y < 0 -> 8
      [] x > 0 /\ y > 0 -> 1 [] x < 0 /\ y > 0 -> 2 [] x < 0 /\ y < 0 -> 3 [] OTHER -> 4

\* ---- arithmetic on containers is element-wise ------------------------------------------------------------------
VNeg(v) == [k \in 1 .. Len(v) |-> GNeg(v[k])]
VScale(c, v) == [k \in 1 .. Len(v) |-> GScale(c, v[k])]
VAdd(v, w) == [k \in 1 .. Len(v) |-> GAdd(v[k], w[k])]
VSub(v, w) == [k \in 1 .. Len(v) |-> GSub(v[k], w[k])]
ArithOps == {"neg", "mul", "rmul", "div", "add", "sub", "rsub"}
\* "div" divides by 1/c (a power of two), "rsub" is other - v
Arith(op, v, c, other) ==
    CASE op = "neg" -> VNeg(v)
      [] op \in {"mul", "rmul", "div"} -> VScale(c, v)
      [] op = "add" -> VAdd(v, other)
      [] op = "sub" -> VSub(v, other)
      [] op = "rsub" -> VSub(other, v)
      [] OTHER -> v

\* ---- the noise map -----------------------------------------------------------------------------------------------
NScale(e) == Pow2(NE - e)                                                  \* 2^NE / sigma
NoiseQ(se) == [k \in 1 .. Len(se) |-> << Pow2(NE + se[k][1]), Pow2(NE + se[k][2]) >>]   \* sigma in Q units
OrdExps(se) == [k \in 1 .. Len(se) |-> se[k][1]] \o [k \in 1 .. Len(se) |-> se[k][2]]
\* weights 1/sigma^2 of the ordered vector, as a RELATION to the object's own values: with the values in Q units and the
\* weights in units of 1 / WeightUnit, weight * value^2 is the same constant for every entry
WeightUnit == Pow4(NE + 2)
WeightConst == Pow4(2 * NE + 2)
WeightsAreInverseSquares(wq, ownq) ==
    LET ov == Ordered(ownq) IN
    /\ Len(wq) = Len(ov)
    /\ \A j \in 1 .. Len(ov) : /\ wq[j] # VOff /\ wq[j] >= 0 /\ wq[j] <= WeightConst /\ VAbs(ov[j]) <= 4 * Pow2(2 * NE)
                               /\ wq[j] * ov[j] * ov[j] = WeightConst

\* ---- the fit: real and imaginary parts separately ------------------------------------------------------------------
Residual(d, m) == VSub(d, m)
NormResQ(r, se) == [k \in 1 .. Len(r) |-> << r[k][1] * NScale(se[k][1]), r[k][2] * NScale(se[k][2]) >>]
Chi2MapQ(r, se) == [k \in 1 .. Len(r) |->
                      LET a == r[k][1] * NScale(se[k][1]) b == r[k][2] * NScale(se[k][2]) IN << a * a, b * b >>]
Chi2Q(r, se) == LET c == TLCEval(Chi2MapQ(r, se)) IN ISum([k \in 1 .. Len(c) |-> c[k][1] + c[k][2]])
Chi2Unit == Pow4(NE)                                                       \* chi-squared = Chi2Q / Chi2Unit
NoiseNormFix(se) == ISum([k \in 1 .. Len(se) |-> LogTable[se[k][1]] + LogTable[se[k][2]]])
SigToNoiseQ(d, se) == [k \in 1 .. Len(d) |-> << VMax0(d[k][1] * NScale(se[k][1])), VMax0(d[k][2] * NScale(se[k][2])) >>]
\* twice the log likelihood / evidence in fixed point (exact given the table): -(chi2 + [reg + ldc - ldr] + normalization)
TwiceLogLFix(r, se) == -(Chi2Q(r, se) * (LogScale \div Chi2Unit) + NoiseNormFix(se))
TwiceEvidenceFix(r, se, t) == TwiceLogLFix(r, se) - (t[1] + t[2] - t[3]) * (LogScale \div 4)

\* everything a fit reports, from the definitions
FitEval(d, m, se) ==
    LET r == TLCEval(Residual(d, m)) IN
    [res |-> r, nresq |-> NormResQ(r, se), chi2mapq |-> Chi2MapQ(r, se), chi2q |-> Chi2Q(r, se),
     nn |-> NoiseNormFix(se), snq |-> SigToNoiseQ(d, se), ll2 |-> TwiceLogLFix(r, se)]

-----------------------------------------------------------------------------
(* Second formulation, structured like the code.                            *)
(* (a) chi-squared and normalization as the code computes them: a complex    *)
(*     "packed" map whose real parts and imaginary parts are summed          *)
(*     separately and then added.                                            *)
(* (b) the ordered real vectors (all real parts, then all imaginary parts)   *)
(*     with the weight list 1/sigma^2 that the linear-operator inversion     *)
(*     works on: the complex fit is the real fit (C08 definitions) of the    *)
(*     ordered vectors.                                                      *)
PackedEval(d, m, se) ==
    LET r == TLCEval(Residual(d, m))
        c == TLCEval(Chi2MapQ(r, se))
    IN [chi2q |-> ISum(ReParts(c)) + ISum(ImParts(c)),
        nn |-> ISum([k \in 1 .. Len(se) |-> LogTable[se[k][1]]]) + ISum([k \in 1 .. Len(se) |-> LogTable[se[k][2]]])]
OrderedEval(d, m, se) ==
    LET od == TLCEval(Ordered(d))
        om == TLCEval(Ordered(m))
        oe == TLCEval(OrdExps(se))
    IN [res |-> [j \in 1 .. Len(od) |-> od[j] - om[j]],
        chi2q |-> ISum([j \in 1 .. Len(od) |-> Pow4(NE - oe[j]) * (od[j] - om[j]) * (od[j] - om[j])]),
        nn |-> ISum([j \in 1 .. Len(oe) |-> LogTable[oe[j]]])]

\* ---- dirty images: the adjoint of C13 applied to visibilities ------------------------------------------------------
DirtyOf(V, C, Bl) == Adjoint(V, C, Bl)

-----------------------------------------------------------------------------
(* The bounded families *)

Gauss(S) == S \X S
PatVecs(K) ==
    {[k \in 1 .. K |-> << ((3 * k) % 7) - 3, ((5 * k + 1) % 7) - 3 >>],
     [k \in 1 .. K |-> << IF k % 2 = 0 THEN 0 ELSE -k, k - 2 >>],
     [k \in 1 .. K |-> IF k = K THEN << -3, 4 >> ELSE GZero]}
VecFamily(K) == IF K = 1 THEN [1 .. 1 -> Gauss(VisVals1)] ELSE IF K <= FullK THEN [1 .. K -> Gauss(VisVals2)] ELSE PatVecs(K)
ExpMin == CHOOSE x \in NoiseExps : \A y \in NoiseExps : x <= y
ExpMax == CHOOSE x \in NoiseExps : \A y \in NoiseExps : x >= y
ExpSeq == LET n == Cardinality(NoiseExps)
              f[j \in 0 .. n] == IF j = 0 THEN << >>
                                 ELSE LET prev == {f[j - 1][q] : q \in 1 .. (j - 1)}
                                          nxt == CHOOSE x \in NoiseExps \ prev : \A y \in NoiseExps \ prev : x <= y
                                      IN Append(f[j - 1], nxt)
          IN f[n]
NoisePats(K) ==
    {[k \in 1 .. K |-> << ExpMin, ExpMax >>],                 \* real part quiet, imaginary part loud, everywhere
     [k \in 1 .. K |-> << ExpSeq[1 + (k % Len(ExpSeq))], ExpSeq[1 + ((k + 1) % Len(ExpSeq))] >>],
     [k \in 1 .. K |-> IF k % 2 = 1 THEN << ExpMax, ExpMin >> ELSE << 0, 0 >>]}
NoiseFamilyX(K) == IF K = 1 THEN [1 .. 1 -> Gauss(NoiseExps)] ELSE NoisePats(K)

Models(d) ==
    LET K == Len(d) IN
    (IF K = 1 THEN [1 .. 1 -> Gauss(VisVals1)] ELSE {})
    \cup {d, [k \in 1 .. K |-> GZero], VNeg(d),
          [k \in 1 .. K |-> << d[k][1] - 1, d[k][2] + 2 >>],
          [k \in 1 .. K |-> << IF k % 2 = 1 THEN d[k][1] ELSE 2 - k, (k % 3) - 1 >>]}
Others(v) == {[k \in 1 .. Len(v) |-> << (k % 3) - 1, 2 - k >>], v}
Scalars(v) == {[k \in 1 .. Len(v) |-> << 1, -2 >>], [k \in 1 .. Len(v) |-> GZero]}
Forms == {"complex", "complex-list", "pairs", "pairs-list"}
Classes == {"data", "noise"}

-----------------------------------------------------------------------------
(* Layer 2: the bounded machine.  XInit chooses a dataset: visibilities,     *)
(* a complex noise map, and (for the dirty-image part) a real-space mask      *)
(* with baselines on the quarter-turn lattice.  Every public call is one      *)
(* atomic step.                                                              *)

ZeroBaselines(K) == [k \in 1 .. K |-> << 0, 0 >>]

XInit ==
    /\ \E kind \in {"vis", "dirty"} :
         IF kind = "vis"
         THEN /\ shape = << 1, 1 >> /\ U = {<< 0, 0 >>} /\ org = << 0, 0 >>
              /\ \E K \in 1 .. MaxK :
                   /\ B = ZeroBaselines(K)
                   /\ inp \in [kind : {"vis"}, d : VecFamily(K), se : NoiseFamilyX(K)]
         ELSE /\ shape \in Shapes
              /\ U \in MaskFamily(shape[1], shape[2])
              /\ org \in Origins
              /\ B \in {b \in BaselineSeqs : OnLattice(Centres(U, shape[1], shape[2], org), b)}
              /\ inp \in [kind : {"dirty"}, d : VisFamily(Len(B)) \cup PatVecs(Len(B)), se : NoisePats(Len(B))]
    /\ phase = "built"
    /\ obs = << >>

XDump(act, arg) ==
    LET s == SlimSeq(U, HH, WW)
    IN PrintT(ToJson([k |-> "inst", act |-> act, h |-> HH, w |-> WW,
                      u |-> [q \in 1 .. Len(s) |-> Lin(s[q], WW)],
                      org |-> org, b |-> B, kind |-> inp.kind, d |-> inp.d, se |-> inp.se, arg |-> arg]))

Summaries(v) == [vals |-> v, inarray |-> InArray(v), ordered |-> Ordered(v), amp2 |-> Amp2(v),
                 cls |-> [k \in 1 .. Len(v) |-> PhaseClass(v[k])], maxima |-> Maxima(v), minima |-> Minima(v)]

Construct ==
    /\ phase = "built" /\ inp.kind = "vis"
    /\ \E c \in Classes : \E f \in Forms :
         LET given == IF c = "data" THEN inp.d ELSE NoiseQ(inp.se) IN
         /\ obs' = [given |-> given, c |-> c, form |-> f, own |-> Summaries(IF f \in {"pairs", "pairs-list"} THEN FromPairs(InArray(given)) ELSE FromComplex(given))]
         /\ XDump("construct", [cls |-> c, form |-> f])
    /\ phase' = "construct"
    /\ UNCHANGED << shape, U, org, B, inp >>

Derive ==
    /\ phase = "built" /\ inp.kind = "vis"
    /\ \E c \in Classes : \E op \in ArithOps : \E mult \in {2, -1, 0} : \E other \in Others(inp.d) \cup Scalars(inp.d) :
         LET v == IF c = "data" THEN inp.d ELSE NoiseQ(inp.se) IN
         /\ (op \in {"mul", "rmul"} \/ mult = 2) = TRUE                         \* the multiplier only matters for mul / rmul
         /\ (IF op \in {"add", "sub"} THEN other \in Others(inp.d)            \* a second container / array for add and sub,
             ELSE IF op = "rsub" THEN other \in Scalars(inp.d)                 \* a scalar (constant vector) on the left of rsub,
             ELSE other = inp.d) = TRUE                                        \* nothing otherwise
         /\ (c = "data" \/ (op \in {"neg", "mul", "rmul", "div"} /\ mult # 0)) = TRUE    \* a noise map stays a noise map
         /\ obs' = [parent |-> Summaries(v), op |-> op, mult |-> mult, other |-> other, c |-> c,
                    own |-> Summaries(Arith(op, v, mult, other))]
         /\ XDump("derive", [cls |-> c, op |-> op, mult |-> mult, other |-> other])
    /\ phase' = "derive"
    /\ UNCHANGED << shape, U, org, B, inp >>

Dataset ==
    /\ phase = "built"
    /\ LET c == CC
           sn == TLCEval(SigToNoiseQ(inp.d, inp.se))
       IN obs' = [kept |-> [d |-> inp.d, nq |-> NoiseQ(inp.se), b |-> B], snq |-> sn,
                  dirty |-> DirtyOf(inp.d, c, B), dirtynoise |-> DirtyOf(NoiseQ(inp.se), c, B), dirtysn |-> DirtyOf(sn, c, B)]
    /\ XDump("dataset", [none |-> 0])
    /\ phase' = "dataset"
    /\ UNCHANGED << shape, U, org, B, inp >>

FitStep ==
    /\ phase = "built"
    /\ \E m \in Models(inp.d) : \E t \in InvTerms \cup {<< >>} :
         LET f == FitEval(inp.d, m, inp.se)
             c == CC
         IN /\ (t = << >> \/ m \in {inp.d, VNeg(inp.d)}) = TRUE               \* inversion terms on two models per dataset
            /\ obs' = [m |-> m, fit |-> f, packed |-> PackedEval(inp.d, m, inp.se), ordered |-> OrderedEval(inp.d, m, inp.se),
                       hasinv |-> t # << >>, terms |-> t,
                       fom2 |-> IF t = << >> THEN f.ll2 ELSE TwiceEvidenceFix(f.res, inp.se, t),
                       dirtymodel |-> DirtyOf(m, c, B), dirtyres |-> DirtyOf(f.res, c, B),
                       dirtynres |-> DirtyOf(f.nresq, c, B), dirtychi2 |-> DirtyOf(f.chi2mapq, c, B)]
            /\ XDump("fit", [m |-> m, hasinv |-> t # << >>, terms |-> t])
    /\ phase' = "fit"
    /\ UNCHANGED << shape, U, org, B, inp >>

XNext == Construct \/ Derive \/ Dataset \/ FitStep
XSpec == XInit /\ [][XNext]_vars

-----------------------------------------------------------------------------
(* Layer 3: design-level theorems, checked by TLC on every state             *)
(* (InstancesOnLattice, PhaseIsPowerOfMinusI and AdjointOnBasisPairs of Dft  *)
(* are checked on the same machine: the dirty images are images of the       *)
(* operator C13 is about).                                                   *)

KD == Len(inp.d)

\* a container holds the given numbers in the given order whatever the input form; the pair array round-trips
ContainerHoldsGivenValues ==
    phase = "construct" =>
        /\ obs.own.vals = obs.given
        /\ FromPairs(obs.own.inarray) = obs.given
        /\ Len(obs.own.ordered) = 2 * KD
        /\ \A k \in 1 .. KD : obs.own.ordered[k] = obs.given[k][1] /\ obs.own.ordered[KD + k] = obs.given[k][2]
        /\ \A k \in 1 .. KD : obs.own.amp2[k] >= 0 /\ (obs.own.amp2[k] = 0 <=> obs.given[k] = GZero)
        /\ \A k \in 1 .. KD : obs.own.minima[1] <= obs.given[k][1] /\ obs.given[k][1] <= obs.own.maxima[1]
                              /\ obs.own.minima[2] <= obs.given[k][2] /\ obs.given[k][2] <= obs.own.maxima[2]

\* the summaries of a derived object are functions of its own values: the real/imag split is linear, the modulus is
\* even and homogeneous, negation turns the argument by a half turn and swaps maxima with minima
SummariesOfDerivedAreItsOwn ==
    phase = "derive" =>
        LET p == obs.parent o == obs.own IN
        /\ o = Summaries(o.vals)
        /\ (obs.op = "neg" => /\ o.amp2 = p.amp2
                              /\ o.maxima = << -p.minima[1], -p.minima[2] >>
                              /\ \A k \in 1 .. KD : (p.cls[k] \in 1 .. 4 => o.cls[k] = 1 + ((p.cls[k] + 1) % 4))
                                                    /\ (p.cls[k] \in 5 .. 8 => o.cls[k] = 5 + ((p.cls[k] - 3) % 4))
                                                    /\ (p.cls[k] = 0 => o.cls[k] = 0))
        /\ (obs.op \in {"mul", "rmul", "div"} =>
               /\ o.amp2 = [k \in 1 .. KD |-> obs.mult * obs.mult * p.amp2[k]]
               /\ o.ordered = [j \in 1 .. 2 * KD |-> obs.mult * p.ordered[j]]
               /\ (obs.mult > 0 => o.cls = p.cls))
        /\ (obs.op = "add" => o.ordered = [j \in 1 .. 2 * KD |-> p.ordered[j] + Ordered(obs.other)[j]])
        /\ (obs.op = "sub" => o.ordered = [j \in 1 .. 2 * KD |-> p.ordered[j] - Ordered(obs.other)[j]])
        /\ (obs.op = "rsub" => o.ordered = [j \in 1 .. 2 * KD |-> Ordered(obs.other)[j] - p.ordered[j]])

\* residual + model = data; the maps are per part; chi-squared vanishes exactly when the model equals the data
FitDefinitions ==
    phase = "fit" =>
        LET f == obs.fit IN
        /\ VAdd(f.res, obs.m) = inp.d
        /\ \A k \in 1 .. KD : /\ f.chi2mapq[k] = << f.nresq[k][1] * f.nresq[k][1], f.nresq[k][2] * f.nresq[k][2] >>
                              /\ f.nresq[k][1] = f.res[k][1] * NScale(inp.se[k][1])
                              /\ f.nresq[k][2] = f.res[k][2] * NScale(inp.se[k][2])
                              /\ f.snq[k][1] >= 0 /\ f.snq[k][2] >= 0
                              /\ (f.snq[k][1] > 0 <=> inp.d[k][1] > 0) /\ (f.snq[k][2] > 0 <=> inp.d[k][2] > 0)
        /\ f.chi2q >= 0 /\ (f.chi2q = 0 <=> obs.m = inp.d)
\* the packed-complex evaluation of the code and the ordered real vectors with the weight list give the same numbers
\* as the definitions: the complex fit is the real fit of the ordered vectors
PackedAndOrderedFormsEqualDefinition ==
    phase = "fit" =>
        /\ obs.packed.chi2q = obs.fit.chi2q /\ obs.packed.nn = obs.fit.nn
        /\ obs.ordered.chi2q = obs.fit.chi2q /\ obs.ordered.nn = obs.fit.nn
        /\ obs.ordered.res = Ordered(obs.fit.res)
\* the real part of the noise never touches an imaginary part and vice versa: exchanging the two noise parts together
\* with the two parts of data and model leaves chi-squared and normalization unchanged
Swap(v) == [k \in 1 .. Len(v) |-> << v[k][2], v[k][1] >>]
PartsAreSeparate ==
    phase = "fit" =>
        /\ Chi2Q(Residual(Swap(inp.d), Swap(obs.m)), Swap(inp.se)) = obs.fit.chi2q
        /\ NoiseNormFix(Swap(inp.se)) = obs.fit.nn
        /\ Chi2MapQ(Residual(Swap(inp.d), Swap(obs.m)), Swap(inp.se)) = Swap(obs.fit.chi2mapq)
\* doubling data, model and noise leaves chi-squared unchanged and adds 2 K ln 4 to the normalization
HomogeneityVis ==
    (phase = "fit" /\ \A k \in 1 .. KD : inp.se[k][1] < NE /\ inp.se[k][2] < NE) =>
        LET se2 == [k \in 1 .. KD |-> << inp.se[k][1] + 1, inp.se[k][2] + 1 >>]
        IN /\ Chi2Q(Residual(VScale(2, inp.d), VScale(2, obs.m)), se2) = obs.fit.chi2q
           /\ VAbs(NoiseNormFix(se2) - obs.fit.nn - 2 * KD * (LogTable[1] - LogTable[0])) <= 2 * KD
\* figure of merit: likelihood without an inversion, evidence (likelihood minus half the three inversion terms) with one
FigureOfMeritChoiceVis ==
    phase = "fit" =>
        /\ (~ obs.hasinv => obs.fom2 = obs.fit.ll2)
        /\ (obs.hasinv => obs.fom2 = obs.fit.ll2 - (obs.terms[1] + obs.terms[2] - obs.terms[3]) * (LogScale \div 4))
        /\ obs.fit.ll2 = -(obs.fit.chi2q * (LogScale \div Chi2Unit) + obs.fit.nn)
\* the adjoint is linear: the dirty residual map is the dirty image minus the dirty model image
DirtyMapsAreLinear ==
    phase = "fit" =>
        LET c == CC IN
        \A p \in 1 .. Len(c) : obs.dirtyres[p] = DirtyOf(inp.d, c, B)[p] - obs.dirtymodel[p]
\* the dataset keeps what it was given; its signal-to-noise is per part and clipped; a zero baseline sums real parts
DatasetKeepsItsInputs ==
    phase = "dataset" =>
        /\ obs.kept.d = inp.d /\ obs.kept.b = B
        /\ \A k \in 1 .. KD : obs.kept.nq[k] = << Pow2(NE + inp.se[k][1]), Pow2(NE + inp.se[k][2]) >>
        /\ \A k \in 1 .. KD : obs.snq[k] = << VMax0(inp.d[k][1]) * NScale(inp.se[k][1]), VMax0(inp.d[k][2]) * NScale(inp.se[k][2]) >>
        /\ ((\A k \in 1 .. KD : B[k] = << 0, 0 >>) =>
               \A p \in 1 .. PP : obs.dirty[p] = ISum(ReParts(inp.d)) /\ obs.dirtysn[p] = ISum(ReParts(obs.snq)))
=============================================================================
