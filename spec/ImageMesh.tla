----------------------------- MODULE ImageMesh -----------------------------
(***************************************************************************)
(* X14: image-plane meshes of PyAutoArray (image_mesh.Overlay / Hilbert /  *)
(* KMeans and their helpers) place their points where the documentation    *)
(* says, and the bookkeeping between image pixels and mesh points is       *)
(* consistent.                                                             *)
(*                                                                         *)
(* Geometry: the half-tick lattice of Geometry.tla (C02): a geometry is    *)
(* g = [h, w, sy, sx, oy, ox], all integers in half-ticks u, pixel scales  *)
(* even (so pixel centres AND pixel boundaries are integers).  A point is  *)
(* a pair P = <<Y, X>> together with a pair of denominators d = <<dy,dx>>: *)
(* its real position is (Y/dy, X/dx) half-ticks.  The points of an         *)
(* S0 x S1 overlay are rational positions inside the bounding box; with    *)
(* d = <<S0, S1>> they are integers ("the lattice scaled by the overlay    *)
(* shape").                                                                *)
(*                                                                         *)
(* Layer 1 (meaning) is written from the docstrings: the overlay tiles the *)
(* bounding box of the unmasked pixels with S0 x S1 equal cells and keeps, *)
(* in row-major order, the cell centres whose containing IMAGE pixel is    *)
(* unmasked; the index maps of the helper functions; the per-pixel counts  *)
(* and the two threshold checks; the generalised Hilbert curve; the        *)
(* inverse-transform sampling.  Each has a second, code-shaped formulation *)
(* (loops as folds, int() truncation, centre based overlay) and design     *)
(* theorems say that both agree.                                           *)
(* Layer 2: three bounded machines: Spec (every mask of small frames x     *)
(* overlay shapes, one action per helper call), GSpec (Hilbert curves of   *)
(* small rectangles), HSpec (call histories on one cached curve).          *)
(* Layer 3: the design theorems checked by TLC.                            *)
(***************************************************************************)
EXTENDS Integers, Sequences, FiniteSets, TLC, Json, SequencesExt, FiniteSetsExt

CONSTANTS Shapes,        \* set of <<H,W>>: frames of the overlay machine (every non-empty mask of each)
          OvShapes,      \* set of <<S0,S1>>: overlay shapes
          GilbertSizes,  \* set of <<w,h>> for the curve machine
          HistArgs,      \* set of records [id, key, org]: arguments of the history machine
          HistDepth,     \* length of the dumped call histories
          AliasedCache   \* BOOLEAN: the cached curve is shifted in place (a once-seeded design: must violate HistoryFree)

-----------------------------------------------------------------------------
(* Layer 1: meaning *)

Abs(x) == IF x < 0 THEN -x ELSE x
Sgn(x) == IF x < 0 THEN -1 ELSE IF x > 0 THEN 1 ELSE 0
FloorDiv(a, b) == a \div b                                       \* b > 0; TLA+'s \div rounds towards minus infinity
TruncDiv(a, b) == IF a >= 0 THEN a \div b ELSE -((-a) \div b)     \* Python's int(): towards zero
MinOf(a, b) == IF a < b THEN a ELSE b

Geo(h, w, sy, sx, oy, ox) == [h |-> h, w |-> w, sy |-> sy, sx |-> sx, oy |-> oy, ox |-> ox]
GeoOK(g) == g.h >= 1 /\ g.w >= 1 /\ g.sy > 0 /\ g.sx > 0 /\ g.sy % 2 = 0 /\ g.sx % 2 = 0

Cells(h, w) == (0 .. h-1) \X (0 .. w-1)
Lin(c, w) == c[1] * w + c[2]
CellOf(k, w) == << k \div w, k % w >>
RowMajor(h, w) == [k \in 1 .. h*w |-> CellOf(k-1, w)]
SlimSeq(U, h, w) == SelectSeq(RowMajor(h, w), LAMBDA c : c \in U)

CentreY(g, i) == g.oy + (g.h - 1 - 2*i) * (g.sy \div 2)
CentreX(g, j) == g.ox + (2*j - g.w + 1) * (g.sx \div 2)
Top(g)    == g.oy + g.h * (g.sy \div 2)
Bottom(g) == g.oy - g.h * (g.sy \div 2)
Left(g)   == g.ox - g.w * (g.sx \div 2)
Right(g)  == g.ox + g.w * (g.sx \div 2)

\* ---- the image pixel containing a point (Y/dy, X/dx) ----
\* meaning: row i contains the point iff the point is strictly between the row's two boundaries
RowHolds(g, i, Y, dy) == dy * (CentreY(g, i) - g.sy \div 2) < Y /\ Y < dy * (CentreY(g, i) + g.sy \div 2)
ColHolds(g, j, X, dx) == dx * (CentreX(g, j) - g.sx \div 2) < X /\ X < dx * (CentreX(g, j) + g.sx \div 2)
\* rows whose CLOSED interval contains the point (two of them on an inner boundary)
RowTouches(g, i, Y, dy) == dy * (CentreY(g, i) - g.sy \div 2) <= Y /\ Y <= dy * (CentreY(g, i) + g.sy \div 2)
ColTouches(g, j, X, dx) == dx * (CentreX(g, j) - g.sx \div 2) <= X /\ X <= dx * (CentreX(g, j) + g.sx \div 2)
RowsHolding(g, Y, dy)  == { i \in 0 .. g.h-1 : RowHolds(g, i, Y, dy) }
ColsHolding(g, X, dx)  == { j \in 0 .. g.w-1 : ColHolds(g, j, X, dx) }
RowsTouching(g, Y, dy) == { i \in 0 .. g.h-1 : RowTouches(g, i, Y, dy) }
ColsTouching(g, X, dx) == { j \in 0 .. g.w-1 : ColTouches(g, j, X, dx) }
\* the point is strictly inside one pixel of the frame
Interior(g, P, d) == RowsHolding(g, P[1], d[1]) # {} /\ ColsHolding(g, P[2], d[2]) # {}
PixelsTouching(g, P, d) == RowsTouching(g, P[1], d[1]) \X ColsTouching(g, P[2], d[2])
\* closed form, valid for interior points
IndexOf(g, P, d) == << FloorDiv(d[1] * Top(g) - P[1], d[1] * g.sy), FloorDiv(P[2] - d[2] * Left(g), d[2] * g.sx) >>
\* code-shaped: int(-y/sy + (H-1)/2 + oy/sy + 0.5), int(x/sx + (W-1)/2 - ox/sx + 0.5)
CodeIndexOf(g, P, d) == << TruncDiv(2 * (d[1] * g.oy - P[1]) + d[1] * g.h * g.sy, 2 * d[1] * g.sy),
                           TruncDiv(2 * (P[2] - d[2] * g.ox) + d[2] * g.w * g.sx, 2 * d[2] * g.sx) >>

\* ---- the overlay ----
URows(U) == { c[1] : c \in U }
UCols(U) == { c[2] : c \in U }
I0(U) == Min(URows(U))
I1(U) == Max(URows(U))
J0(U) == Min(UCols(U))
J1(U) == Max(UCols(U))
NR(U) == I1(U) - I0(U) + 1
NC(U) == J1(U) - J0(U) + 1
\* the bounding box of the unmasked pixel SQUARES (pixel edges, no buffer)
BoxTop(g, U)  == CentreY(g, I0(U)) + g.sy \div 2
BoxLeft(g, U) == CentreX(g, J0(U)) - g.sx \div 2
\* S0 x S1 equal cells tile the box; cell (a,b) counted from the top-left; the overlay point is the cell centre,
\* (2a+1)/(2 S0) of the box height below its top edge.  Scaled by the overlay shape:
OvY(g, U, S0, a) == S0 * BoxTop(g, U)  - (2*a + 1) * NR(U) * (g.sy \div 2)
OvX(g, U, S1, b) == S1 * BoxLeft(g, U) + (2*b + 1) * NC(U) * (g.sx \div 2)
OvPoint(g, U, S, k) == << OvY(g, U, S[1], k \div S[2]), OvX(g, U, S[2], k % S[2]) >>
OvPoints(g, U, S) == [k \in 1 .. S[1] * S[2] |-> OvPoint(g, U, S, k-1)]
\* code-shaped: a uniform S0 x S1 grid of pixel scale (extent of the centres + one pixel)/S about the mask centre
MaskCentreY(g, U) == g.oy + (g.h - 1 - I0(U) - I1(U)) * (g.sy \div 2)
MaskCentreX(g, U) == g.ox + (J0(U) + J1(U) - g.w + 1) * (g.sx \div 2)
CodeOvY(g, U, S0, a) == S0 * MaskCentreY(g, U) + (S0 - 1 - 2*a) * NR(U) * (g.sy \div 2)
CodeOvX(g, U, S1, b) == S1 * MaskCentreX(g, U) + (2*b - S1 + 1) * NC(U) * (g.sx \div 2)

\* the image row of overlay row a, without any geometry: (2a+1) NR / (2 S0) rows below the top of the box
RowTie(U, S0, a) == ((2*a + 1) * NR(U)) % (2 * S0) = 0       \* exactly on the boundary between two image rows
ColTie(U, S1, b) == ((2*b + 1) * NC(U)) % (2 * S1) = 0
OvRow(U, S0, a) == I0(U) + ((2*a + 1) * NR(U)) \div (2 * S0)   \* on a tie: the row BELOW the boundary
OvCol(U, S1, b) == J0(U) + ((2*b + 1) * NC(U)) \div (2 * S1)   \* on a tie: the column RIGHT of the boundary
NoTie(U, S) == (\A a \in 0 .. S[1]-1 : ~ RowTie(U, S[1], a)) /\ (\A b \in 0 .. S[2]-1 : ~ ColTie(U, S[2], b))
RowCands(U, S0, a) == IF RowTie(U, S0, a) THEN {OvRow(U, S0, a) - 1, OvRow(U, S0, a)} ELSE {OvRow(U, S0, a)}
ColCands(U, S1, b) == IF ColTie(U, S1, b) THEN {OvCol(U, S1, b) - 1, OvCol(U, S1, b)} ELSE {OvCol(U, S1, b)}
OvCands(U, S, k) == RowCands(U, S[1], k \div S[2]) \X ColCands(U, S[2], k % S[2])
OvCentre(U, S, k) == << OvRow(U, S[1], k \div S[2]), OvCol(U, S[2], k % S[2]) >>
OvCentres(U, S) == [k \in 1 .. S[1] * S[2] |-> OvCentre(U, S, k-1)]
\* overlay points (0-based, row-major) that MUST be kept (every pixel they touch is unmasked) / MAY be kept
OvMust(U, S) == { k \in 0 .. S[1]*S[2] - 1 : OvCands(U, S, k) \subseteq U }
OvMay(U, S)  == { k \in 0 .. S[1]*S[2] - 1 : OvCands(U, S, k) \cap U # {} }

\* ---- the documented index maps; cen = the image pixel <<i,j>> of every overlay point, in overlay order ----
Idx0(n) == [k \in 1 .. n |-> k - 1]
KeptIdx(cen, U) == SelectSeq(Idx0(Len(cen)), LAMBDA k : cen[k+1] \in U)     \* kept index r (0-based) -> overlay point
KeptBefore(cen, U, k) == Cardinality({ m \in 1 .. k : cen[m] \in U })         \* kept points among the first k
\* overlay point -> kept index: its own for a kept point, the NEXT kept point's for a discarded one, the last one's after the end
MaskForOverlay(cen, U) ==
    LET t == KeptBefore(cen, U, Len(cen))
    IN [k \in 1 .. Len(cen) |-> IF t = 0 THEN 0 ELSE MinOf(KeptBefore(cen, U, k-1), t - 1)]
\* the same three results the way the code computes them (one pass with a running kept index)
CodeTotal(cen, U) == FoldLeft(LAMBDA acc, c : IF c \in U THEN acc + 1 ELSE acc, 0, cen)
CodeOverlayForMask(cen, U) ==
    FoldLeft(LAMBDA acc, k : IF cen[k+1] \in U THEN Append(acc, k) ELSE acc, << >>, Idx0(Len(cen)))
CodeMaskForOverlay(cen, U, t) ==
    FoldLeft(LAMBDA acc, c : [out |-> Append(acc.out, acc.p),
                              p |-> IF c \in U /\ acc.p < t - 1 THEN acc.p + 1 ELSE acc.p],
             [out |-> << >>, p |-> 0], cen).out

\* ---- mesh points per image pixel and the two threshold checks ----
PointsIn(g, pts, d, c) ==
    Cardinality({ k \in DOMAIN pts : RowHolds(g, c[1], pts[k][1], d[1]) /\ ColHolds(g, c[2], pts[k][2], d[2]) })
CountsNative(g, U, pts, d) ==
    [k \in 1 .. g.h * g.w |-> IF CellOf(k-1, g.w) \in U THEN PointsIn(g, pts, d, CellOf(k-1, g.w)) ELSE 0]
PointsInMasked(g, U, pts, d) ==
    Cardinality({ k \in DOMAIN pts : \E c \in Cells(g.h, g.w) \ U :
                      RowHolds(g, c[1], pts[k][1], d[1]) /\ ColHolds(g, c[2], pts[k][2], d[2]) })
\* code-shaped: pixel of every point through the index formula, one increment per point
CodeCountsAll(g, pts, d) ==
    FoldLeft(LAMBDA acc, p : [acc EXCEPT ![Lin(CodeIndexOf(g, p, d), g.w) + 1] = @ + 1], [k \in 1 .. g.h * g.w |-> 0], pts)
SumSeq(s) == FoldLeft(LAMBDA acc, v : acc + v, 0, s)
\* "the number of mesh pixels in the N data pixels with the largest number of mesh pixels ... the lowest value of those":
\* the m-th largest entry of the counts over the unmasked pixels, m = min(N, number of pixels)
LowestOfTop(cs, N) ==
    LET m == MinOf(N, Len(cs))
    IN CHOOSE v \in ToSet(cs) : /\ Cardinality({ k \in DOMAIN cs : cs[k] > v }) < m
                                /\ Cardinality({ k \in DOMAIN cs : cs[k] >= v }) >= m
\* "... if the value is below settings.image_mesh_min_mesh_pixels_per_pixel (= tn/td) raise"
MinPerPixelRaises(cs, N, tn, td) == LowestOfTop(cs, N) * td < tn
\* "the background = the N pixels of adapt_data with the lowest values, N = the fraction cn/cd of the pixels"
Background(ad, nb) == { k \in DOMAIN ad : Cardinality({ m \in DOMAIN ad : ad[m] < ad[k] }) < nb }
\* "... raise if the mesh pixels in the background are below (number of mesh pixels) x threshold (= tn/td)"
BackgroundRaises(cs, ad, npts, cn, cd, tn, td) ==
    LET bg == Background(ad, (Len(ad) * cn) \div cd)
        s  == SumSeq([k \in 1 .. Len(cs) |-> IF k \in bg THEN cs[k] ELSE 0])
    IN s * td < npts * tn

\* ---- weight map: (|a| / max a)^p, floored at fn/fd, as exact fractions over D ----
Pow(a, p) == IF p = 0 THEN 1 ELSE IF p = 1 THEN a ELSE a * a
WeightOK(o, a, M, p, fn, fd, D) ==
    LET l == Abs(a) IN
    o * Pow(M, p) * fd = D * (IF Pow(l, p) * fd < fn * Pow(M, p) THEN fn * Pow(M, p) ELSE Pow(l, p) * fd)

\* ---- the generalised Hilbert curve (a transliteration of gilbert2d / generate2d) ----
RECURSIVE Gen(_, _, _, _, _, _)
Gen(x, y, ax, ay, bx, by) ==
    LET w == Abs(ax + ay)
        h == Abs(bx + by)
        dax == Sgn(ax)  day == Sgn(ay)
        dbx == Sgn(bx)  dby == Sgn(by)
    IN IF h = 1 THEN [k \in 1 .. w |-> << x + (k-1) * dax, y + (k-1) * day >>]
       ELSE IF w = 1 THEN [k \in 1 .. h |-> << x + (k-1) * dbx, y + (k-1) * dby >>]
       ELSE LET ax2 == ax \div 2  ay2 == ay \div 2
                bx2 == bx \div 2  by2 == by \div 2
                w2 == Abs(ax2 + ay2)
                h2 == Abs(bx2 + by2)
            IN IF 2 * w > 3 * h
               THEN LET odd == (w2 % 2 = 1) /\ (w > 2)
                        ax3 == IF odd THEN ax2 + dax ELSE ax2
                        ay3 == IF odd THEN ay2 + day ELSE ay2
                    IN Gen(x, y, ax3, ay3, bx, by) \o Gen(x + ax3, y + ay3, ax - ax3, ay - ay3, bx, by)
               ELSE LET odd == (h2 % 2 = 1) /\ (h > 2)
                        bx3 == IF odd THEN bx2 + dbx ELSE bx2
                        by3 == IF odd THEN by2 + dby ELSE by2
                    IN Gen(x, y, bx3, by3, ax2, ay2)
                       \o Gen(x + bx3, y + by3, ax, ay, bx - bx3, by - by3)
                       \o Gen(x + (ax - dax) + (bx3 - dbx), y + (ay - day) + (by3 - dby), -bx3, -by3, -(ax - ax2), -(ay - ay2))
Gilbert(w, h) == IF w >= h THEN Gen(0, 0, w, 0, 0, h) ELSE Gen(0, 0, 0, h, w, 0)
\* what a space-filling curve of a w x h lattice is
VisitsEveryCellOnce(p, w, h) == Len(p) = w * h /\ ToSet(p) = (0 .. w-1) \X (0 .. h-1)
StepL1(p, k) == Abs(p[k+1][1] - p[k][1]) + Abs(p[k+1][2] - p[k][2])
StepLinf(p, k) == LET a == Abs(p[k+1][1] - p[k][1])  b == Abs(p[k+1][2] - p[k][2]) IN IF a > b THEN a ELSE b
UnitSteps(p) == \A k \in 1 .. Len(p) - 1 : StepL1(p, k) = 1
KingSteps(p) == \A k \in 1 .. Len(p) - 1 : StepLinf(p, k) = 1
Diagonals(p) == Cardinality({ k \in 1 .. Len(p) - 1 : StepL1(p, k) = 2 })

\* The Hilbert image mesh walks the 193 x 193 curve and keeps the points inside the circle of the mask radius:
\* lattice point <<kx,ky>> sits at ((2k - 193)/193) R on each axis, so "inside" is  (2kx-193)^2 + (2ky-193)^2 <= 193^2
\* (never an equality: a sum of two odd squares is 2 mod 8).  First and last kept point of the curve (theorem CurveEndsInsideTheCircle):
HilbertLength == 193
InDisc193(p) == (2 * p[1] - 193) * (2 * p[1] - 193) + (2 * p[2] - 193) * (2 * p[2] - 193) <= 193 * 193
HilbertFirstInDisc == << 14, 47 >>
HilbertLastInDisc == << 175, 41 >>
HilbertPointsInDisc == 29240
\* the curve of the Hilbert mesh inside the circle (a constant: TLC evaluates it once)
HilbertCurveInDisc == SelectSeq(Gilbert(HilbertLength, HilbertLength), InDisc193)
\* Uniform weights: every point of the curve carries probability 1/N, the cumulative curve is (k+1)/N with its first entry
\* overwritten by 0, so quantile j/(n-1) sits at curve position j N/(n-1) - 1 (minus 1e-8 j N/(n-1) < 3e-4 of a step).
\* Segment (0-based) and numerator of the fraction over n-1:
UniformSeg(N, n, j) == IF j = 0 THEN 0 ELSE MinOf((j * N - (n-1)) \div (n-1), N - 2)
UniformNum(N, n, j) == IF j = 0 THEN 0 ELSE (j * N - (n-1)) - UniformSeg(N, n, j) * (n-1)

\* ---- inverse transform sampling ----
\* C[m] = numerator over D of the cumulative sum p_1 + .. + p_m (C[Len] = D); the code overwrites the first entry by 0.
\* Sample j of n sits at t_j = (j/(n-1)) (1 - 1e-8).  Its segment is the last m (0-based) with cdf_m <= t_j; because
\* cdf values are multiples of 1/D with D (n-1) <= 10^5, "cdf_m <= t_j" is "C_m (n-1) < j D" for j > 0.
Cz(C, m) == IF m = 0 THEN 0 ELSE C[m+1]
SegOf(C, D, n, j) == IF j = 0 THEN 0 ELSE Max({ m \in 0 .. Len(C) - 2 : Cz(C, m) * (n-1) < j * D })
\* fractional position inside the segment, as numerator over (n-1) (C_{m+1} - C_m)
SegNum(C, D, n, j) == IF j = 0 THEN 0 ELSE j * D - Cz(C, SegOf(C, D, n, j)) * (n-1)
SegDen(C, D, n, j) == IF n = 1 THEN 1 ELSE (n-1) * (Cz(C, SegOf(C, D, n, j) + 1) - Cz(C, SegOf(C, D, n, j)))

-----------------------------------------------------------------------------
(* Layer 2: the bounded machines *)

VARIABLES phase,   \* control state
          fr,      \* <<H,W>> of the frame
          U,       \* set of unmasked cells
          ov,      \* overlay shape <<S0,S1>>
          bk,      \* bookkeeping record built call by call: cen, tot, ofm, mfo, kept, call, ckept
          gl,      \* <<w,h>> of the curve machine
          path,    \* the generated curve
          hist,    \* history machine: the argument records of the calls so far
          memo,    \* history machine: the cache, key -> cached curve (an integer stands for the point set)
          res      \* history machine: the results returned so far
vars == << phase, fr, U, ov, bk, gl, path, hist, memo, res >>

NoBk == [cen |-> << >>, tot |-> -1, ofm |-> << >>, mfo |-> << >>, kept |-> << >>, call |-> << >>, ckept |-> << >>]
\* the geometry used inside the machine: pixel scale 2 half-ticks, origin 0 (the index maps do not depend on it)
MG == Geo(fr[1], fr[2], 2, 2, 0, 0)

Init == /\ fr \in Shapes
        /\ U \in (SUBSET Cells(fr[1], fr[2])) \ {{}}
        /\ phase = "mask" /\ ov = << 0, 0 >> /\ bk = NoBk
        /\ gl = << 0, 0 >> /\ path = << >> /\ hist = << >> /\ memo = << >> /\ res = << >>

Rest == UNCHANGED << fr, U, gl, path, hist, memo, res >>

\* grid_2d_slim_via_shape_native_from + grid_pixel_centres_2d_slim_from: lay the overlay, find the pixel of every point
LayOverlay ==
    /\ phase = "mask"
    /\ \E s \in OvShapes : /\ NoTie(U, s)
                           /\ ov' = s
                           /\ bk' = [bk EXCEPT !.cen = [k \in 1 .. s[1] * s[2] |-> CodeIndexOf(MG, OvPoint(MG, U, s, k-1), s)]]
    /\ phase' = "laid" /\ Rest
\* total_pixels_2d_from
CountKept ==
    /\ phase = "laid"
    /\ bk' = [bk EXCEPT !.tot = CodeTotal(bk.cen, U)]
    /\ phase' = "counted" /\ UNCHANGED ov /\ Rest
\* overlay_for_mask_from
MapOverlayForMask ==
    /\ phase = "counted"
    /\ bk' = [bk EXCEPT !.ofm = CodeOverlayForMask(bk.cen, U)]
    /\ phase' = "ofm" /\ UNCHANGED ov /\ Rest
\* mask_for_overlay_from
MapMaskForOverlay ==
    /\ phase = "ofm"
    /\ bk' = [bk EXCEPT !.mfo = CodeMaskForOverlay(bk.cen, U, bk.tot)]
    /\ phase' = "mfo" /\ UNCHANGED ov /\ Rest
\* overlay_via_unmasked_overlaid_from: gather the kept points (as overlay point numbers)
GatherKept ==
    /\ phase = "mfo"
    /\ bk' = [bk EXCEPT !.kept = [r \in 1 .. Len(bk.ofm) |-> OvPoint(MG, U, ov, bk.ofm[r])]]
    /\ phase' = "gathered" /\ UNCHANGED ov /\ Rest
\* mesh_pixels_per_image_pixels_from, for the whole overlay and for the kept points
CountPerPixel ==
    /\ phase = "gathered"
    /\ bk' = [bk EXCEPT !.call = CodeCountsAll(MG, OvPoints(MG, U, ov), ov), !.ckept = CodeCountsAll(MG, bk.kept, ov)]
    /\ phase' = "done" /\ UNCHANGED ov /\ Rest
    /\ PrintT(ToJson([k |-> "inst", h |-> fr[1], w |-> fr[2], u |-> [c \in 1 .. Cardinality(U) |-> Lin(SlimSeq(U, fr[1], fr[2])[c], fr[2])],
                      s0 |-> ov[1], s1 |-> ov[2], cen |-> bk.cen, tot |-> bk.tot]))

Next == LayOverlay \/ CountKept \/ MapOverlayForMask \/ MapMaskForOverlay \/ GatherKept \/ CountPerPixel
Spec == Init /\ [][Next]_vars

\* ---- curve machine ----
GInit == /\ gl \in GilbertSizes /\ phase = "size" /\ path = << >>
         /\ fr = << 1, 1 >> /\ U = {} /\ ov = << 0, 0 >> /\ bk = NoBk /\ hist = << >> /\ memo = << >> /\ res = << >>
Generate == /\ phase = "size"
            /\ path' = Gilbert(gl[1], gl[2])
            /\ phase' = "curve"
            /\ UNCHANGED << fr, U, ov, bk, gl, hist, memo, res >>
GNext == Generate
GSpec == GInit /\ [][GNext]_vars

\* ---- history machine: one image-mesh object (one cached curve per key) called with arguments in any order ----
\* An argument a = [id, key, org]: key selects the curve (Hilbert length + mask radius), org is the mask origin.
\* The documented result depends on the argument only:  Curve(key) shifted by org.
Curve(key) == 100 * key
Result(a) == Curve(a.key) + a.org
HInit == /\ phase = "calls" /\ hist = << >> /\ memo = << >> /\ res = << >>
         /\ fr = << 1, 1 >> /\ U = {} /\ ov = << 0, 0 >> /\ bk = NoBk /\ gl = << 0, 0 >> /\ path = << >>
Lookup(m, key) == IF \E k \in DOMAIN m : m[k][1] = key THEN (CHOOSE k \in DOMAIN m : m[k][1] = key) ELSE 0
Call ==
    /\ phase = "calls" /\ Len(hist) < HistDepth
    /\ \E a \in HistArgs :
         LET at   == Lookup(memo, a.key)
             m1   == IF at = 0 THEN Append(memo, << a.key, Curve(a.key) >>) ELSE memo      \* fill the cache on a miss
             at1  == Lookup(m1, a.key)
             out  == m1[at1][2] + a.org
         IN /\ res' = Append(res, out)
            /\ memo' = IF AliasedCache THEN [m1 EXCEPT ![at1] = << a.key, out >>] ELSE m1    \* "new_grid += origin" on the cached array
            /\ hist' = Append(hist, a)
            /\ IF Len(hist) + 1 = HistDepth
               THEN PrintT(ToJson([k |-> "hist", ids |-> [n \in 1 .. HistDepth |-> Append(hist, a)[n].id]]))
               ELSE TRUE
    /\ UNCHANGED << phase, fr, U, ov, bk, gl, path >>
HNext == Call
HSpec == HInit /\ [][HNext]_vars

-----------------------------------------------------------------------------
(* Layer 3: design theorems *)

\* Every field of bk is written once (by the action named after it) and never changed afterwards, so each theorem
\* is checked in the state where the last field it reads has just been written.
Laid == phase = "laid"
NPts == ov[1] * ov[2]

\* the three formulations of "the image pixel of an overlay point" agree, and so do the two of the overlay itself
PixelOfOverlayPointAgrees ==
    Laid => \A k \in 0 .. NPts - 1 :
               LET P == OvPoint(MG, U, ov, k) IN
               /\ Interior(MG, P, ov)
               /\ RowsHolding(MG, P[1], ov[1]) = {OvCentre(U, ov, k)[1]} /\ ColsHolding(MG, P[2], ov[2]) = {OvCentre(U, ov, k)[2]}
               /\ IndexOf(MG, P, ov) = OvCentre(U, ov, k)
               /\ bk.cen[k+1] = OvCentre(U, ov, k)
               /\ P = << CodeOvY(MG, U, ov[1], k \div ov[2]), CodeOvX(MG, U, ov[2], k % ov[2]) >>
\* every overlay point lies in a pixel of the bounding box; the overlay is symmetric about the box centre
OverlayInsideBox ==
    Laid => \A k \in 0 .. NPts - 1 :
               /\ bk.cen[k+1][1] \in I0(U) .. I1(U) /\ bk.cen[k+1][2] \in J0(U) .. J1(U)
               /\ OvPoint(MG, U, ov, k)[1] + OvPoint(MG, U, ov, NPts - 1 - k)[1] = 2 * ov[1] * MaskCentreY(MG, U)
               /\ OvPoint(MG, U, ov, k)[2] + OvPoint(MG, U, ov, NPts - 1 - k)[2] = 2 * ov[2] * MaskCentreX(MG, U)
\* an overlay at least as fine as the box, with odd refinement per pixel, puts a point in every unmasked pixel
FineOverlayReachesEveryPixel ==
    Laid /\ ov[1] % NR(U) = 0 /\ ov[2] % NC(U) = 0 => \A c \in U : \E k \in 1 .. NPts : bk.cen[k] = c
\* counts equal
CountsEqual ==
    /\ phase = "counted" => bk.tot = Len(KeptIdx(bk.cen, U)) /\ bk.tot = Cardinality(OvMust(U, ov))
    /\ phase = "ofm" => Len(bk.ofm) = bk.tot
    /\ phase = "mfo" => Len(bk.mfo) = NPts
    /\ phase = "gathered" => Len(bk.kept) = bk.tot
\* the code-shaped passes compute the documented maps
MapsAreTheDocumentedOnes ==
    /\ phase = "ofm" => bk.ofm = KeptIdx(bk.cen, U)
    /\ phase = "mfo" => bk.mfo = MaskForOverlay(bk.cen, U)
\* the two maps are inverse on their ranges, every index in range, both monotone
MapsInverse ==
    phase = "mfo" =>
       /\ \A r \in 1 .. Len(bk.ofm) : bk.ofm[r] \in 0 .. NPts - 1 /\ bk.mfo[bk.ofm[r] + 1] = r - 1
       /\ \A k \in 1 .. NPts : bk.cen[k] \in U => bk.ofm[bk.mfo[k] + 1] = k - 1
       /\ \A r \in 1 .. Len(bk.ofm) - 1 : bk.ofm[r] < bk.ofm[r+1]
       /\ \A k \in 1 .. NPts - 1 : bk.mfo[k] <= bk.mfo[k+1]
       /\ bk.tot > 0 => \A k \in 1 .. NPts : bk.mfo[k] \in 0 .. bk.tot - 1
       \* a discarded point is paired with the next kept point (the last one after the end)
       /\ \A k \in 1 .. NPts : bk.cen[k] \notin U /\ bk.tot > 0 =>
             LET nxt == { m \in k+1 .. NPts : bk.cen[m] \in U } IN
             bk.mfo[k] = IF nxt = {} THEN bk.tot - 1 ELSE bk.mfo[Min(nxt)]
\* kept points = the overlay points whose image pixel is unmasked, in row-major overlay order
KeptAreThePointsInUnmaskedPixels ==
    phase = "gathered" =>
       bk.kept = SelectSeq(OvPoints(MG, U, ov), LAMBDA P : \E c \in U : RowHolds(MG, c[1], P[1], ov[1]) /\ ColHolds(MG, c[2], P[2], ov[2]))
\* per-pixel counts: the code-shaped histogram is the documented count; they add up
CountsAddUp ==
    phase = "done" =>
       LET all == OvPoints(MG, U, ov)
           cn  == CountsNative(MG, U, all, ov)
       IN /\ \A k \in 1 .. fr[1] * fr[2] : bk.call[k] = PointsIn(MG, all, ov, CellOf(k-1, fr[2]))
          /\ \A k \in 1 .. fr[1] * fr[2] : cn[k] = IF CellOf(k-1, fr[2]) \in U THEN bk.call[k] ELSE 0
          /\ SumSeq(cn) + PointsInMasked(MG, U, all, ov) = NPts
          /\ SumSeq(cn) = bk.tot
          /\ SumSeq(bk.ckept) = bk.tot
          /\ \A k \in 1 .. fr[1] * fr[2] : bk.ckept[k] = cn[k]
          /\ PointsInMasked(MG, U, bk.kept, ov) = 0
\* the threshold of the first check is monotone: asking for more pixels or a higher minimum can only add exceptions
MinPerPixelMonotone ==
    phase = "done" =>
       LET cs == [k \in 1 .. Cardinality(U) |-> bk.call[Lin(SlimSeq(U, fr[1], fr[2])[k], fr[2]) + 1]] IN
       \A N \in 1 .. 3 : /\ LowestOfTop(cs, N) >= LowestOfTop(cs, N + 1)
                         /\ (MinPerPixelRaises(cs, N, 1, 1) => MinPerPixelRaises(cs, N + 1, 1, 1) /\ MinPerPixelRaises(cs, N, 2, 1))
                         /\ (MinPerPixelRaises(cs, N, 1, 1) <=> Cardinality({ k \in DOMAIN cs : cs[k] >= 1 }) < MinOf(N, Len(cs)))

\* curve machine: the generalised Hilbert curve visits every cell once, in king steps, in unit steps when the rectangle is a square
\* (or its longer side is even), with at most one diagonal step otherwise; it starts in the corner (0,0)
CurveFillsTheRectangle == phase = "curve" => VisitsEveryCellOnce(path, gl[1], gl[2]) /\ path[1] = << 0, 0 >>
CurveIsContinuous ==
    phase = "curve" => /\ KingSteps(path)
                       /\ Diagonals(path) <= 1
                       /\ (gl[1] = gl[2] => UnitSteps(path))
                       /\ (gl[1] = gl[2] => path[Len(path)] = << gl[1] - 1, 0 >>)

\* the curve of the Hilbert image mesh: where it enters and leaves the circle, how many points it keeps
CurveEndsInsideTheCircle ==
    phase = "curve" /\ gl = << HilbertLength, HilbertLength >> =>
       LET inside == SelectSeq(path, InDisc193)
       IN Len(inside) = HilbertPointsInDisc /\ inside[1] = HilbertFirstInDisc /\ inside[Len(inside)] = HilbertLastInDisc

\* history machine: every result is the documented function of ITS argument, whatever was called before
HistoryFree == phase = "calls" => \A n \in 1 .. Len(res) : res[n] = Result(hist[n])
=============================================================================
