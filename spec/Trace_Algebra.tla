--------------------------- MODULE Trace_Algebra ---------------------------
(***************************************************************************)
(* Validation of recorded histories of real PyAutoArray structures against *)
(* Algebra.tla (X08).  An episode is a `Start` record (class, mask,        *)
(* storage form, the operands a and b as built by the public constructors) *)
(* followed by one record per action.  Every record is judged (total       *)
(* verdicts): the prediction is Algebra!StepOf applied to the state the    *)
(* specification holds and the logged action; a rejected record is printed *)
(* with the names of the failing clauses, the spec-computed signature      *)
(* `Class:op:clause` and the value the specification wanted; afterwards    *)
(* the state is re-synchronised with the logged observation so that every  *)
(* later record is still judged on its own.                                *)
(*                                                                         *)
(* Logged per step: the abstraction (exact dyadic values) of the stored    *)
(* array of every live object (a, b, r, c, o), of the returned value, the  *)
(* container facts of the result, which objects are byte-for-byte          *)
(* unchanged (fingerprints of entries + mask + geometry), whether the      *)
(* caller's ndarray operand is unchanged, and for a Read whether the value *)
(* equals that of a COLD TWIN (a fresh object built from a copy of the     *)
(* object's current entries and read exactly once).                        *)
(***************************************************************************)
EXTENDS Algebra, IOUtils

Trace == JsonDeserialize(IOEnv.TRACE_FILE)
VARIABLE i

Cl(nm, ok) == IF ok THEN << >> ELSE << nm >>
SetOf(s) == { s[k] : k \in DOMAIN s }

TraceInit == /\ i = 1
             /\ env = [cls |-> "", comp |-> 1, cplx |-> FALSE, nat |-> FALSE, h |-> 0, w |-> 0, u |-> << >>,
                       shape0 |-> 0, gpos |-> << >>]
             /\ S = [s \in Slots |-> Dead] /\ T = [s \in Slots |-> Dead] /\ hist = << >> /\ last = [a |-> "Start"]

Ascending(s) == \A k \in 1 .. Len(s) - 1 : s[k] < s[k+1]
EnvOfRec(r) == [cls |-> r.cls, comp |-> r.comp, cplx |-> r.cplx, nat |-> r.nat, h |-> r.h, w |-> r.w, u |-> r.u,
                shape0 |-> r.shape0, gpos |-> r.gpos]

\* ---- Start: the constructed operands hold the given values in the stated storage form ----------------------------
StartClauses(r) ==
    LET e == EnvOfRec(r)
        ok(g, o) == IF HasMask(e) /\ e.nat
                    THEN Len(g) = Len(e.u) * e.comp /\ Len(o) = e.h * e.w * e.comp /\ o = Scatter(g, e)
                    ELSE o = g
    IN Cl("start-mask-well-formed", Ascending(r.u) /\ (HasMask(e) => \A k \in DOMAIN r.u : r.u[k] >= 0 /\ r.u[k] < r.h * r.w))
       \o (IF Ascending(r.u) THEN Cl("start-stored-form-of-given-values", ok(r.given.a, r.obs.a) /\ ok(r.given.b, r.obs.b))
           ELSE << >>)

\* ---- shared: every object the action does not write is unchanged (bytes and abstract content) ---------------------
Others(r, P, role) ==
    LET keepers == { s \in Slots : S[s].live /\ s \notin P.writes } IN
    Cl(role, \A s \in keepers : s \in SetOf(r.unchanged) /\ s \in SetOf(r.live) /\ MatchSeq(S[s].st, r.obs[s]))
    \o Cl("caller-ndarray-unchanged", r.nd_ok)

EditRole(r) == IF r.x = "c" THEN "original-unchanged-by-edit-of-copy"
               ELSE IF r.x = "a" THEN "copy-and-operands-unchanged-by-edit-of-original"
               ELSE "operands-unchanged-by-edit-of-result"

ContainerKept(r) == r.keep /\ r.res_cls /\ r.res_mask /\ r.res_geom /\ r.res_os /\ r.res_shape

\* an exception is acceptable only for operators the class does not define (the interpreter's own TypeError)
MayRaise(r) ==
    /\ r.raised = "TypeError"
    /\ \/ r.op \in OptionalOps
       \/ (r.op = "pow" /\ Reflected(r))
       \/ (env.cplx /\ r.op \in {"lt", "le", "gt", "ge"})
       \/ (env.cls = "Mask2D" /\ r.op \in ArithOps \cup {"neg", "abs"})

\* small-integer content, for the fixed-point judgements
SmallInts(sl) == \A p \in 1 .. Len(sl) : IsSmallInt(sl[p])

StepClauses(r, P) ==
    CASE r.a \in {"Binary", "Unary"} ->
           IF r.raised # ""
           THEN Cl("no-exception", MayRaise(r)) \o Others(r, [P EXCEPT !.writes = {}], "operands-unchanged")
           ELSE Cl("result-is-elementwise", MatchSeq(P.res, r.res))
                \o Cl("container-kept", MustWrap(r) => ContainerKept(r))
                \o Others(r, P, "operands-unchanged")
      [] r.a = "InPlace" ->
           IF r.raised # ""
           THEN Cl("no-exception", MayRaise(r)) \o Others(r, [P EXCEPT !.writes = {}], "operands-unchanged")
           ELSE Cl("inplace-result-is-elementwise", MatchSeq(P.S["a"].st, r.obs["a"]))
                \o Cl("inplace-container-kept", r.res_cls /\ r.res_mask /\ r.res_geom /\ r.res_os /\ r.res_shape)
                \* either the object itself was changed, or the name was re-bound and the old object is untouched
                \o Cl("inplace-old-object-untouched-when-rebound",
                      r.same_id \/ ("o" \in SetOf(r.unchanged) /\ MatchSeq(S["a"].st, r.obs["o"])))
                \o Others(r, P, "operands-unchanged")
      [] r.a = "Copy" ->
           IF r.raised # "" THEN << "no-exception" >>
           ELSE Cl("copy-equals-original", MatchSeq(S[r.x].st, r.obs["c"]) /\ MatchSeq(r.obs["c"], S[r.x].st))
                \o Cl("copy-is-a-new-object", ~ r.same_id)
                \o Cl("copy-container-kept", r.res_cls /\ r.res_mask /\ r.res_geom /\ r.res_os /\ r.res_shape)
                \o Others(r, P, "original-unchanged-by-copying")
      [] r.a = "Edit" ->
           \* x[key] = v sets exactly the entries that x[key] selects (an exception is a failure of the same clause)
           IF r.raised # "" THEN << "setitem-numpy-semantics" >> \o Others(r, [P EXCEPT !.writes = {}], EditRole(r))
           ELSE Cl("setitem-numpy-semantics", MatchSeq(P.res, r.obs[r.x]))
                \o Others(r, P, EditRole(r))
      [] r.a = "Read" ->
           (IF r.raised # "" THEN
                \* vectors_within_radius / annulus may raise when no vector remains (the docstring is silent: either is accepted)
                Cl("read-no-exception",
                   r.view \in {"within_radius", "within_annulus"}
                   /\ KeptIdx(env.gpos, IF r.view = "within_radius" THEN -1 ELSE r.arg[1],
                              IF r.view = "within_radius" THEN r.arg[1] ELSE r.arg[2],
                              r.arg[Len(r.arg) - 1], r.arg[Len(r.arg)]) = << >>)
            ELSE CASE r.view \in {"within_radius", "within_annulus"} ->
                        LET K == KeptIdx(env.gpos, IF r.view = "within_radius" THEN -1 ELSE r.arg[1],
                                         IF r.view = "within_radius" THEN r.arg[1] ELSE r.arg[2],
                                         r.arg[Len(r.arg) - 1], r.arg[Len(r.arg)])
                            st == S[r.x].st
                        IN Cl("kept-vectors-are-those-whose-grid-position-is-inside",
                              /\ MatchSeq([p \in 1 .. 2 * Len(K) |-> st[2 * (K[(p+1) \div 2] - 1) + 2 - (p % 2)]], r.res)
                              /\ r.res2 = [p \in 1 .. 2 * Len(K) |-> env.gpos[K[(p+1) \div 2]][2 - (p % 2)]])
                   [] r.view = "avgmag" ->
                        LET sl == SlimOf(S[r.x].st, env)
                            n == Len(sl) \div 2
                        IN IF n > 0 /\ n <= 16 /\ SmallInts(sl)
                           THEN LET sy == ISum(sl, 1, 2)  sx == ISum(sl, 2, 2) IN
                                Cl("average-magnitude-within-rounding-of-definition",
                                   r.fx >= 0 /\ r.fx < 1000 /\
                                   AbsI(r.fx * r.fx * n * n - 64 * (sy * sy + sx * sx)) <= n * n * (r.fx + 1))
                           ELSE << >>
                   [] r.view = "avgphi" ->
                        LET sl == SlimOf(S[r.x].st, env) IN
                        IF Len(sl) > 0 /\ Len(sl) <= 32 /\ SmallInts(sl)
                        THEN Cl("average-phi-in-the-octant-of-the-mean-vector", PhiOk(r.fx, ISum(sl, 1, 2), ISum(sl, 2, 2)))
                        ELSE << >>
                   [] r.view \in {"phases", "is_uniform"} -> << >>
                   [] OTHER -> Cl("read-value", MatchSeq(P.res, r.res)))
           \o Cl("read-reports-current-entries", r.own)
           \o Others(r, P, "read-leaves-every-object-unchanged")
      [] OTHER -> << "unknown-action" >>

OpName(r) == CASE r.a \in {"Binary", "Unary"} -> r.op
               [] r.a = "InPlace" -> "i" \o r.op
               [] r.a = "Copy" -> r.how
               [] r.a = "Edit" -> "setitem-" \o r.keykind
               [] r.a = "Read" -> r.view
               [] OTHER -> r.a
\* the class named by a signature is the one that DEFINES the method the action calls (r.owner: the call site), so a defect of
\* an inherited method has one signature whatever subclass exhibits it; the record and the replay file name the subclass
Sig(r, bad, P) == r.owner \o ":" \o OpName(r) \o ":" \o bad[1] \o (IF P.stale THEN ":cached-before-setitem" ELSE "")
                  \o (IF r.a = "Read" /\ HasMask(env) /\ env.nat THEN ":native-stored" ELSE "")

Guarded(r) ==    \* records the step function can be applied to
    /\ r.x \in Slots /\ S[r.x].live
    /\ (r.a \in {"Binary", "InPlace"} /\ r.kind \in {"nd", "rnd", "obj"}) => S["b"].live
    /\ (r.a = "Edit") => Len(r.vv) > 0
    /\ (r.a = "Read" /\ r.view \in {"index", "tail"}) =>
            (/\ Len(r.arg) = 1 /\ r.arg[1] >= 0 /\ r.arg[1] < env.shape0
             /\ Len(S[r.x].st) >= env.shape0 /\ Len(S[r.x].st) % env.shape0 = 0)
    \* views that go through the mask need an object that still has the stored shape of its mask
    /\ (r.a = "Read" /\ r.view \in {"slim", "native", "apply_mask", "vy", "vx", "magnitudes", "amplitudes", "avgmag", "avgphi"}) =>
            Len(S[r.x].st) = StoredLen(env)
    /\ (r.a = "Read" /\ r.view = "apply_mask") => \A k \in DOMAIN r.arg : r.arg[k] \in USet(env)
    /\ (r.a = "Read" /\ r.view \in {"within_radius", "within_annulus"}) =>
            (Len(S[r.x].st) = 2 * Len(env.gpos) /\ Len(r.arg) = (IF r.view = "within_radius" THEN 3 ELSE 4))

TraceNext ==
    /\ i <= Len(Trace)
    /\ LET r == Trace[i] IN
       IF r.a = "Start"
       THEN /\ LET bad == StartClauses(r) IN
               IF bad = << >> THEN TRUE
               ELSE PrintT(ToJson([k |-> "reject", i |-> i, id |-> r.id, clauses |-> bad,
                                   sig |-> r.cls \o ":construct:" \o bad[1], want |-> << >>]))
            /\ env' = EnvOfRec(r)
            /\ S' = [s \in Slots |-> IF s \in {"a", "b"} THEN Obj(r.obs[s]) ELSE Dead]
       ELSE /\ IF ~ Guarded(r)
               THEN PrintT(ToJson([k |-> "reject", i |-> i, id |-> r.id, clauses |-> << "malformed-record" >>,
                                   sig |-> r.owner \o ":" \o r.a \o ":malformed-record", want |-> << >>]))
               ELSE LET P0 == StepOf(S, env, r, FALSE)
                        P == IF r.raised # "" THEN [P0 EXCEPT !.S = S] ELSE P0
                        bad == StepClauses(r, P)
                    IN IF bad = << >> THEN TRUE
                       ELSE PrintT(ToJson([k |-> "reject", i |-> i, id |-> r.id, clauses |-> bad, sig |-> Sig(r, bad, P),
                                           want |-> IF r.a = "Read" \/ r.a = "Binary" \/ r.a = "Unary" THEN P.res
                                                    ELSE IF r.a = "Edit" THEN P.res ELSE << >>]))
            \* re-synchronise with the observation; cached-view bookkeeping follows the model
            /\ LET Q == IF Guarded(r) /\ r.raised = "" THEN StepOf(S, env, r, FALSE).S ELSE S IN
               S' = [s \in Slots |-> IF s \in SetOf(r.live)
                                     THEN [live |-> TRUE, st |-> r.obs[s], cached |-> Q[s].cached, memo |-> Q[s].memo]
                                     ELSE Dead]
            /\ env' = env
    /\ i' = i + 1
    /\ UNCHANGED << T, hist, last >>

TraceSpec == TraceInit /\ [][TraceNext]_<< vars, i >>
TraceAccepted == TLCGet("stats").diameter - 1 = Len(Trace)
=============================================================================
