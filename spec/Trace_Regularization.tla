------------------------ MODULE Trace_Regularization ------------------------
(***************************************************************************)
(* Validation of recorded regularization matrices of the real code against *)
(* Regularization.tla.  One record per observed matrix:                    *)
(*                                                                         *)
(*  api = "exact"   a scheme on a real mapper in the exact domain          *)
(*                  (dyadic coefficients / integer weights):               *)
(*                  H = u*Hq + rho*Hr, both integer matrices; N is the     *)
(*                  neighbour table THE MAPPER REPORTS (1-based), W the    *)
(*                  integer weights the scheme reports.                    *)
(*  api = "fixed"   adaptive / brightness-zeroth schemes on real adapt     *)
(*                  data in fixed point: W = round(w*S), Hs = round(H*S^2) *)
(*                  and D = round((H(2 coeffs) - 16 H(coeffs)) / rho).     *)
(*  api = "split"   split-cross schemes: the interpolation rows of the     *)
(*                  cross points as the mapper reports them, in fixed      *)
(*                  point (unit 1/T), W = round(w*S), Hs = round(H*S^2*T^2)*)
(*                  (constant split: H divided by the dyadic c^2, W = 1).  *)
(*  api = "kernel"  Gaussian / exponential kernel schemes: Hs = round(H*S) *)
(*                  and, for n <= 4, Hp = round(H * Sp) with small entries *)
(*                  for the Sylvester certificate.                         *)
(*  api = "blocks"  inversion.regularization_matrix / _reduced against     *)
(*                  every object's own regularization_matrix, read after   *)
(*                  the inversion-level history r.stage (fresh, after the  *)
(*                  solve, preloaded, second inversion on the same         *)
(*                  Preloads, the source inversion of the preload): the    *)
(*                  clauses are the same for every stage.                  *)
(*                                                                         *)
(* history: "fresh" = regularization_matrix_from on a new object; "copy" /  *)
(* "reassign" = read from linear_obj.regularization_matrix after the object *)
(* (or the object it was copy.copy'd from) carried a different scheme whose *)
(* block had been evaluated -- the verdict is the same in every history.    *)
(* chol / logdet_ok are recorded observations of np.linalg.cholesky on the *)
(* returned matrix and of inversion.log_det_regularization_matrix_term.    *)
(* Every tolerance below is DERIVED from the rounding of the record (never *)
(* a chosen epsilon); symmetry of assembled schemes is the raw comparison  *)
(* H[i][j] == H[j][i] on the floats (field sym).                           *)
(***************************************************************************)
EXTENDS Regularization, IOUtils

Trace == JsonDeserialize(IOEnv.TRACE_FILE)
VARIABLE i

Cl(nm, ok) == IF ok THEN << >> ELSE << nm >>
IsVec(v, n) == Len(v) = n
Sq(a) == a * a

\* the schemes the statement requires to be STRICTLY positive definite "so the Cholesky factorizations and log-determinants
\* used in the evidence exist".  For these every record carries the observation chol: np.linalg.cholesky of the returned
\* matrix succeeded with positive pivots (a validated observation like raised, for every n; the exact minors stop at n = 4).
StrictScheme(s) == s \in {"constant", "constant_zeroth", "zeroth", "adaptive"}

\* ---- exact domain --------------------------------------------------------
\* The pairs of the stated form are the pairs (i, j) with j in N(i) OR i in N(j) of the table the mapper reports: a table that
\* lists a pair from one side only is not rejected as such -- the matrix must still be symmetric with the stated form.
ExactParams(r) == [c2q |-> r.c2q, czq |-> r.czq, w2 |-> [k \in DOMAIN r.W |-> r.W[k] * r.W[k]]]
ExactClauses(r) ==
  IF r.raised THEN << "no-exception" >>
  ELSE IF r.offlattice THEN << "result-on-the-exact-lattice" >>
  ELSE IF ~ (r.rows = r.n /\ r.cols = r.n /\ IsSquare(r.Hq, r.n) /\ IsSquare(r.Hr, r.n) /\ Len(r.N) = r.n /\ r.wlen = r.n)
       THEN << "size-is-param-count" >>
  ELSE LET n == r.n
           P == Pairs(r.N)
           pr == ExactParams(r)
           needW == r.scheme \in {"adaptive", "brightness_zeroth"}
       IN IF needW /\ ~ IsVec(r.W, n) THEN << "weights-size-is-param-count" >>
          ELSE
            Cl("symmetric", r.sym /\ IsSym(r.Hq, n) /\ IsSym(r.Hr, n))
            \o Cl("matrix-of-the-stated-quadratic-form", r.Hq = WantQ(r.scheme, P, n, pr))
            \o Cl("ridge-on-the-diagonal-only", r.Hr = WantR(r.scheme, n))
            \o Cl("cholesky-factorization-exists", StrictScheme(r.scheme) => r.chol)
            \* the scheme object's coefficient attributes (value and type) are the same after the calls as before
            \o Cl("scheme-coefficients-unchanged-by-the-calls", r.attrs_ok)
            \o (IF n <= MaxTernary
                THEN Cl("positive-semi-definite-on-ternary-vectors",
                        \A x \in Ternary(n) :
                           LET q == QF(r.Hq, x, n) rr == QF(r.Hr, x, n)
                           IN NonNeg(q, rr) /\ ((HasRidge(r.scheme) /\ \E k \in 1 .. n : x[k] # 0) => Pos(q, rr)))
                ELSE << >>)
            \o (IF n <= 4 /\ r.scheme # "brightness_zeroth"
                THEN Cl("strictly-positive-definite-by-exact-minors", StrictlyPD(r.Hq, r.Hr, n))
                ELSE << >>)

\* ---- fixed point: adaptive / brightness zeroth -------------------------------
\* |w S - W| <= 1/2  =>  |w^2 S^2 - W^2| <= |W| + 1/4;  |H S^2 - Hs| <= 1/2;  float error of the implementation < 1/4 unit
RidgeUnits(S2) == S2 \div 100000000 + 1          \* rho * S^2 rounded up
FixedOff(r, P, a, b) ==
  IF IsPair(P, a, b) THEN Abs(r.Hs[a][b] + Sq(r.W[a]) + Sq(r.W[b])) <= Abs(r.W[a]) + Abs(r.W[b]) + 2
  ELSE r.Hs[a][b] = 0
FixedDiag(r, P, a) ==
  LET want == SumOver(PairsAt(P, a), LAMBDA p : Sq(r.W[p[1]]) + Sq(r.W[p[2]]))
      tol == SumOver(PairsAt(P, a), LAMBDA p : Abs(r.W[p[1]]) + Abs(r.W[p[2]]) + 1) + 2
      d == r.Hs[a][a] - want
  IN d >= -tol /\ d <= tol + RidgeUnits(r.S * r.S)
FixedClauses(r) ==
  IF r.raised THEN << "no-exception" >>
  ELSE IF r.offlattice THEN << "result-finite-and-within-the-fixed-point-range" >>
  ELSE IF ~ (r.rows = r.n /\ r.cols = r.n /\ IsSquare(r.Hs, r.n) /\ Len(r.N) = r.n /\ r.wlen = r.n /\ IsVec(r.W, r.n))
       THEN << "size-is-param-count" >>
  ELSE LET n == r.n P == Pairs(r.N) IN
       Cl("symmetric", r.sym /\ IsSym(r.Hs, n))
       \o (IF r.scheme = "adaptive"
           THEN Cl("cholesky-factorization-exists", r.chol)
                \o Cl("off-diagonal-is-minus-sum-of-squared-weights-of-the-pair",
                      \A a, b \in 1 .. n : a # b => FixedOff(r, P, a, b))
                \o Cl("diagonal-is-sum-over-neighbouring-pairs-plus-ridge", \A a \in 1 .. n : FixedDiag(r, P, a))
                \o Cl("ridge-is-1e-8-on-the-diagonal-only", r.ridge_ok /\ r.D = Mat(n, LAMBDA a, b : IF a = b THEN -r.k ELSE 0))
           ELSE \* brightness zeroth: Diag(w^2), no ridge
                Cl("diagonal-of-squared-weights",
                   \A a, b \in 1 .. n : IF a = b THEN Abs(r.Hs[a][a] - Sq(r.W[a])) <= Abs(r.W[a]) + 2 ELSE r.Hs[a][b] = 0)
                \o Cl("positive-semi-definite", \A a \in 1 .. n : r.Hs[a][a] >= 0))

\* ---- split cross ------------------------------------------------------------------
\* record: T, rows[k] = [pix, map, wt] (wt = round(weight*T), as reported by the mapper, before reg_split_from),
\* S, W = round(w*S) (wexact: w*S is exactly W), Hs = round(H * S^2 * T^2).
\* With om = W^2 (error dom <= |W|+1, or 0 when exact) and R = RVec (error da <= e_a/2 where e_a = number of rounded
\* weights entering component a; the pixel's own T is exact):
\*   |om r_a r_b - W^2 R_a R_b| <= dom (|R_a|+da)(|R_b|+db) + W^2 (|R_a| db + |R_b| da + da db)
SplitRowsOk(r) ==
  /\ Len(r.rows) = 4 * r.n
  /\ \A k \in DOMAIN r.rows :
        LET row == r.rows[k] IN
        /\ row.pix = (k - 1) \div 4 + 1
        /\ Len(row.map) = Len(row.wt) /\ Len(row.map) >= 1
        /\ \A l \in DOMAIN row.map : row.map[l] \in 1 .. r.n
\* number of rounded weights that enter component a of r_k (the pixel's own T is exact)
Cnt(row, a) == Cardinality({l \in DOMAIN row.map : row.map[l] = a})
SplitTol(r, a, b) ==
  IF r.exact THEN 0   \* integer weights over a power-of-two T: the arithmetic of the implementation is exact
  ELSE
  SumOver(DOMAIN r.rows, LAMBDA k :
     LET row == r.rows[k]
         w == r.W[row.pix]
         dom == IF r.wexact THEN 0 ELSE Abs(w) + 1
         ra == Abs(RVec(row, r.T, a))
         rb == Abs(RVec(row, r.T, b))
         ea == Cnt(row, a)
         eb == Cnt(row, b)
     IN dom * (ra + ea) * (rb + eb) + w * w * (ra * eb + rb * ea + ea * eb))
  + 2 + (IF a = b THEN RidgeUnits(r.ST2) ELSE 0)
SplitClauses(r) ==
  IF r.raised THEN << "no-exception" >>
  ELSE IF r.offlattice THEN << "result-finite-and-on-the-lattice-of-the-instance" >>
  ELSE IF ~ (r.rows_n = r.n /\ r.cols_n = r.n /\ IsSquare(r.Hs, r.n) /\ r.wlen = r.n /\ IsVec(r.W, r.n))
       THEN << "size-is-param-count" >>
  ELSE IF ~ SplitRowsOk(r) THEN << "cross-point-rows-well-formed" >>
  ELSE LET n == r.n
           om == [k \in 1 .. n |-> r.W[k] * r.W[k]]
           want == SplitQ(n, r.T, om, r.rows)
       IN Cl("symmetric", r.sym /\ IsSym(r.Hs, n))
          \o Cl("cholesky-factorization-exists", r.chol)
          \o Cl("sum-over-cross-points-of-weighted-squares",
                \A a, b \in 1 .. n : Abs(r.Hs[a][b] - want[a][b]) <= SplitTol(r, a, b))
          \o Cl("ridge-is-1e-8-on-the-diagonal-only", r.ridge_ok /\ r.D = Mat(n, LAMBDA a, b : IF a = b THEN -r.k ELSE 0))

\* ---- kernel schemes -----------------------------------------------------------------
\* H = coefficient * inverse(covariance): computed by a floating-point inversion, whose result is symmetric only to
\* rounding: decided at the resolution of the record, |Hs[a][b] - Hs[b][a]| <= 1 (two roundings of equal reals differ by <= 1).
\* PSD on ternary vectors: |x'(H S)x - x'Hs x| <= (SUM |x_k|)^2 / 2.
\* Strictly PD, n <= 4: Hp = H*Sp + E, |E_ab| <= 1/2, so ||E|| <= n/2; Sylvester(Hp - m I) with m = n \div 2 + 1
\* (one more unit for the float asymmetry of the inversion) gives lambda_min(Hp) > m > ||E||, hence H positive definite.
KernelClauses(r) ==
  IF r.raised THEN << "no-exception" >>
  ELSE IF r.offlattice THEN << "result-finite" >>
  ELSE IF ~ (r.rows = r.n /\ r.cols = r.n /\ IsSquare(r.Hs, r.n) /\ r.wlen = r.n) THEN << "size-is-param-count" >>
  ELSE LET n == r.n IN
       Cl("symmetric-at-record-resolution", \A a, b \in 1 .. n : Abs(r.Hs[a][b] - r.Hs[b][a]) <= 1)
       \o Cl("cholesky-factorization-exists", r.chol)
       \o (IF n <= MaxTernary
           THEN Cl("positive-semi-definite-on-ternary-vectors",
                   \A x \in Ternary(n) : LET l1 == SumOver(1 .. n, LAMBDA k : Abs(x[k]))
                                         IN 2 * QF(r.Hs, x, n) >= -(l1 * l1))
           ELSE << >>)
       \o (IF n <= 4
           THEN Cl("strictly-positive-definite-by-sylvester-with-rounding-margin",
                   /\ IsSquare(r.Hp, n) /\ \A a, b \in 1 .. n : Abs(r.Hp[a][b] - r.Hp[b][a]) <= 1
                   /\ LET m == n \div 2 + 1
                          \* symmetrised from the upper triangle (the lower one differs by <= 1 rounding unit, covered by m)
                          A == Mat(n, LAMBDA a, b : (IF a <= b THEN r.Hp[a][b] ELSE r.Hp[b][a]) - (IF a = b THEN m + 1 ELSE 0))
                      IN Sylvester(A, n))
           ELSE << >>)

\* ---- blocks ---------------------------------------------------------------------------
BlocksClauses(r) ==
  IF r.raised THEN << "no-exception" >>
  ELSE IF r.offlattice THEN << "result-on-the-exact-lattice" >>
  ELSE LET ps == [o \in DOMAIN r.objs |-> r.objs[o].p]
           regs == [o \in DOMAIN r.objs |-> r.objs[o].reg]
           oq == [o \in DOMAIN r.objs |-> r.objs[o].Hq]
           orr == [o \in DOMAIN r.objs |-> r.objs[o].Hr]
           P == Total(ps)
           Pr == Total(Keep(ps, regs))
       IN IF ~ (\A o \in DOMAIN r.objs : IsSquare(oq[o], ps[o]) /\ IsSquare(orr[o], ps[o]))
          THEN << "own-matrix-size-is-param-count" >>
          ELSE Cl("size-is-param-count", IsSquare(r.Fq, P) /\ IsSquare(r.Fr, P))
               \o Cl("unregularised-block-is-zero",
                     \A o \in DOMAIN r.objs : ~ regs[o] => oq[o] = Zero(ps[o]) /\ orr[o] = Zero(ps[o]))
               \o Cl("blocks-in-object-order", r.Fq = BlockDiag(oq, ps) /\ r.Fr = BlockDiag(orr, ps))
               \o Cl("reduced-size-is-regularised-param-count", IsSquare(r.Rq, Pr) /\ IsSquare(r.Rr, Pr))
               \o Cl("reduced-is-regularised-blocks-in-object-order",
                     r.Rq = ReducedDef(oq, ps, regs) /\ r.Rr = ReducedDef(orr, ps, regs))
               \o Cl("cholesky-factorization-of-reduced-matrix-exists", r.chol)
               \o Cl("log-determinant-term-exists", r.logdet_ok)
               \* ld, ld_ref: round(1000 x) of the reported term and of 2 SUM log diag(cholesky(reduced matrix as read))
               \o Cl("log-determinant-term-is-that-of-the-reduced-matrix",
                     (r.logdet_ok /\ r.chol) => Abs(r.ld - r.ld_ref) <= 10)

Clauses(r) ==
  CASE r.api = "exact" -> ExactClauses(r)
    [] r.api = "fixed" -> FixedClauses(r)
    [] r.api = "split" -> SplitClauses(r)
    [] r.api = "kernel" -> KernelClauses(r)
    [] r.api = "blocks" -> BlocksClauses(r)
    [] OTHER -> << "unknown-api" >>

\* what the specification wanted (small instances only, to keep the reject lines readable)
Want(r) ==
  IF r.raised THEN << "no exception" >>
  ELSE IF r.api = "exact" /\ Len(r.N) = r.n /\ r.n <= 12 /\ (r.scheme \in {"adaptive", "brightness_zeroth"} => IsVec(r.W, r.n))
  THEN [Hq |-> WantQ(r.scheme, Pairs(r.N), r.n, ExactParams(r)), Hr |-> WantR(r.scheme, r.n)]
  ELSE IF r.api = "blocks" /\ ~ r.offlattice
  THEN [block_offsets |-> [o \in DOMAIN r.objs |-> Off([k \in DOMAIN r.objs |-> r.objs[k].p], o)],
        regularised |-> [o \in DOMAIN r.objs |-> r.objs[o].reg]]
  ELSE << >>

\* signature of the failing input class: call site (scheme) and mesh class
HasTable(r) == r.api \in {"exact", "fixed"} /\ ~ r.raised /\ ~ r.offlattice
Sig(r) == r.api \o ":" \o r.scheme \o ":" \o r.mesh
          \o (IF HasTable(r) /\ ~ TableOk(r.N) THEN ":OneSidedNeighbourTable" ELSE "")
          \* history of the linear object the matrix was read from: "fresh", or the object carried ANOTHER scheme whose block was
          \* evaluated before the judged scheme was assigned to a copy.copy of it ("copy") or to the object itself ("reassign")
          \o (IF r.history # "fresh" THEN ":after-" \o r.history ELSE "")
          \* type in which the coefficient was given to the scheme (Python float unless stated)
          \o (IF r.ctype # "float" THEN ":coefficient-" \o r.ctype ELSE "")
          \* inversion-level history before the judged read (Regularization!HistRead): after-solve, preloaded, ...
          \o (IF r.api = "blocks" /\ r.stage # "fresh" THEN ":" \o r.stage ELSE "")

TraceInit == i = 1 /\ inst = Blank /\ phase = "trace" /\ out = << >>
TraceNext ==
  /\ i <= Len(Trace)
  /\ LET r == Trace[i] f == Clauses(r) IN
       IF f = << >> THEN TRUE
       ELSE PrintT(ToJson([k |-> "reject", i |-> i, id |-> r.id, clauses |-> f, sig |-> Sig(r), want |-> Want(r)]))
  /\ i' = i + 1
  /\ UNCHANGED vars
TraceSpec == TraceInit /\ [][TraceNext]_<< vars, i >>
TraceAccepted == TLCGet("stats").diameter - 1 = Len(Trace)
=============================================================================
