------------------------------- MODULE Masks -------------------------------
(***************************************************************************)
(* Masks, slim/native forms, index tables (C01) and the derived pixel sets *)
(* blurring / edge / border (C10) of PyAutoArray.                          *)
(*                                                                         *)
(* A mask on an H x W frame is its set U of UNMASKED cells <<i,j>>         *)
(* (0-based, row i from the top, column j from the left).  Values are      *)
(* never modelled: data movement is described by the SOURCE of every       *)
(* output position (a cell, or Zero).                                      *)
(*                                                                         *)
(* Layer 1 (meaning) takes H, W as parameters so that the same operators   *)
(* serve the bounded machine below and the trace specification, whose      *)
(* records carry their own shapes.                                         *)
(***************************************************************************)
EXTENDS Integers, Sequences, FiniteSets, TLC, Json, SequencesExt, FiniteSetsExt

CONSTANTS Shapes,      \* set of <<H,W>> explored by the bounded machine
          KernelShapes \* set of <<kh,kw>> (odd) explored for the blurring set

Zero == -1   \* source tag "this position holds 0"

-----------------------------------------------------------------------------
(* Layer 1: meaning *)

Cells(H, W) == (0 .. H-1) \X (0 .. W-1)
Lin(c, W) == c[1] * W + c[2]
CellOf(k, W) == << k \div W, k % W >>
InFrame(c, H, W) == c[1] >= 0 /\ c[1] < H /\ c[2] >= 0 /\ c[2] < W

\* all cells in row-major order (top row first, left to right)
RowMajor(H, W) == [k \in 1 .. H*W |-> CellOf(k-1, W)]

\* the slim order: unmasked cells in row-major order
SlimSeq(U, H, W) == SelectSeq(RowMajor(H, W), LAMBDA c : c \in U)

\* an independent formulation of the same thing: the row-major rank of an unmasked cell
Rank(c, U, W) == 1 + Cardinality({d \in U : Lin(d, W) < Lin(c, W)})

\* Source maps.  slim: position k holds the value of cell SlimSrc[k] (as linear index).
\* native: row-major position k holds the value of that cell if unmasked, else Zero.
SlimSrc(U, H, W) == [k \in 1 .. Cardinality(U) |-> Lin(SlimSeq(U, H, W)[k], W)]
NativeSrc(U, H, W) == [k \in 1 .. H*W |-> IF CellOf(k-1, W) \in U THEN k-1 ELSE Zero]

\* conversions acting on source maps (what "to native" / "to slim" mean)
Scatter(slim, U, H, W) ==
    [k \in 1 .. H*W |-> IF CellOf(k-1, W) \in U THEN slim[Rank(CellOf(k-1, W), U, W)] ELSE Zero]
Gather(native, U, H, W) ==
    [k \in 1 .. Cardinality(U) |-> native[Lin(SlimSeq(U, H, W)[k], W) + 1]]

\* index tables published by a mask
NativeForSlim(U, H, W) == SlimSeq(U, H, W)                       \* seq of <<i,j>>
UnmaskedSlim(U, H, W) == SlimSrc(U, H, W)                         \* ascending linear indices
MaskedSlim(U, H, W) ==
    LET s == SelectSeq(RowMajor(H, W), LAMBDA c : c \notin U)
    IN [k \in 1 .. Len(s) |-> Lin(s[k], W)]

-----------------------------------------------------------------------------
(* C10: derived pixel sets *)

Nbr8(c) == { <<c[1] + a, c[2] + b>> : a \in {-1, 0, 1}, b \in {-1, 0, 1} } \ {c}

\* pixels that MUST be reported as edge: unmasked with a masked in-array neighbour
EdgeMust(U, H, W) == { p \in U : \E n \in Nbr8(p) : InFrame(n, H, W) /\ n \notin U }
\* pixels that MAY be reported: everything except pixels whose 8 neighbours all exist and are unmasked
EdgeMay(U, H, W) == { p \in U : ~ (\A n \in Nbr8(p) : InFrame(n, H, W) /\ n \in U) }
ValidEdge(E, U, H, W) == EdgeMust(U, H, W) \subseteq E /\ E \subseteq EdgeMay(U, H, W)

\* a straight walk from p to the array boundary in one of the four axis directions meets only masked pixels
FreeUp(p, U)       == \A i \in 0 .. p[1]-1 : <<i, p[2]>> \notin U
FreeDown(p, U, H)  == \A i \in p[1]+1 .. H-1 : <<i, p[2]>> \notin U
FreeLeft(p, U)     == \A j \in 0 .. p[2]-1 : <<p[1], j>> \notin U
FreeRight(p, U, W) == \A j \in p[2]+1 .. W-1 : <<p[1], j>> \notin U
FreeWalk(p, U, H, W) == FreeUp(p, U) \/ FreeDown(p, U, H) \/ FreeLeft(p, U) \/ FreeRight(p, U, W)
BorderOf(E, U, H, W) == { p \in E : FreeWalk(p, U, H, W) }

\* blurring set for an odd kernel kh x kw; "ERR" iff the footprint of some unmasked pixel leaves the array
Foot(p, kh, kw) == { <<p[1] + a, p[2] + b>> : a \in -(kh \div 2) .. (kh \div 2), b \in -(kw \div 2) .. (kw \div 2) }
FootLeaves(U, H, W, kh, kw) == \E p \in U : \E c \in Foot(p, kh, kw) : ~ InFrame(c, H, W)
Blurring(U, H, W, kh, kw) ==
    { c \in Cells(H, W) \ U : \E p \in U : c \in Foot(p, kh, kw) }

\* buffed mask (every cell within `b` of an unmasked cell becomes unmasked, clipped to the frame)
Buffed(U, H, W, b) == { c \in Cells(H, W) : \E p \in U : c \in Foot(p, 2*b+1, 2*b+1) }

\* views of a pixel set S \subseteq U
SetSlim(S, U, H, W) == LET s == SelectSeq(SlimSeq(U, H, W), LAMBDA c : c \in S)
                       IN [k \in 1 .. Len(s) |-> Rank(s[k], U, W) - 1]
SetLin(S, W) == { Lin(c, W) : c \in S }

-----------------------------------------------------------------------------
(* Layer 2: the bounded machine.  Init picks a shape and a mask; Observe    *)
(* computes everything a user can read from the mask (one atomic step,     *)
(* since PyAutoArray is sequential and these queries are pure).            *)

VARIABLES shape, U, phase, obs
vars == << shape, U, phase, obs >>

Init == /\ shape \in Shapes
        /\ U \in (SUBSET Cells(shape[1], shape[2])) \ {{}}
        /\ phase = "mask"
        /\ obs = << >>

Observation(u, H, W) ==
    [ slim   |-> SlimSrc(u, H, W),
      native |-> NativeSrc(u, H, W),
      nfs    |-> NativeForSlim(u, H, W),
      uslim  |-> UnmaskedSlim(u, H, W),
      mslim  |-> MaskedSlim(u, H, W),
      emust  |-> EdgeMust(u, H, W),
      emay   |-> EdgeMay(u, H, W) ]

Observe == /\ phase = "mask"
           /\ phase' = "observed"
           /\ obs' = Observation(U, shape[1], shape[2])
           /\ PrintT(ToJson([k |-> "inst", h |-> shape[1], w |-> shape[2],
                             u |-> SlimSrc(U, shape[1], shape[2])]))
           /\ UNCHANGED << shape, U >>

Next == Observe
Spec == Init /\ [][Next]_vars

-----------------------------------------------------------------------------
(* Layer 3: properties of the design, checked by TLC on every mask *)

Seen == phase = "observed"
HH == shape[1]
WW == shape[2]

\* slim -> native -> slim is the identity
RoundTripSlim == Seen => Gather(Scatter(obs.slim, U, HH, WW), U, HH, WW) = obs.slim
\* native -> slim -> native zeroes the masked cells and keeps the rest (on an arbitrary full-frame content)
RoundTripNative ==
    Seen => LET full == [k \in 1 .. HH*WW |-> k-1]
            IN Scatter(Gather(full, U, HH, WW), U, HH, WW) = obs.native
\* the two formulations of the slim order agree; native_for_slim inverts Rank
IndexTablesBijective ==
    Seen => /\ Len(obs.nfs) = Cardinality(U)
            /\ \A k \in 1 .. Len(obs.nfs) : obs.nfs[k] \in U /\ Rank(obs.nfs[k], U, WW) = k
            /\ \A k \in 1 .. Len(obs.slim) - 1 : obs.slim[k] < obs.slim[k+1]
\* unmasked and masked lists partition 0..HW-1, both ascending
Partition ==
    Seen => /\ ToSet(obs.uslim) \cup ToSet(obs.mslim) = 0 .. HH*WW - 1
            /\ ToSet(obs.uslim) \cap ToSet(obs.mslim) = {}
            /\ Len(obs.uslim) + Len(obs.mslim) = HH * WW
            /\ \A k \in 1 .. Len(obs.mslim) - 1 : obs.mslim[k] < obs.mslim[k+1]
\* the two-sided edge specification is consistent and non-trivially two-sided only on the outer ring
EdgeSandwich ==
    Seen => /\ obs.emust \subseteq obs.emay
            /\ \A p \in obs.emay \ obs.emust : p[1] = 0 \/ p[2] = 0 \/ p[1] = HH-1 \/ p[2] = WW-1
\* every border pixel relative to a valid edge set is an edge pixel; the border of a non-empty mask is non-empty
BorderNonEmpty ==
    Seen => BorderOf(obs.emust, U, HH, WW) # {} \/ obs.emust = {}
\* blurring pixels are masked, lie in the frame and vanish for a 1x1 kernel
BlurringSane ==
    Seen => \A ks \in KernelShapes :
               /\ Blurring(U, HH, WW, ks[1], ks[2]) \cap U = {}
               /\ (ks = <<1, 1>> => Blurring(U, HH, WW, 1, 1) = {} /\ ~ FootLeaves(U, HH, WW, 1, 1))
               /\ (FootLeaves(U, HH, WW, ks[1], ks[2]) <=>
                     \E p \in U : \/ p[1] < ks[1] \div 2 \/ p[1] > HH - 1 - ks[1] \div 2
                                  \/ p[2] < ks[2] \div 2 \/ p[2] > WW - 1 - ks[2] \div 2)
\* edge-buffed by 0 is the mask itself; blurring with a (2b+1)^2 kernel is Buffed minus U
BuffedIsDilation ==
    Seen => /\ Buffed(U, HH, WW, 0) = U
            /\ Buffed(U, HH, WW, 1) \ U = Blurring(U, HH, WW, 3, 3)
=============================================================================
