--------------------------- MODULE Trace_Preloads ---------------------------
(***************************************************************************)
(* Validation of recorded histories (one shared Preloads object, several   *)
(* successive inversions, reads in any order) against Preloads.tla.        *)
(* A Read record carries the alpha-abstraction of the value returned by    *)
(* the real inversion: k = multiplicity such that value = fresh + k*H for  *)
(* curvature-like quantities, 0 = equal to the fresh computation, -99 =    *)
(* neither; pre_k / pre_ok = the same abstraction of the preloaded         *)
(* buffers after the read; cached = cached curvature names observed.       *)
(***************************************************************************)
EXTENDS Preloads, IOUtils

Trace == JsonDeserialize(IOEnv.TRACE_FILE)
VARIABLE i

Cl(nm, ok) == IF ok THEN << >> ELSE << nm >>
ToSetS(s) == { s[k] : k \in DOMAIN s }

Sig(r) == r.q \o ":" \o r.formalism \o ":" \o (IF r.single THEN "single-object" ELSE "several-objects")
          \o ":run" \o (IF run <= 1 THEN "1" ELSE "N")

TraceInit == /\ i = 1 /\ filled = {} /\ preK = 0 /\ run = 0 /\ cache = NoCache /\ alias = FALSE /\ nreads = 0
             /\ out = [q |-> "none", k |-> 0] /\ hist = << >>

StepPreloads(r) ==
  /\ filled' = ToSetS(r.filled) /\ preK' = 0 /\ run' = 0 /\ cache' = NoCache /\ alias' = FALSE /\ nreads' = 0
  /\ out' = [q |-> "none", k |-> 0] /\ UNCHANGED hist

StepNew(r) ==
  /\ run' = run + 1 /\ cache' = NoCache /\ alias' = FALSE /\ nreads' = 0 /\ out' = [q |-> "new", k |-> 0]
  /\ UNCHANGED << filled, preK, hist >>

\* the model step is the module's own Read, with the bounds lifted; then the logged observation is judged
StepRead(r) ==
  /\ CASE r.q = "curvature_matrix" -> ReadCurvature
       [] r.q \in {"curvature_reg_matrix", "reconstruction", "mapped_reconstructed_data", "regularization_term",
                   "log_det_curvature_reg_matrix_term"} -> ReadNeedsReg(r.q)
       [] OTHER -> ReadPlain(r.q)
  /\ nreads' = nreads + 1
  /\ UNCHANGED << filled, run, hist >>
  /\ LET bad == Cl("output-equals-fresh-computation", r.k = 0)
                \o Cl("preloaded-curvature-matrix-unchanged", r.pre_k = 0)
                \o Cl("other-preloaded-buffers-unchanged", r.pre_ok)
                \o Cl("no-exception", ~ r.raised)
     IN IF bad = << >> THEN TRUE
        ELSE PrintT(ToJson([k |-> "reject", i |-> i, id |-> r.id, clauses |-> bad, sig |-> Sig(r),
                            want |-> [model_k |-> out'.k, model_preK |-> preK']]))
  /\ \* model drift (informational): the model's view of the cached curvature buffers vs the observed __dict__
     LET mc == DOMAIN cache' \cap {"curvature_matrix", "curvature_reg_matrix"}
     IN IF mc = ToSetS(r.cached) THEN TRUE
        ELSE PrintT(ToJson([k |-> "drift", i |-> i, id |-> r.id, model |-> mc, observed |-> r.cached]))

TraceNext ==
  /\ i <= Len(Trace)
  /\ LET r == Trace[i] IN
       CASE r.a = "Preloads" -> StepPreloads(r)
         [] r.a = "NewInversion" -> StepNew(r)
         [] OTHER -> StepRead(r)
  /\ i' = i + 1

TraceSpec == TraceInit /\ [][TraceNext]_<< vars, i >>
TraceAccepted == TLCGet("stats").diameter - 1 = Len(Trace)
=============================================================================
