--------------------------- MODULE Trace_Preloads ---------------------------
(***************************************************************************)
(* Validation of recorded histories (one shared Preloads object, several   *)
(* successive inversions, reads in any order) against Preloads.tla.        *)
(* A Preloads record carries the filled slots and the make-up of the       *)
(* inversions (formalism, numbers of mappers / function lists, own         *)
(* operated matrices), whether the reference inversion delivered the       *)
(* contents (raised) and which filled slots got content (present).         *)
(* A Read record carries the alpha-abstraction of the value returned by    *)
(* the real inversion: k = multiplicity such that value = fresh + k*H for  *)
(* curvature-like quantities, 0 = equal to the fresh computation, -99 =    *)
(* neither; pre_k / pre_ok = the same abstraction of the preloaded primary *)
(* buffers after the read; sec_changed = secondary slots whose buffers     *)
(* (arrays, values of dictionaries) changed during this read; cached =     *)
(* cached curvature names observed.                                        *)
(***************************************************************************)
EXTENDS Preloads, IOUtils

Trace == JsonDeserialize(IOEnv.TRACE_FILE)
VARIABLES i,      \* index of the next record
          seen    \* secondary slots whose buffers were OBSERVED to change since the Preloads record

Cl(nm, ok) == IF ok THEN << >> ELSE << nm >>
ToSetS(s) == { s[k] : k \in DOMAIN s }

RECURSIVE JoinSec(_, _)
JoinSec(S, j) == IF j > Len(SecondarySeq) THEN ""
                 ELSE (IF SecondarySeq[j] \in S THEN "+" \o SecondarySeq[j] ELSE "") \o JoinSec(S, j + 1)

MakeUpClass(m) == IF Single(m) THEN "single-object" ELSE "several-objects"

\* input class of a rejected read: quantity, formalism, one / several objects, first / later run, and the secondary slots that
\* flow into the quantity for this make-up (nothing is appended when none does: the signatures of the primary slots are unchanged)
Sig(r) == LET via == Feeds(r.q, mk, EF) \cap SecondarySlots
          IN r.q \o ":" \o r.formalism \o ":" \o MakeUpClass(mk) \o ":run" \o (IF run <= 1 THEN "1" ELSE "N")
             \o (IF via = {} THEN "" ELSE ":via" \o JoinSec(via, 1))

\* a secondary buffer changed.  The code-shaped formulation (CopySecondary = FALSE) says where the pinned code writes the parts of
\* the other linear objects next to a preloaded array: the specific signature is given only when the observation is exactly that
\* (first write into that buffer, by a read that embeds, value still right); anything else keeps a generic signature.
SecSig(r, s) ==
  IF s \in Embeds(r.q, mk, EF) /\ s \notin seen /\ WT(mk) /\ r.k = 0
  THEN "in-place-embedding:" \o s \o ":w_tilde:" \o (IF mk.nf > 0 THEN "function-lists-present" ELSE "several-mappers")
  ELSE "buffer-changed:" \o s \o ":" \o Sig(r)

TraceInit == /\ i = 1 /\ seen = {} /\ filled = {} /\ mk = [f |-> "mapping", nm |-> 1, nf |-> 0, ov |-> FALSE] /\ preK = 0 /\ dirty = {}
             /\ run = 0 /\ cache = NoCache /\ alias = FALSE /\ nreads = 0
             /\ out = [q |-> "none", k |-> 0] /\ hist = << >>

StepPreloads(r) ==
  /\ filled' = ToSetS(r.filled) /\ mk' = [f |-> r.mk.f, nm |-> r.mk.nm, nf |-> r.mk.nf, ov |-> r.mk.ov]
  /\ preK' = 0 /\ dirty' = {} /\ run' = 0 /\ cache' = NoCache /\ alias' = FALSE /\ nreads' = 0
  /\ out' = [q |-> "none", k |-> 0] /\ seen' = {} /\ UNCHANGED hist
  /\ LET bad == Cl("known-slots-and-make-up", ToSetS(r.filled) \subseteq AllSlots /\ mk' \in AllMakeUps)
                \o Cl("reference-inversion-delivers-the-slot-contents", ~ r.raised)
     IN IF bad = << >> THEN TRUE
        ELSE PrintT(ToJson([k |-> "reject", i |-> i, id |-> r.id, clauses |-> bad,
                            sig |-> "fill:" \o r.ref \o "-reference:" \o MakeUpClass(mk') \o ":"
                                    \o (IF mk'.nf > 0 /\ mk'.nm > 0 THEN "mappers-and-function-lists"
                                        ELSE IF mk'.nm > 0 THEN "mappers-only" ELSE "function-lists-only"),
                            want |-> [present |-> Eff(filled', mk')]]))
  /\ \* model drift (informational): which filled slots got content from the reference inversion
     IF r.raised \/ ToSetS(r.present) = Eff(filled', mk') THEN TRUE
     ELSE PrintT(ToJson([k |-> "drift", i |-> i, id |-> r.id, model |-> Eff(filled', mk'), observed |-> r.present]))

StepNew(r) ==
  /\ run' = run + 1 /\ cache' = NoCache /\ alias' = FALSE /\ nreads' = 0 /\ out' = [q |-> "new", k |-> 0]
  /\ UNCHANGED << filled, mk, preK, dirty, hist, seen >>

\* the model step is the module's own read, with the bounds lifted; then the logged observation is judged
StepRead(r) ==
  /\ CASE r.q = "curvature_matrix" -> ReadCurvature
       [] r.q \in RegQs -> ReadNeedsReg(r.q)
       [] r.q = "data_vector" -> ReadDataVector
       [] OTHER -> ReadPlain(r.q)
  /\ nreads' = nreads + 1 /\ seen' = seen \cup ToSetS(r.sec_changed)
  /\ UNCHANGED << filled, mk, run, hist >>
  /\ LET bad == Cl("output-equals-fresh-computation", r.k = 0)
                \o Cl("preloaded-curvature-matrix-unchanged", r.pre_k = 0)
                \o Cl("other-preloaded-buffers-unchanged", r.pre_ok)
                \o Cl("no-exception", ~ r.raised)
     IN IF bad = << >> THEN TRUE
        ELSE PrintT(ToJson([k |-> "reject", i |-> i, id |-> r.id, clauses |-> bad, sig |-> Sig(r),
                            want |-> [model_k |-> out'.k, model_preK |-> preK']]))
  /\ \* one verdict per secondary slot whose buffer changed (a known finding on one slot cannot hide another slot)
     \A s \in ToSetS(r.sec_changed) :
        PrintT(ToJson([k |-> "reject", i |-> i, id |-> r.id, clauses |-> << "secondary-preloaded-buffers-unchanged" >>,
                       sig |-> SecSig(r, s), slot |-> s, want |-> [changed_before |-> seen]]))
  /\ \* model drift (informational): the model's view of the cached curvature buffers vs the observed __dict__
     LET mc == DOMAIN cache' \cap {"curvature_matrix", "curvature_reg_matrix"}
     IN IF mc = ToSetS(r.cached) THEN TRUE
        ELSE PrintT(ToJson([k |-> "drift", i |-> i, id |-> r.id, model |-> mc, observed |-> r.cached]))

TraceNext ==
  /\ i <= Len(Trace)
  /\ LET r == Trace[i] IN
       CASE r.a = "Preloads" -> StepPreloads(r)
         [] r.a = "NewInversion" -> StepNew(r)
         [] OTHER -> StepRead(r)
  /\ i' = i + 1

TraceSpec == TraceInit /\ [][TraceNext]_<< vars, i, seen >>
TraceAccepted == TLCGet("stats").diameter - 1 = Len(Trace)
=============================================================================
