----------------------------- MODULE Trace_Nnls -----------------------------
(***************************************************************************)
(* Validation of recorded solver / inversion results against the           *)
(* optimality certificates of Nnls.tla, in fixed point with a rigorous     *)
(* rounding bound.                                                         *)
(*                                                                         *)
(* A record carries  a = round(A*alpha),  beta = round(b*alpha),           *)
(* sigma = round(s*gamma)  (all |values| < 2^31 / n, guaranteed by the      *)
(* driver and re-checked here).  With  G_i = SUM_j a_ij*sigma_j            *)
(* - beta_i*gamma  (the gradient (As-b)_i in units 1/(alpha*gamma)):       *)
(*   |G_i - alpha*gamma*g_i| <= SUM_j|a_ij|/2 + 1   when a, beta are exact *)
(*   (+ (SUM_j|sigma_j| + n)/2 + gamma/2 + 1 when they are rounded too)    *)
(* plus a declared relative slack 1e-8*max|beta|*gamma for the floating    *)
(* point solver itself ("to numerical precision").                         *)
(***************************************************************************)
EXTENDS Nnls, IOUtils

Trace == JsonDeserialize(IOEnv.TRACE_FILE)
VARIABLE i

SumSeq(f) == FoldFunctionOnSet(LAMBDA x, acc : acc + x, 0, f, DOMAIN f)
AbsSeq(f) == [k \in DOMAIN f |-> Abs(f[k])]
MaxAbs(f) == IF DOMAIN f = {} THEN 0 ELSE Max({Abs(f[k]) : k \in DOMAIN f})

Grad(r, k) == SumSeq([j \in 1 .. r.n |-> r.a[k][j] * r.sigma[j]]) - r.beta[k] * r.gamma
\* r.exact: A and b are integers times alpha exactly (no rounding of a, beta), only sigma is rounded
Tol(r, k) == SumSeq(AbsSeq(r.a[k])) \div 2 + 1
             + (IF r.exact THEN 0 ELSE (SumSeq(AbsSeq(r.sigma)) + r.n) \div 2 + r.gamma \div 2 + 1)
             + (MaxAbs(r.beta) * (r.gamma \div 1000)) \div 100000 + 1

WellFormed(r) == /\ Len(r.a) = r.n /\ Len(r.beta) = r.n /\ Len(r.sigma) = r.n
                 /\ \A k \in 1 .. r.n : Len(r.a[k]) = r.n
Forced(r) == IF "zeros" \in DOMAIN r THEN { r.zeros[k] : k \in DOMAIN r.zeros } ELSE {}

Cl(nm, ok) == IF ok THEN << >> ELSE << nm >>

Clauses(r) ==
  IF r.raised
  THEN Cl("no-exception-on-positive-definite-system", ~ r.spd)
  ELSE IF r.api # "mapped" /\ ~ WellFormed(r) THEN << "malformed-result" >>
  ELSE CASE r.api = "solve" ->
              Cl("unconstrained-solves-normal-equations", \A k \in 1 .. r.n : Abs(Grad(r, k)) <= Tol(r, k))
         [] r.api \in {"nnls", "forced"} ->
              LET Z == Forced(r) IN
              Cl("non-negative", \A k \in 1 .. r.n : r.sigma[k] >= 0)
              \o Cl("forced-parameters-are-zero", \A k \in Z : r.sigma[k] = 0 /\ r.exact_zero[k])
              \o Cl("gradient-vanishes-on-positive-entries",
                    \A k \in (1 .. r.n) \ Z : r.sigma[k] > 0 => Abs(Grad(r, k)) <= Tol(r, k))
              \o Cl("gradient-non-negative-on-zero-entries",
                    \A k \in (1 .. r.n) \ Z : r.sigma[k] = 0 => Grad(r, k) >= - Tol(r, k))
              \o Cl("equals-the-unique-optimum-computed-by-the-specification",
                    "opt" \in DOMAIN r => \A k \in 1 .. r.n : Abs(r.sigma[k] - r.opt[k]) <= 2 + r.gamma \div 10000000)
         [] r.api = "mapped" ->
              \* per-object model data: m_o[k]*gamma = SUM_j B_o[k][j]*sigma_o[j]; objects sum to the total
              \* bm = round(B_o*alphaB), sigma = round(s_o*gamma), m = round(m_o*alphaB*gamma): rounding bound below
              Cl("per-object-model-data-is-B-times-s",
                 \A o \in DOMAIN r.objs :
                    \A k \in DOMAIN r.objs[o].m :
                       Abs(SumSeq([j \in DOMAIN r.objs[o].sigma |-> r.objs[o].bm[k][j] * r.objs[o].sigma[j]])
                           - r.objs[o].m[k])
                         <= (SumSeq(AbsSeq(r.objs[o].bm[k])) + SumSeq(AbsSeq(r.objs[o].sigma))) \div 2 + 2
                            + Abs(r.objs[o].m[k]) \div 10000000)
              \o Cl("objects-sum-to-total",
                    \A k \in DOMAIN r.total :
                       Abs(SumSeq([o \in DOMAIN r.objs |-> r.objs[o].m[k]]) - r.total[k])
                         <= Len(r.objs) + 1 + Abs(r.total[k]) \div 10000000)
         [] OTHER -> << "unknown-api" >>

\* signature: solver variant and whether the unconstrained solution has a non-positive entry (what the warm start guesses from)
Sig(r) == r.api \o ":" \o r.variant \o (IF r.unc_has_nonpositive THEN ":unconstrained-has-nonpositive" ELSE ":unconstrained-positive")

TraceInit == /\ i = 1 /\ inst = 1 /\ warm = FALSE /\ P = {} /\ order = << >> /\ curP = {}
             /\ d = << >> /\ s = << >> /\ w = << >> /\ pc = "trace" /\ noUpd = 0 /\ steps = 0

TraceNext ==
  /\ i <= Len(Trace)
  /\ LET r == Trace[i]
         f == Clauses(r)
     IN IF f = << >> THEN TRUE
        ELSE PrintT(ToJson([k |-> "reject", i |-> i, id |-> r.id, clauses |-> f, sig |-> Sig(r),
                            want |-> IF r.raised \/ r.api = "mapped" \/ ~ WellFormed(r) THEN << >>
                                     ELSE [grad |-> [k \in 1 .. r.n |-> Grad(r, k)], tol |-> [k \in 1 .. r.n |-> Tol(r, k)]]]))
  /\ i' = i + 1
  /\ UNCHANGED vars

TraceSpec == TraceInit /\ [][TraceNext]_<< vars, i >>
TraceAccepted == TLCGet("stats").diameter - 1 = Len(Trace)
=============================================================================
