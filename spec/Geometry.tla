------------------------------ MODULE Geometry ------------------------------
(***************************************************************************)
(* Pixel <-> scaled-coordinate geometry of PyAutoArray (C02): pixel        *)
(* centres, extents, the index of the pixel containing a coordinate, the   *)
(* flattened index, continuous pixel coordinates, the 1D counterparts and  *)
(* the five shape-based mask constructors.                                 *)
(*                                                                         *)
(* Everything is an integer number of HALF-TICKS u.  Pixel scales are      *)
(* multiples of 4u, origins multiples of 2u: pixel centres and pixel       *)
(* boundaries are then even, and a query coordinate is an ODD multiple of  *)
(* u, hence never on a pixel boundary (the statement's own exclusion of a  *)
(* band around boundaries, without any tolerance).  A radius is given by   *)
(* the odd integer R2 = 2 r^2 (in u^2): r^2 is a half-integer, so no pixel *)
(* centre is ever at distance exactly r (the excluded band around radii).  *)
(*                                                                         *)
(* A geometry is the record g = [h, w, sy, sx, oy, ox].  Layer 1 takes it  *)
(* as a parameter so that the bounded machine and the trace specification  *)
(* (whose records carry their own geometry) share the same operators.      *)
(***************************************************************************)
EXTENDS Integers, Sequences, FiniteSets, TLC, Json, SequencesExt, FiniteSetsExt

CONSTANTS Shapes,         \* set of <<H,W>> of the 2D geometry family
          Scales,         \* set of pixel scales (multiples of 4), chosen independently per axis
          Origins,        \* set of origin components (multiples of 2), chosen independently per axis
          Sizes1D,        \* set of W of the 1D family (scales and origins as above)
          MaskShapes,     \* set of <<H,W>> for the shape-based constructors
          MaskScalePairs, \* set of <<sy,sx>> for the constructors
          MaskCentres,    \* set of <<cy,cx>> requested centres (any integers, relative to the mask origin)
          FixedR2,        \* set of odd integers: generic radii (R2 = 2 r^2) for the second/third radius
          AxisRatios,     \* set of <<qn,qd>>: axis ratio qn/qd (minor/major), qn odd
          Rotations,      \* set of <<c,s,n>>: rotation by the angle with cos = c/n, sin = s/n (n odd)
          EllPairs,       \* set of << <<qn,qd,c,s,n>>, <<qn,qd,c,s,n>> >> (inner, outer) for elliptical-annular
          Kinds           \* subset of {"circular","annular","anti_annular","elliptical","elliptical_annular"}

-----------------------------------------------------------------------------
(* Layer 1: meaning (from the property statement and the documentation) *)

FloorDiv(a, b) == a \div b    \* b > 0.  TLA+'s \div rounds towards minus infinity: (-7) \div 2 = -4
TruncDiv(a, b) == IF a >= 0 THEN a \div b ELSE -((-a) \div b)   \* Python's int(): towards zero
Sq(a) == a * a

Geo(h, w, sy, sx, oy, ox) == [h |-> h, w |-> w, sy |-> sy, sx |-> sx, oy |-> oy, ox |-> ox]
WellFormed(g) == /\ g.h >= 1 /\ g.w >= 1
                 /\ g.sy > 0 /\ g.sx > 0 /\ g.sy % 4 = 0 /\ g.sx % 4 = 0
                 /\ g.oy % 2 = 0 /\ g.ox % 2 = 0

Cells(g) == (0 .. g.h - 1) \X (0 .. g.w - 1)
RowMajor(g) == [k \in 1 .. g.h * g.w |-> << (k-1) \div g.w, (k-1) % g.w >>]

\* "pixel (i,j) has centre y = origin_y + ((H-1)/2 - i) s_y,  x = origin_x + (j - (W-1)/2) s_x"
CentreY(g, i) == g.oy + (g.h - 1 - 2*i) * (g.sy \div 2)
CentreX(g, j) == g.ox + (2*j - g.w + 1) * (g.sx \div 2)
Centre(g, c) == << CentreY(g, c[1]), CentreX(g, c[2]) >>

\* the square of pixel c: centre +- half a pixel scale on each axis
SqYlo(g, c) == CentreY(g, c[1]) - g.sy \div 2
SqYhi(g, c) == CentreY(g, c[1]) + g.sy \div 2
SqXlo(g, c) == CentreX(g, c[2]) - g.sx \div 2
SqXhi(g, c) == CentreX(g, c[2]) + g.sx \div 2
InSquare(g, c, q) == /\ SqYlo(g, c) < q[1] /\ q[1] < SqYhi(g, c)
                     /\ SqXlo(g, c) < q[2] /\ q[2] < SqXhi(g, c)

\* "the reported extent is exactly the union of the pixel squares"; reported as (x_min, x_max, y_min, y_max)
Top(g)    == g.oy + g.h * (g.sy \div 2)
Bottom(g) == g.oy - g.h * (g.sy \div 2)
Left(g)   == g.ox - g.w * (g.sx \div 2)
Right(g)  == g.ox + g.w * (g.sx \div 2)
Extent(g) == << Left(g), Right(g), Bottom(g), Top(g) >>
InExtent(g, q) == Bottom(g) < q[1] /\ q[1] < Top(g) /\ Left(g) < q[2] /\ q[2] < Right(g)

\* "every coordinate inside that extent converts to the index of the pixel whose square contains it,
\*  with flattened index i*W + j"
IndexOf(g, q) == << FloorDiv(Top(g) - q[1], g.sy), FloorDiv(q[2] - Left(g), g.sx) >>
Flat(g, c) == c[1] * g.w + c[2]
CellOfFlat(g, k) == << k \div g.w, k % g.w >>

\* Continuous pixel coordinates.  The statement pins only that the conversion and its inverse compose to the
\* identity; the model's own pair is the natural one (numerators over the pixel scale, measured from the
\* top-left corner of the extent so that the integer part is the pixel index).
PixNum(g, q) == << Top(g) - q[1], q[2] - Left(g) >>          \* pixel coordinate = << PixNum[1]/sy, PixNum[2]/sx >>
ScaledOfPixNum(g, p) == << Top(g) - p[1], Left(g) + p[2] >>

\* query points: odd multiples of u strictly inside the extent
OddIn(lo, hi) == { v \in lo + 1 .. hi - 1 : v % 2 = 1 }
OddPoints(g) == OddIn(Bottom(g), Top(g)) \X OddIn(Left(g), Right(g))
\* a small family that still visits every odd y and every odd x (two diagonals wrapped around)
DiagQueries(g) ==
    LET ny == g.h * (g.sy \div 2)
        nx == g.w * (g.sx \div 2)
        n  == IF ny > nx THEN ny ELSE nx
    IN  { << Bottom(g) + 1 + 2 * (k % ny), Left(g) + 1 + 2 * (k % nx) >> : k \in 0 .. n - 1 }
        \cup { << Bottom(g) + 1 + 2 * (k % ny), Right(g) - 1 - 2 * (k % nx) >> : k \in 0 .. n - 1 }

\* the per-point calls of the bounded machine walk the first diagonal only
ActQueries(g) ==
    LET ny == g.h * (g.sy \div 2)
        nx == g.w * (g.sx \div 2)
        n  == IF ny > nx THEN ny ELSE nx
    IN  { << Bottom(g) + 1 + 2 * (k % ny), Left(g) + 1 + 2 * (k % nx) >> : k \in 0 .. n - 1 }

\* ---- the same answers formulated the way the code computes them (central pixel coordinate + int()) ----
\* index: int((-y + oy)/sy + (H-1)/2 + 0.5)  =  trunc( (2(oy - y) + H sy) / (2 sy) )
CodeIndexOf(g, q) == << TruncDiv(2 * (g.oy - q[1]) + g.h * g.sy, 2 * g.sy),
                        TruncDiv(2 * (q[2] - g.ox) + g.w * g.sx, 2 * g.sx) >>
\* centre: -(i - ((H-1)/2 + oy/sy)) sy ,  (j - ((W-1)/2 - ox/sx)) sx      (doubled to stay in integers)
CodeCentre2(g, c) == << -(2 * c[1] * g.sy - (g.h - 1) * g.sy - 2 * g.oy),
                        2 * c[2] * g.sx - (g.w - 1) * g.sx + 2 * g.ox >>

\* ---- 1D ----
Centre1(w, s, o, j) == o + (2*j - w + 1) * (s \div 2)
Extent1(w, s, o) == << o - w * (s \div 2), o + w * (s \div 2) >>

-----------------------------------------------------------------------------
(* Shape-based mask constructors.  Pixel centres are measured RELATIVE TO THE MASK ORIGIN (the origin given to  *)
(* the constructor only labels the returned mask), the requested centre ctr = <<cy,cx>> is in the same frame.   *)

Centre0(g, c) == << (g.h - 1 - 2*c[1]) * (g.sy \div 2), (2*c[2] - g.w + 1) * (g.sx \div 2) >>
Dy(g, c, ctr) == Centre0(g, c)[1] - ctr[1]
Dx(g, c, ctr) == Centre0(g, c)[2] - ctr[2]
D2(g, c, ctr) == Sq(Dy(g, c, ctr)) + Sq(Dx(g, c, ctr))

\* |centre - ctr|^2 <= r^2 with r^2 = R2/2; "Within" and "Beyond" are complementary because R2 is odd
Within(g, c, ctr, R2) == 2 * D2(g, c, ctr) <= R2
Beyond(g, c, ctr, R2) == 2 * D2(g, c, ctr) >= R2

\* Ellipse e = [qn, qd, c, s, n]: axis ratio q = qn/qd (minor/major), major axis rotated counter-clockwise from the
\* positive x-axis by the angle with cosine c/n and sine s/n (y increases upward).  Coordinates in the ellipse's
\* frame (times n): xr along the major axis, yr along the minor axis.  Elliptical radius^2 = (xr^2 + (yr/q)^2)/n^2.
EllXr(g, c, ctr, e) == Dx(g, c, ctr) * e.c + Dy(g, c, ctr) * e.s
EllYr(g, c, ctr, e) == Dy(g, c, ctr) * e.c - Dx(g, c, ctr) * e.s
EllNum(g, c, ctr, e) == Sq(e.qn) * Sq(EllXr(g, c, ctr, e)) + Sq(e.qd) * Sq(EllYr(g, c, ctr, e))
EllWithin(g, c, ctr, e, R2) == 2 * EllNum(g, c, ctr, e) <= R2 * Sq(e.n) * Sq(e.qn)
EllBeyond(g, c, ctr, e, R2) == 2 * EllNum(g, c, ctr, e) >= R2 * Sq(e.n) * Sq(e.qn)
EllOk(e) == e.qn % 2 = 1 /\ e.n % 2 = 1 /\ e.qn >= 1 /\ e.qd >= e.qn /\ Sq(e.c) + Sq(e.s) = Sq(e.n)

\* p = [kind, cy, cx, r (sequence of odd R2), e1, e2]
Unmasked(g, c, p) ==
    LET ctr == << p.cy, p.cx >>
        dy  == Dy(g, c, ctr)
        dx  == Dx(g, c, ctr)
        d2  == 2 * (Sq(dy) + Sq(dx))                                            \* = 2 D2(g, c, ctr)
        en(e) == 2 * (Sq(e.qn) * Sq(dx * e.c + dy * e.s) + Sq(e.qd) * Sq(dy * e.c - dx * e.s))  \* = 2 EllNum
        lim(e, R2) == R2 * Sq(e.n) * Sq(e.qn)
    IN
    CASE p.kind = "circular"     -> d2 <= p.r[1]                                         \* Within
      [] p.kind = "annular"      -> d2 >= p.r[1] /\ d2 <= p.r[2]                         \* Beyond inner, Within outer
      [] p.kind = "anti_annular" -> d2 <= p.r[1] \/ (d2 >= p.r[2] /\ d2 <= p.r[3])
      [] p.kind = "elliptical"   -> en(p.e1) <= lim(p.e1, p.r[1])                        \* EllWithin
      [] p.kind = "elliptical_annular" -> en(p.e1) >= lim(p.e1, p.r[1]) /\ en(p.e2) <= lim(p.e2, p.r[2])
      [] OTHER -> FALSE
ShapeSet(g, p) == { c \in Cells(g) : Unmasked(g, c, p) }
SetLin(S, g) == { Flat(g, c) : c \in S }

\* the same sets formulated like the code: pixel-space centre (H-1)/2 - cy/sy, a y offset that increases DOWNWARD,
\* and the rotation applied as  theta = atan2(y_down, x) + angle.
CodeYs(g, c, ctr) == (2*c[1] - (g.h - 1)) * (g.sy \div 2) + ctr[1]      \* = -(Dy)
CodeXs(g, c, ctr) == (2*c[2] - (g.w - 1)) * (g.sx \div 2) - ctr[2]      \* = Dx
CodeEllNum(g, c, ctr, e) ==
    LET xe == CodeXs(g, c, ctr) * e.c - CodeYs(g, c, ctr) * e.s     \* r cos(theta + phi)
        ye == CodeYs(g, c, ctr) * e.c + CodeXs(g, c, ctr) * e.s     \* r sin(theta + phi)
    IN Sq(e.qn) * Sq(xe) + Sq(e.qd) * Sq(ye)
CodeUnmasked(g, c, p) ==
    LET ctr == << p.cy, p.cx >>
        d2  == 2 * (Sq(CodeYs(g, c, ctr)) + Sq(CodeXs(g, c, ctr)))
        en(e) == 2 * CodeEllNum(g, c, ctr, e)
        lim(e, R2) == R2 * Sq(e.n) * Sq(e.qn)
    IN CASE p.kind = "circular"     -> d2 <= p.r[1]
         [] p.kind = "annular"      -> p.r[2] >= d2 /\ d2 >= p.r[1]
         [] p.kind = "anti_annular" -> p.r[1] >= d2 \/ (p.r[3] >= d2 /\ d2 >= p.r[2])
         [] p.kind = "elliptical"   -> en(p.e1) <= lim(p.e1, p.r[1])
         [] p.kind = "elliptical_annular" -> en(p.e1) >= lim(p.e1, p.r[1]) /\ en(p.e2) <= lim(p.e2, p.r[2])
         [] OTHER -> FALSE

\* Radii that put a chosen pixel t just outside / just inside (the tightest test of every inequality):
\* the largest odd number below and the smallest odd number above the pixel's own 2 d^2 (never equal: it is even).
OddBelow(x) == IF x % 2 = 1 THEN x ELSE x - 1
TightCirc(g, ctr) == { r \in UNION { { 2 * D2(g, t, ctr) - 1, 2 * D2(g, t, ctr) + 1 } : t \in Cells(g) } : r >= 1 }
TightEll(g, ctr, e) ==
    LET k == Sq(e.n) * Sq(e.qn)
        lo(t) == OddBelow((2 * EllNum(g, t, ctr, e)) \div k)
    IN { r \in UNION { { lo(t), lo(t) + 2 } : t \in Cells(g) } : r >= 1 }

NoEll == [qn |-> 1, qd |-> 1, c |-> 1, s |-> 0, n |-> 1]
EllOf(a, rot) == [qn |-> a[1], qd |-> a[2], c |-> rot[1], s |-> rot[2], n |-> rot[3]]
EllOf5(t) == [qn |-> t[1], qd |-> t[2], c |-> t[3], s |-> t[4], n |-> t[5]]
Par(kind, ctr, r, e1, e2) == [kind |-> kind, cy |-> ctr[1], cx |-> ctr[2], r |-> r, e1 |-> e1, e2 |-> e2]

\* the bounded family of constructor parameters for geometry g: one radius is tight around some pixel, the others
\* come from FixedR2; ParOk below keeps the ordered ones (inner < outer < outer_2)
Params(g) ==
    UNION { LET T == TightCirc(g, ctr) IN
        (IF "circular" \in Kinds THEN { Par("circular", ctr, << r >>, NoEll, NoEll) : r \in T } ELSE {})
        \cup (IF "annular" \in Kinds
              THEN { Par("annular", ctr, << a, b >>, NoEll, NoEll) : a \in T, b \in FixedR2 }
                   \cup { Par("annular", ctr, << a, b >>, NoEll, NoEll) : a \in FixedR2, b \in T }
              ELSE {})
        \cup (IF "anti_annular" \in Kinds
              THEN { Par("anti_annular", ctr, << a, b, c >>, NoEll, NoEll) : a \in T, b \in FixedR2, c \in FixedR2 }
                   \cup { Par("anti_annular", ctr, << a, b, c >>, NoEll, NoEll) : a \in FixedR2, b \in T, c \in FixedR2 }
                   \cup { Par("anti_annular", ctr, << a, b, c >>, NoEll, NoEll) : a \in FixedR2, b \in FixedR2, c \in T }
              ELSE {})
        \cup (IF "elliptical" \in Kinds
              THEN UNION { { Par("elliptical", ctr, << r >>, EllOf(a, rot), NoEll) : r \in TightEll(g, ctr, EllOf(a, rot)) }
                           : a \in AxisRatios, rot \in Rotations }
              ELSE {})
        \cup (IF "elliptical_annular" \in Kinds
              THEN UNION { LET e1 == EllOf5(ep[1])  e2 == EllOf5(ep[2]) IN
                           { Par("elliptical_annular", ctr, << a, b >>, e1, e2) : a \in TightEll(g, ctr, e1), b \in FixedR2 }
                           \cup { Par("elliptical_annular", ctr, << a, b >>, e1, e2) : a \in FixedR2, b \in TightEll(g, ctr, e2) }
                           : ep \in EllPairs }
              ELSE {})
      : ctr \in MaskCentres }
\* well-formed calls of the bounded family and of recorded traces: odd R2 (no pixel centre on a radius), radii in
\* increasing order (inner < outer < outer_2: the calls for which "annulus" / "anti-annulus" mean something)
ParOk(p) == /\ \A k \in DOMAIN p.r : p.r[k] % 2 = 1 /\ p.r[k] >= 1
            /\ (p.kind \in {"annular", "elliptical_annular"} => p.r[1] < p.r[2])
            /\ (p.kind = "anti_annular" => p.r[1] < p.r[2] /\ p.r[2] < p.r[3])
            /\ EllOk(p.e1) /\ EllOk(p.e2)

-----------------------------------------------------------------------------
(* Layer 2: the bounded machine.  Init chooses the input (a 2D geometry, a 1D geometry, or a constructor call);  *)
(* one action per public call.  Queries are pure, so every call is one atomic step from the constructed object. *)

VARIABLES mode,   \* "g2" | "g1" | "mask"
          g,      \* the geometry
          par,    \* constructor parameters (mode "mask"), << >> otherwise
          phase,  \* "new" | "seen" | name of the last per-point call
          obs     \* what the last call returned
vars == << mode, g, par, phase, obs >>

InitG2 == /\ mode = "g2"
          /\ g \in { Geo(sh[1], sh[2], sy, sx, oy, ox) : sh \in Shapes, sy \in Scales, sx \in Scales,
                                                          oy \in Origins, ox \in Origins }
          /\ par = << >>
InitG1 == /\ mode = "g1"
          /\ g \in { Geo(1, w, 4, s, 0, o) : w \in Sizes1D, s \in Scales, o \in Origins }
          /\ par = << >>
InitMask == /\ mode = "mask"
            /\ g \in { Geo(sh[1], sh[2], sc[1], sc[2], 0, 0) : sh \in MaskShapes, sc \in MaskScalePairs }
            /\ par \in { p \in Params(g) : ParOk(p) }
Init == /\ (InitG2 \/ InitG1 \/ InitMask)
        /\ phase = "new"
        /\ obs = << >>

\* Mask2D(...).geometry.extent, Grid2D.from_mask / Grid2D.uniform / derive_grid.all_false on the full frame
ObserveG2 ==
    /\ mode = "g2" /\ phase = "new"
    /\ phase' = "seen"
    /\ obs' = [ extent |-> Extent(g), centres |-> [k \in 1 .. g.h * g.w |-> Centre(g, RowMajor(g)[k])] ]
    /\ PrintT(ToJson([k |-> "inst", mode |-> "g2", g |-> g,
                      qs |-> SetToSeq(DiagQueries(g))]))
    /\ UNCHANGED << mode, g, par >>

\* geometry.pixel_coordinates_2d_from / grid_pixel_centres_2d_from / grid_pixel_indexes_2d_from at one coordinate
PixelOf(q) ==
    /\ mode = "g2" /\ phase = "seen"
    /\ phase' = "pixel"
    /\ obs' = [ q |-> q, cell |-> IndexOf(g, q), flat |-> Flat(g, IndexOf(g, q)) ]
    /\ UNCHANGED << mode, g, par >>

\* geometry.scaled_coordinates_2d_from at one pixel, then back through pixel_coordinates_2d_from
CentreOf(c) ==
    /\ mode = "g2" /\ phase = "seen"
    /\ phase' = "centre"
    /\ obs' = [ c |-> c, centre |-> Centre(g, c), back |-> IndexOf(g, Centre(g, c)) ]
    /\ UNCHANGED << mode, g, par >>

\* geometry.grid_pixels_2d_from followed by geometry.grid_scaled_2d_from
PixelsThenScaled(q) ==
    /\ mode = "g2" /\ phase = "seen"
    /\ phase' = "continuous"
    /\ obs' = [ q |-> q, pix |-> PixNum(g, q), back |-> ScaledOfPixNum(g, PixNum(g, q)) ]
    /\ UNCHANGED << mode, g, par >>

\* Mask1D.geometry.extent, Grid1D.from_mask
ObserveG1 ==
    /\ mode = "g1" /\ phase = "new"
    /\ phase' = "seen"
    /\ obs' = [ extent |-> Extent1(g.w, g.sx, g.ox),
                centres |-> [k \in 1 .. g.w |-> Centre1(g.w, g.sx, g.ox, k-1)] ]
    /\ PrintT(ToJson([k |-> "inst", mode |-> "g1", g |-> g]))
    /\ UNCHANGED << mode, g, par >>

\* Mask2D.circular / circular_annular / circular_anti_annular / elliptical / elliptical_annular
MakeMask ==
    /\ mode = "mask" /\ phase = "new"
    /\ phase' = "seen"
    /\ obs' = [ u |-> SetLin(ShapeSet(g, par), g),
                code |-> SetLin({ c \in Cells(g) : CodeUnmasked(g, c, par) }, g) ]
    /\ PrintT(ToJson([k |-> "inst", mode |-> "mask", g |-> g, par |-> par]))
    /\ UNCHANGED << mode, g, par >>

\* (the guards are repeated in front of the quantifiers so that TLC does not enumerate query sets in states where
\*  no per-point call is enabled)
Next == \/ ObserveG2 \/ ObserveG1 \/ MakeMask
        \/ /\ mode = "g2" /\ phase = "seen"
           /\ \/ \E q \in ActQueries(g) : PixelOf(q) \/ PixelsThenScaled(q)
              \/ \E c \in Cells(g) : CentreOf(c)
Spec == Init /\ [][Next]_vars

-----------------------------------------------------------------------------
(* Layer 3: properties of the design, checked by TLC on every instance *)

Seen2 == mode = "g2" /\ phase = "seen"

InputsWellFormed == WellFormed(g) /\ (mode = "mask" => ParOk(par))

\* converting a pixel centre to an index and back is the identity
CentreThenIndexIsIdentity ==
    /\ Seen2 => \A c \in Cells(g) : IndexOf(g, Centre(g, c)) = c /\ InSquare(g, c, Centre(g, c))
    /\ (mode = "g2" /\ phase = "centre") => obs.back = obs.c

\* every coordinate inside the extent converts to a pixel of the frame whose square contains it
IndexCellContainsPoint ==
    /\ Seen2 => \A q \in OddPoints(g) : IndexOf(g, q) \in Cells(g) /\ InSquare(g, IndexOf(g, q), q)
    /\ (mode = "g2" /\ phase = "pixel") => obs.cell \in Cells(g) /\ InSquare(g, obs.cell, obs.q) /\ InExtent(g, obs.q)

\* the continuous conversions compose to the identity, and the integer part of a continuous coordinate is the index
ContinuousRoundTrip ==
    /\ Seen2 => \A q \in OddPoints(g) :
                  LET p == PixNum(g, q) IN
                  /\ ScaledOfPixNum(g, p) = q
                  /\ PixNum(g, ScaledOfPixNum(g, p)) = p
                  /\ << FloorDiv(p[1], g.sy), FloorDiv(p[2], g.sx) >> = IndexOf(g, q)
    \* whole pixel coordinates <<i,j>> (in the model's own pair: the top-left corner of the pixel square) invert too
    /\ Seen2 => \A c \in Cells(g) :
                  LET p == << c[1] * g.sy, c[2] * g.sx >> IN
                  /\ ScaledOfPixNum(g, p) = << SqYhi(g, c), SqXlo(g, c) >>
                  /\ PixNum(g, ScaledOfPixNum(g, p)) = p
    /\ (mode = "g2" /\ phase = "continuous") => obs.back = obs.q

\* the extent is exactly the union of the pixel squares: squares lie inside it, are pairwise disjoint, touch all
\* four sides, and their areas add up to the area of the extent (so nothing of the extent is left uncovered)
ExtentIsUnionOfSquares ==
    Seen2 =>
      /\ \A c \in Cells(g) : /\ Bottom(g) <= SqYlo(g, c) /\ SqYhi(g, c) <= Top(g)
                             /\ Left(g) <= SqXlo(g, c) /\ SqXhi(g, c) <= Right(g)
                             /\ SqYhi(g, c) - SqYlo(g, c) = g.sy /\ SqXhi(g, c) - SqXlo(g, c) = g.sx
      /\ \A c \in Cells(g), d \in Cells(g) :
            c # d => \/ SqYhi(g, c) <= SqYlo(g, d) \/ SqYhi(g, d) <= SqYlo(g, c)
                     \/ SqXhi(g, c) <= SqXlo(g, d) \/ SqXhi(g, d) <= SqXlo(g, c)
      /\ SqYhi(g, <<0, 0>>) = Top(g) /\ SqYlo(g, <<g.h - 1, 0>>) = Bottom(g)
      /\ SqXlo(g, <<0, 0>>) = Left(g) /\ SqXhi(g, <<0, g.w - 1>>) = Right(g)
      /\ g.h * g.w * g.sy * g.sx = (Top(g) - Bottom(g)) * (Right(g) - Left(g))
      /\ obs.extent = << Left(g), Right(g), Bottom(g), Top(g) >>
      \* y decreases with the row index, x increases with the column index
      /\ \A c \in Cells(g) : /\ (c[1] > 0 => CentreY(g, c[1]) = CentreY(g, c[1] - 1) - g.sy)
                             /\ (c[2] > 0 => CentreX(g, c[2]) = CentreX(g, c[2] - 1) + g.sx)

\* the flattened index is the row-major bijection onto 0 .. HW-1
FlatIndex ==
    /\ Seen2 => /\ { Flat(g, c) : c \in Cells(g) } = 0 .. g.h * g.w - 1
                /\ \A c \in Cells(g) : CellOfFlat(g, Flat(g, c)) = c
                /\ \A k \in 1 .. g.h * g.w : Flat(g, RowMajor(g)[k]) = k - 1 /\ obs.centres[k] = Centre(g, CellOfFlat(g, k-1))
    /\ (mode = "g2" /\ phase = "pixel") => obs.flat = obs.cell[1] * g.w + obs.cell[2]

\* the formulation through the central pixel coordinate and int() (the code's) agrees with the definitions
CodeFormulationAgrees ==
    Seen2 => /\ \A q \in OddPoints(g) : CodeIndexOf(g, q) = IndexOf(g, q)
             /\ \A c \in Cells(g) : CodeCentre2(g, c) = << 2 * Centre(g, c)[1], 2 * Centre(g, c)[2] >>

\* 1D: centres are equally spaced by the pixel scale, symmetric about the origin, and the extent is their hull
\* widened by half a pixel
OneDConsistent ==
    (mode = "g1" /\ phase = "seen") =>
      /\ obs.extent[2] - obs.extent[1] = g.w * g.sx
      /\ obs.extent[1] + obs.extent[2] = 2 * g.ox
      /\ obs.centres[1] - g.sx \div 2 = obs.extent[1] /\ obs.centres[g.w] + g.sx \div 2 = obs.extent[2]
      /\ \A k \in 1 .. g.w - 1 : obs.centres[k+1] - obs.centres[k] = g.sx
      \* the 1D centres are the x-centres of the 2D geometry of one row
      /\ \A k \in 1 .. g.w : obs.centres[k] = CentreX(g, k - 1)

\* the constructors: the definition and the code-like formulation agree, and the five shapes are related as the
\* documentation says (annulus = disc minus smaller disc, anti-annulus = disc plus annulus, an ellipse of axis
\* ratio 1 is a disc whatever its rotation)
ShapeMaskIsRadialSet ==
    (mode = "mask" /\ phase = "seen") =>
      LET ctr == << par.cy, par.cx >>
          disc(R2) == { c \in Cells(g) : Within(g, c, ctr, R2) }
          S == ShapeSet(g, par)
          round(e) == [e EXCEPT !.qn = 1, !.qd = 1]
      IN /\ obs.u = obs.code
         /\ obs.u = SetLin(S, g)
         /\ \A c \in Cells(g) : Within(g, c, ctr, par.r[1]) = ~ Beyond(g, c, ctr, par.r[1])
         /\ (par.kind = "circular" => S = disc(par.r[1]))
         /\ (par.kind = "annular" => S = disc(par.r[2]) \ disc(par.r[1]))
         /\ (par.kind = "anti_annular" => S = disc(par.r[1]) \cup (disc(par.r[3]) \ disc(par.r[2])))
         /\ (par.kind = "elliptical" =>
               /\ S = { c \in Cells(g) : EllWithin(g, c, ctr, par.e1, par.r[1]) }
               /\ \A c \in Cells(g) : EllWithin(g, c, ctr, par.e1, par.r[1]) = ~ EllBeyond(g, c, ctr, par.e1, par.r[1])
               /\ S \subseteq disc(par.r[1])         \* inside the circle of the major-axis radius
               /\ ShapeSet(g, [par EXCEPT !.e1 = round(par.e1)]) = disc(par.r[1]))
         /\ (par.kind = "elliptical_annular" =>
               /\ S = { c \in Cells(g) : EllBeyond(g, c, ctr, par.e1, par.r[1]) /\ EllWithin(g, c, ctr, par.e2, par.r[2]) }
               /\ ShapeSet(g, [par EXCEPT !.e1 = round(par.e1), !.e2 = round(par.e2)]) = disc(par.r[2]) \ disc(par.r[1]))
=============================================================================
