--------------------------- MODULE Trace_FitVis ---------------------------
(***************************************************************************)
(* Validation of recorded executions of the real visibility containers,    *)
(* Interferometer datasets and interferometer fits against FitVis.tla      *)
(* (X04).  One record per object / call site; all values are integers:     *)
(* alpha has divided by the power-of-two scales chosen by gamma, noise-     *)
(* divided quantities are in Q units (2^-NE), VOff marks a value alpha      *)
(* could not put on its lattice.                                           *)
(*                                                                         *)
(*   container  one Visibilities / VisibilitiesNoiseMap object:            *)
(*       cls "data" | "noise", origin "constructed" (form: complex,        *)
(*       complex-list, pairs, pairs-list) | "derived" (op, mult, other:    *)
(*       arithmetic on the container built from `given`, whose summaries    *)
(*       had been read before), given, own = the numbers the object holds, *)
(*       inarray, ingrid, amp (x AmpScale), ph (x AngScale), maxima,       *)
(*       minima, slim (shape_slim), type_ok, intact (caller's array /      *)
(*       operand bit-identical afterwards), stable (second read identical) *)
(*   ordered    the same object: own, ordered (ordered_1d)                 *)
(*   weights    a noise-map object: own, weights (weight_list_ordered_1d   *)
(*       in units of 1/WeightUnit)                                         *)
(*   dataset    one Interferometer (TransformerDFT): h, w, u, org, b, d,   *)
(*       se; kd, knq, kb what it holds; uv_same, intact; snq, amp, ph;     *)
(*       dirty (+ native layout), dirtynoise, dirtysn                      *)
(*   fit        one FitInterferometer subclass with a given model:         *)
(*       mk "int": m; res, nresq, chi2mapq, snq, chi2q and the dirty maps  *)
(*       mk "real": m_fix, res_fix, chi2map_fix (x LogScale)               *)
(*       chi2_fix, nn_fix, ll_fix, fom_fix (x LogScale); hasinv, inv:      *)
(*       reg_fix, ldc_fix, ldr_fix (as reported by the inversion object),  *)
(*       ev_fix, llreg_fix; usemask: use_mask_in_fit                       *)
(*   fits       Interferometer.output_to_fits then from_fits: d2, nq2, b2  *)
(* Verdicts are total.                                                     *)
(***************************************************************************)
EXTENDS FitVis, IOUtils

CONSTANT AmpScale

Trace == JsonDeserialize(IOEnv.TRACE_FILE)
VARIABLE i

Cl(nm, ok) == IF ok THEN << >> ELSE << nm >>
IsGaussSeq(s, K) == Len(s) = K /\ \A k \in 1 .. K : Len(s[k]) = 2
NoOffG(s) == \A k \in 1 .. Len(s) : s[k][1] # VOff /\ s[k][2] # VOff
NoOffS(s) == \A k \in 1 .. Len(s) : s[k] # VOff
Small(s, bound) == \A k \in 1 .. Len(s) : VAbs(s[k][1]) <= bound /\ VAbs(s[k][2]) <= bound
InRange(x) == x # VOff /\ VAbs(x) < 1000000000

Un(r) == { CellOf(r.u[k], r.w) : k \in DOMAIN r.u }
Org(r) == << r.org[1], r.org[2] >>
Cen(r) == Centres(Un(r), r.h, r.w, Org(r))
Bl(r) == [k \in DOMAIN r.b |-> << r.b[k][1], r.b[k][2] >>]
G(s) == [k \in DOMAIN s |-> << s[k][1], s[k][2] >>]

\* ---- containers ------------------------------------------------------------------------------------------------------
Expected(r) == IF r.origin = "derived" THEN Arith(r.op, G(r.given), r.mult, G(r.other)) ELSE G(r.given)
ContainerWellFormed(r) ==
    /\ r.cls \in Classes /\ r.origin \in {"constructed", "derived"}
    /\ Len(r.given) >= 1 /\ IsGaussSeq(r.given, Len(r.given))
    /\ (r.origin = "derived" => r.op \in ArithOps /\ IsGaussSeq(r.other, Len(r.given)))
ValueClause(r) ==
    IF r.origin = "derived" THEN Cl("arithmetic-on-a-container-is-element-wise", G(r.own) = Expected(r))
    ELSE Cl("container-holds-the-given-complex-numbers-in-order", G(r.own) = Expected(r))
OwnOk(r) == IsGaussSeq(r.own, Len(r.given)) /\ NoOffG(r.own) /\ Small(r.own, 4096)

ContainerClauses(r) ==
    LET K == Len(r.given) IN
    IF r.raised # "" THEN << "no-exception" >>
    ELSE IF ~ (r.type_ok /\ r.slim = K /\ IsGaussSeq(r.own, K)) THEN << "container-has-its-class-and-one-entry-per-visibility" >>
    ELSE IF ~ OwnOk(r) THEN << "values-on-lattice" >>
    ELSE LET own == G(r.own) IN
         ValueClause(r)
      \o Cl("in_array-is-the-real-imag-split-of-own-values", IsGaussSeq(r.inarray, K) /\ G(r.inarray) = InArray(own))
      \o Cl("in_grid-is-the-real-imag-split-of-own-values", IsGaussSeq(r.ingrid, K) /\ G(r.ingrid) = InArray(own))
      \o Cl("amplitudes-are-the-moduli-of-own-values",
            Len(r.amp) = K /\ \A k \in 1 .. K : r.amp[k] # VOff /\ (VAbs(own[k][1]) <= 32 /\ VAbs(own[k][2]) <= 32 => AmpIsModulus(r.amp[k], own[k], AmpScale)))
      \o Cl("phases-are-the-arguments-of-own-values",
            Len(r.ph) = K /\ \A k \in 1 .. K : r.ph[k] # VOff /\ (InAngTable(own[k]) => PhaseIsArgument(r.ph[k], own[k])))
      \o Cl("scaled_maxima-are-the-maxima-of-own-real-and-imaginary-parts", Len(r.maxima) = 2 /\ << r.maxima[1], r.maxima[2] >> = Maxima(own))
      \o Cl("scaled_minima-are-the-minima-of-own-real-and-imaginary-parts", Len(r.minima) = 2 /\ << r.minima[1], r.minima[2] >> = Minima(own))
      \o Cl(IF r.origin = "derived" THEN "operand-of-the-arithmetic-unchanged" ELSE "caller-array-not-mutated", r.intact)
      \o Cl("repeated-reads-agree", r.stable)

OrderedClauses(r) ==
    IF r.raised # "" THEN << "no-exception" >>
    ELSE IF ~ OwnOk(r) THEN << "values-on-lattice" >>
    ELSE Cl("ordered_1d-is-real-parts-then-imaginary-parts-of-own-values",
            Len(r.ordered) = 2 * Len(r.own) /\ NoOffS(r.ordered) /\ r.ordered = Ordered(G(r.own)))
WeightClauses(r) ==
    IF r.raised # "" THEN << "no-exception" >>
    ELSE IF ~ OwnOk(r) THEN << "values-on-lattice" >>
    ELSE Cl("weight_list_ordered_1d-is-the-inverse-square-of-own-values", WeightsAreInverseSquares(r.weights, G(r.own)))

\* ---- dataset -----------------------------------------------------------------------------------------------------------
GeoWellFormed(r) ==
    /\ r.h >= 1 /\ r.w >= 1 /\ Len(r.u) >= 1 /\ Len(r.org) = 2 /\ Len(r.b) >= 1
    /\ \A k \in DOMAIN r.u : r.u[k] >= 0 /\ r.u[k] < r.h * r.w
    /\ IsGaussSeq(r.b, Len(r.b)) /\ IsGaussSeq(r.d, Len(r.b)) /\ IsGaussSeq(r.se, Len(r.b))
    /\ \A k \in DOMAIN r.se : r.se[k][1] \in (-NE) .. NE /\ r.se[k][2] \in (-NE) .. NE
IsIntSeq(s, n) == Len(s) = n /\ NoOffS(s)

DatasetClauses(r) ==
    LET K == Len(r.b) P == Len(r.u) IN
    IF ~ OnLattice(Cen(r), Bl(r)) THEN << "input-on-lattice" >>
    ELSE IF r.raised # "" THEN << "no-exception" >>
    ELSE IF ~ (r.types_ok /\ IsGaussSeq(r.kd, K) /\ IsGaussSeq(r.knq, K) /\ IsGaussSeq(r.kb, K) /\ IsGaussSeq(r.snq, K)
               /\ Len(r.amp) = K /\ Len(r.ph) = K /\ Len(r.dirty) = P /\ Len(r.dirtynoise) = P /\ Len(r.dirtysn) = P
               /\ Len(r.dirtynative) = r.h * r.w)
    THEN << "dataset-quantities-have-their-class-and-shape" >>
    ELSE IF ~ (NoOffG(r.kd) /\ NoOffG(r.knq) /\ NoOffG(r.kb) /\ NoOffG(r.snq) /\ NoOffS(r.dirty) /\ NoOffS(r.dirtynoise)
               /\ NoOffS(r.dirtysn) /\ NoOffS(r.dirtynative) /\ NoOffS(r.amp) /\ NoOffS(r.ph))
    THEN << "values-on-lattice" >>
    ELSE LET c == Cen(r) b == Bl(r) d == G(r.d) se == G(r.se)
             sn == TLCEval(SigToNoiseQ(d, se))
         IN
         Cl("dataset-keeps-data-as-given", G(r.kd) = d)
      \o Cl("dataset-keeps-noise-map-as-given", G(r.knq) = NoiseQ(se))
      \o Cl("dataset-keeps-uv-wavelengths-as-given", G(r.kb) = b /\ r.uv_same)
      \o Cl("caller-arrays-not-mutated", r.intact)
      \o Cl("signal-to-noise-is-per-part-data-over-noise-clipped-at-zero", G(r.snq) = sn)
      \o Cl("dataset-amplitudes-are-the-moduli-of-data", \A k \in 1 .. K : AmpIsModulus(r.amp[k], d[k], AmpScale))
      \o Cl("dataset-phases-are-the-arguments-of-data", \A k \in 1 .. K : InAngTable(d[k]) => PhaseIsArgument(r.ph[k], d[k]))
      \o Cl("dirty-image-is-adjoint-of-data", r.dirty = DirtyOf(d, c, b) /\ r.dirtynative = AdjointNative(d, Un(r), r.h, r.w, Org(r), b))
      \o Cl("dirty-noise-map-is-adjoint-of-noise-map", r.dirtynoise = DirtyOf(NoiseQ(se), c, b))
      \o Cl("dirty-signal-to-noise-map-is-adjoint-of-signal-to-noise-map", r.dirtysn = DirtyOf(sn, c, b))

FitsClauses(r) ==
    LET K == Len(r.b) IN
    IF r.raised # "" THEN << "no-exception" >>
    ELSE IF ~ (r.types_ok /\ IsGaussSeq(r.d2, K) /\ IsGaussSeq(r.nq2, K) /\ IsGaussSeq(r.b2, K)) THEN << "dataset-quantities-have-their-class-and-shape" >>
    ELSE Cl("fits-round-trip-returns-data", NoOffG(r.d2) /\ G(r.d2) = G(r.d))
      \o Cl("fits-round-trip-returns-noise-map", NoOffG(r.nq2) /\ G(r.nq2) = NoiseQ(G(r.se)))
      \o Cl("fits-round-trip-returns-uv-wavelengths", NoOffG(r.b2) /\ G(r.b2) = Bl(r) /\ r.uv_same)

\* ---- fit ---------------------------------------------------------------------------------------------------------------
ScalarClauses(r) ==
    LET K == Len(r.b) se == G(r.se) IN
    IF ~ (InRange(r.chi2_fix) /\ InRange(r.nn_fix) /\ InRange(r.ll_fix) /\ InRange(r.fom_fix))
    THEN << "statistics-finite-and-in-range" >>
    ELSE Cl("noise-normalization-sums-log-2pi-sigma2-of-real-and-imaginary-noise", VAbs(r.nn_fix - NoiseNormFix(se)) <= K + 1)
      \o Cl("log-likelihood-is-minus-half-chi-squared-plus-normalization", VAbs(2 * r.ll_fix + r.chi2_fix + r.nn_fix) <= 2)
      \o (IF ~ r.hasinv THEN Cl("figure-of-merit-is-likelihood-without-an-inversion", r.fom_fix = r.ll_fix)
          ELSE LET v == r.inv IN
               IF ~ (InRange(v.reg_fix) /\ InRange(v.ldc_fix) /\ InRange(v.ldr_fix) /\ InRange(v.ev_fix) /\ InRange(v.llreg_fix))
               THEN << "evidence-terms-finite-and-in-range" >>
               ELSE Cl("evidence-is-minus-half-of-its-five-terms",
                       VAbs(2 * v.ev_fix + (r.chi2_fix + v.reg_fix + v.ldc_fix - v.ldr_fix + r.nn_fix)) <= 3)
                 \o Cl("likelihood-with-regularization-is-minus-half-of-its-three-terms",
                       VAbs(2 * v.llreg_fix + (r.chi2_fix + v.reg_fix + r.nn_fix)) <= 2)
                 \o Cl("figure-of-merit-is-evidence-with-an-inversion", r.fom_fix = v.ev_fix))

IntFitClauses(r) ==
    LET K == Len(r.b) P == Len(r.u) IN
    IF ~ (IsGaussSeq(r.res, K) /\ IsGaussSeq(r.nresq, K) /\ IsGaussSeq(r.chi2mapq, K) /\ IsGaussSeq(r.snq, K)
          /\ Len(r.dirtymodel) = P /\ Len(r.dirtyres) = P /\ Len(r.dirtynres) = P /\ Len(r.dirtychi2) = P /\ Len(r.dirty) = P)
    THEN << "maps-have-one-entry-per-visibility-and-images-one-per-pixel" >>
    ELSE IF ~ (NoOffG(r.res) /\ NoOffG(r.nresq) /\ NoOffG(r.chi2mapq) /\ NoOffG(r.snq) /\ r.chi2q # VOff
               /\ NoOffS(r.dirtymodel) /\ NoOffS(r.dirtyres) /\ NoOffS(r.dirtynres) /\ NoOffS(r.dirtychi2) /\ NoOffS(r.dirty))
    THEN << "values-on-lattice" >>
    ELSE LET c == Cen(r) b == Bl(r)
             f == FitEval(G(r.d), G(r.m), G(r.se))
         IN
         Cl("residual-is-data-minus-model", G(r.res) = f.res)
      \o Cl("normalized-residual-divides-real-by-real-noise-and-imaginary-by-imaginary-noise", G(r.nresq) = f.nresq)
      \o Cl("chi-squared-map-squares-real-and-imaginary-normalized-residuals-separately", G(r.chi2mapq) = f.chi2mapq)
      \o Cl("chi-squared-sums-real-and-imaginary-chi-squared-maps", r.chi2q = f.chi2q /\ r.chi2_fix = f.chi2q * (LogScale \div Chi2Unit))
      \o Cl("signal-to-noise-is-per-part-data-over-noise-clipped-at-zero", G(r.snq) = f.snq)
      \o Cl("dirty-image-is-adjoint-of-data", r.dirty = DirtyOf(G(r.d), c, b))
      \o Cl("dirty-model-image-is-adjoint-of-model", r.dirtymodel = DirtyOf(G(r.m), c, b))
      \o Cl("dirty-residual-map-is-adjoint-of-residual", r.dirtyres = DirtyOf(f.res, c, b))
      \o Cl("dirty-normalized-residual-map-is-adjoint-of-normalized-residual", r.dirtynres = DirtyOf(f.nresq, c, b))
      \o Cl("dirty-chi-squared-map-is-adjoint-of-chi-squared-map", r.dirtychi2 = DirtyOf(f.chi2mapq, c, b))

RealFitClauses(r) ==
    LET K == Len(r.b) IN
    IF ~ (IsGaussSeq(r.m_fix, K) /\ IsGaussSeq(r.res_fix, K) /\ IsGaussSeq(r.chi2map_fix, K))
    THEN << "maps-have-one-entry-per-visibility-and-images-one-per-pixel" >>
    ELSE IF ~ (NoOffG(r.m_fix) /\ NoOffG(r.res_fix) /\ NoOffG(r.chi2map_fix)) THEN << "values-on-lattice" >>
    ELSE Cl("residual-is-data-minus-model",
            \A k \in 1 .. K : \A q \in 1 .. 2 : VAbs(r.res_fix[k][q] + r.m_fix[k][q] - r.d[k][q] * LogScale) <= 1)
      \o Cl("chi-squared-sums-real-and-imaginary-chi-squared-maps",
            VAbs(r.chi2_fix - ISum([k \in 1 .. K |-> r.chi2map_fix[k][1] + r.chi2map_fix[k][2]])) <= K + 1
            /\ \A k \in 1 .. K : r.chi2map_fix[k][1] >= 0 /\ r.chi2map_fix[k][2] >= 0)

FitClauses(r) ==
    IF ~ OnLattice(Cen(r), Bl(r)) THEN << "input-on-lattice" >>
    ELSE IF r.raised # "" THEN << "no-exception" >>
    ELSE IF ~ r.types_ok THEN << "fit-quantities-have-their-class" >>
    ELSE (IF r.mk = "int" THEN IntFitClauses(r) ELSE RealFitClauses(r)) \o ScalarClauses(r)

FitWellFormed(r) == GeoWellFormed(r) /\ r.mk \in {"int", "real"} /\ (r.mk = "int" => IsGaussSeq(r.m, Len(r.b)))

Clauses(r) ==
    CASE r.api \in {"container", "ordered", "weights"} ->
            IF ~ ContainerWellFormed(r) THEN << "malformed-record" >>
            ELSE IF r.api = "container" THEN ContainerClauses(r)
            ELSE IF r.api = "ordered" THEN OrderedClauses(r) ELSE WeightClauses(r)
      [] r.api = "dataset" -> IF ~ GeoWellFormed(r) THEN << "malformed-record" >> ELSE DatasetClauses(r)
      [] r.api = "fits" -> IF ~ GeoWellFormed(r) THEN << "malformed-record" >> ELSE FitsClauses(r)
      [] r.api = "fit" -> IF ~ FitWellFormed(r) THEN << "malformed-record" >> ELSE FitClauses(r)
      [] OTHER -> << "unknown-api" >>

\* signature of the failing class: the call site, the way the object came to be, the first failing clause
Sig(r, f) ==
    CASE r.api = "container" -> r.cls \o ":" \o r.origin \o ":" \o f[1]
      [] r.api = "ordered" -> "ordered_1d:" \o r.origin
      [] r.api = "weights" -> "weight_list_ordered_1d:" \o r.origin
      [] r.api = "fit" -> "fit:" \o f[1] \o (IF r.hasinv THEN ":inversion" ELSE "")
      [] OTHER -> r.api \o ":" \o f[1]

Want(r) ==
    CASE r.api \in {"container", "ordered", "weights"} /\ ContainerWellFormed(r) ->
            [values |-> Expected(r), ordered |-> Ordered(Expected(r)), maxima |-> Maxima(Expected(r)), minima |-> Minima(Expected(r)),
             amp2 |-> Amp2(Expected(r))]
      [] r.api = "fit" /\ FitWellFormed(r) /\ r.mk = "int" ->
            LET f == FitEval(G(r.d), G(r.m), G(r.se)) IN
            [res |-> f.res, nresq |-> f.nresq, chi2mapq |-> f.chi2mapq, chi2q |-> f.chi2q, nn_fix |-> f.nn, snq |-> f.snq,
             twice_ll_fix |-> f.ll2]
      [] r.api = "dataset" /\ GeoWellFormed(r) /\ OnLattice(Cen(r), Bl(r)) ->
            LET sn == SigToNoiseQ(G(r.d), G(r.se)) IN
            [snq |-> sn, dirty |-> DirtyOf(G(r.d), Cen(r), Bl(r)), dirtynoise |-> DirtyOf(NoiseQ(G(r.se)), Cen(r), Bl(r)),
             dirtysn |-> DirtyOf(sn, Cen(r), Bl(r))]
      [] OTHER -> [none |-> 0]

TraceInit == /\ i = 1
             /\ shape = << 1, 1 >> /\ U = {} /\ org = << 0, 0 >> /\ B = << >>
             /\ phase = "trace" /\ inp = << >> /\ obs = << >>

TraceNext ==
    /\ i <= Len(Trace)
    /\ LET r == Trace[i]
           f == Clauses(r)
       IN IF f = << >> THEN TRUE
          ELSE PrintT(ToJson([k |-> "reject", i |-> i, id |-> r.id, clauses |-> f, sig |-> Sig(r, f), want |-> Want(r)]))
    /\ i' = i + 1
    /\ UNCHANGED vars

TraceSpec == TraceInit /\ [][TraceNext]_<< vars, i >>
TraceAccepted == TLCGet("stats").diameter - 1 = Len(Trace)
=============================================================================
