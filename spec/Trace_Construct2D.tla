------------------------- MODULE Trace_Construct2D -------------------------
(***************************************************************************)
(* Validation of recorded executions of the real 2D constructors / region  *)
(* and binning queries against Construct2D.tla (extra X12).  One record    *)
(* per call (or per group of reads of one returned object); data movement  *)
(* is abstracted to source tags (the index of a given entry, Zero = -1 for *)
(* an exact 0, -2 for anything else), coordinates to integer half-ticks,   *)
(* means to numerators over a common denominator (alpha counts off-lattice *)
(* values in r.off and replaces them by a sentinel).  Verdicts are total:  *)
(* every record is judged, a rejected record is printed with the names of  *)
(* the failing clauses, the signature of the failing call site / input     *)
(* class and the value the specification wanted.                           *)
(*                                                                         *)
(* Records that concern a frame carry h, w, sy, sx, oy, ox (half-ticks)    *)
(* and, for masked objects, u (linear indices of the unmasked pixels,      *)
(* ascending).  r.raised # "" : the call raised that exception.            *)
(***************************************************************************)
EXTENDS Construct2D, IOUtils

Trace == JsonDeserialize(IOEnv.TRACE_FILE)

VARIABLE i

Cl(nm, b) == [n |-> nm, ok |-> b]

GeoOf(r) == Geo(r.h, r.w, r.sy, r.sx, r.oy, r.ox)
Un(r) == { CellOf(r.u[k], r.w) : k \in DOMAIN r.u }
IsPairSeq(s) == \A k \in DOMAIN s : Len(s[k]) = 2
Pairs(s) == [k \in DOMAIN s |-> << s[k][1], s[k][2] >>]
HasFrame(r) == r.api \in {"actor", "yxv", "binned", "gctor", "place", "maskgrid", "gq", "zoomext", "counts", "hist"}
HasMask(r) == r.api \in {"binned", "maskgrid", "gq", "zoomext", "counts", "hist"}
WellFormed(r) ==
    /\ HasFrame(r) => WellFormedGeo(GeoOf(r))
    /\ HasMask(r) => /\ \A k \in DOMAIN r.u : r.u[k] >= 0 /\ r.u[k] < r.h * r.w
                     /\ \A k \in 1 .. Len(r.u) - 1 : r.u[k] < r.u[k+1]
                     /\ Len(r.u) >= 1
GeoCarried(r, ps, og) == ps = << r.sy, r.sx >> /\ og = << r.oy, r.ox >>

\* ---- actor: Array2D.no_mask (2D input; 1D input + shape_native) / full / ones / zeros / from_fits / from_primary_hdu ----
\* r.vals: integer content of result.native row by row (a tagged input: entry k of the caller holds base + k);
\* r.slimv: of result.slim; r.um / r.rh / r.rw: mask and shape of the result; r.ps / r.og: its pixel scales and origin
ActorCtors == {"no_mask_native", "no_mask_slim", "no_mask_slim_list", "no_mask_native_list", "full", "ones", "zeros",
               "from_fits", "from_primary_hdu"}
WantActor(r) == LET n == r.h * r.w IN
    IF r.ctor \in {"full", "ones", "zeros"} THEN Const(n, r.fill) ELSE [k \in 1 .. n |-> r.base + k]
ClActor(r) ==
    LET n == r.h * r.w IN
    << Cl("offlattice", r.off = 0),
       Cl("known-constructor", r.ctor \in ActorCtors),
       Cl("native-form-holds-the-given-entries-row-by-row", r.vals = WantActor(r)),
       Cl("slim-form-of-an-unmasked-frame-is-the-same-order", r.slimv = WantActor(r)),
       Cl("shape-native", r.rh = r.h /\ r.rw = r.w),
       Cl("mask-is-entirely-unmasked", r.um = Everything(n)),
       Cl("pixel-scales-carried", r.ps = << r.sy, r.sx >>),
       Cl("origin-carried", r.og = << r.oy, r.ox >>) >>

\* ---- yxv: Array2D.from_yx_and_values ----
\* r.perm[k]: linear index of the pixel whose centre is the k-th (y,x) pair; the k-th value is tagged k;
\* r.native: tags of result.native row by row
ClYxv(r) ==
    LET n == r.h * r.w IN
    IF ~ IsPerm(r.perm, n) THEN << Cl("malformed-permutation-record", FALSE) >>
    ELSE << Cl("offlattice", r.off = 0),
            Cl("each-value-lands-in-the-pixel-whose-centre-is-its-yx-pair", r.native = YxScatter(r.perm, n)),
            Cl("shape-native", r.rh = r.h /\ r.rw = r.w),
            Cl("mask-is-entirely-unmasked", r.um = Everything(n)),
            Cl("pixel-scales-carried", r.ps = << r.sy, r.sx >>) >>
\* the class of the known deviation: the result is the gather through the pixel table (entry i = values[pixel of pair i]),
\* which differs from the scatter exactly when the table is not its own inverse
YxvGathered(r) == LET n == r.h * r.w IN
    IsPerm(r.perm, n) /\ ~ IsInvolution(r.perm, n) /\ r.native = YxGather(r.perm, n)

\* ---- binned: AbstractArray2D.binned_across_rows / binned_across_columns ----
\* r.nat: the integer values of the caller's native array row by row (what masked positions hold must not matter);
\* r.rows / r.cols: results times r.d (Nan marker for nan); r.rows_um / r.cols_um: masks of the results;
\* r.rows_ps / r.cols_ps: their pixel scale
ExceptNan(got, want) == Len(got) = Len(want) /\ \A k \in DOMAIN want : want[k] = Nan \/ got[k] = want[k]
ClBinned(r) ==
    LET u == Un(r) IN
    IF ~ (Len(r.nat) = r.h * r.w /\ CountsDivide(u, r.h, r.w, r.d))
    THEN << Cl("malformed-binned-record", FALSE) >>
    ELSE << Cl("offlattice", r.off = 0),
            \* a column / row without unmasked entry: the docstring does not say (the code returns nan) - not judged
            Cl("binned-across-rows-is-the-mean-of-the-unmasked-entries-of-each-column",
               ExceptNan(r.rows, BinRows(r.nat, u, r.h, r.w, r.d))),
            Cl("binned-across-columns-is-the-mean-of-the-unmasked-entries-of-each-row",
               ExceptNan(r.cols, BinCols(r.nat, u, r.h, r.w, r.d))),
            Cl("binned-results-are-unmasked-1d-arrays", r.rows_um = Everything(r.w) /\ r.cols_um = Everything(r.h)),
            \* unequal pixel scales: which of the two the 1D result carries is not documented - not judged
            Cl("binned-results-carry-the-pixel-scale", r.sy = r.sx => (r.rows_ps = r.sx /\ r.cols_ps = r.sy)) >>

\* ---- gctor: Grid2D.no_mask (slim / native input) / from_yx_1d / from_yx_2d with tagged coordinates ----
\* entry k of the caller (row-major for native input) is the pair <<k, n + k>>; r.pts: result.slim, r.nat: result.native
GctorCtors == {"no_mask_slim", "no_mask_native", "no_mask_slim_list", "from_yx_1d", "from_yx_1d_list", "from_yx_2d",
               "from_yx_2d_list"}
TagPairs(n) == [k \in 1 .. n |-> << k, n + k >>]
ClGctor(r) ==
    LET n == r.h * r.w IN
    IF ~ (IsPairSeq(r.pts) /\ IsPairSeq(r.nat)) THEN << Cl("malformed-grid-record", FALSE) >>
    ELSE << Cl("offlattice", r.off = 0),
            Cl("known-constructor", r.ctor \in GctorCtors),
            Cl("entry-k-is-the-k-th-given-coordinate", Pairs(r.pts) = TagPairs(n)),
            Cl("native-form-holds-the-given-coordinates-row-by-row", Pairs(r.nat) = TagPairs(n)),
            Cl("shape-native", r.rh = r.h /\ r.rw = r.w),
            Cl("mask-is-entirely-unmasked", r.um = Everything(n)),
            Cl("pixel-scales-carried", r.ps = << r.sy, r.sx >>),
            Cl("origin-carried", r.og = << r.oy, r.ox >>) >>

\* ---- place: grids of pixel centres built from geometric parameters ----
\* r.pts: result.slim (half-ticks); r.bb: the box <<y_min, y_max, x_min, x_max>> (bounding_box) or the extent
\* <<x0, x1, y0, y1>> (from_extent); r.kh, r.kw: kernel (padded_grid_from)
PlaceCtors == {"uniform", "bounding_box", "bounding_box_corners", "from_extent", "padded_grid", "slim_via_shape",
               "native_via_shape"}
ClPlace(r) ==
    LET g == GeoOf(r)
        p == Pairs(r.pts)
        allum(hh, ww) == r.um = Everything(hh * ww) /\ r.rh = hh /\ r.rw = ww
    IN
    IF ~ IsPairSeq(r.pts) THEN << Cl("malformed-grid-record", FALSE) >>
    ELSE CASE r.ctor \in {"uniform", "slim_via_shape", "native_via_shape"} ->
                << Cl("offlattice", r.off = 0),
                   Cl("coordinates-are-the-pixel-centres-of-the-frame", p = AllCentres(g)),
                   Cl("mask-is-entirely-unmasked", r.ctor # "uniform" \/ allum(r.h, r.w)),
                   Cl("geometry-carried", r.ctor # "uniform" \/ GeoCarried(r, r.ps, r.og)) >>
           [] r.ctor = "bounding_box" ->
                << Cl("offlattice", r.off = 0),
                   Cl("edge-pixels-align-with-the-bounding-box", BBoxInside(p, r.bb, r.h, r.w)),
                   Cl("mask-is-entirely-unmasked", allum(r.h, r.w)),
                   Cl("frame-of-the-result-is-the-bounding-box",
                      /\ r.ps[1] * r.h = r.bb[2] - r.bb[1] /\ r.ps[2] * r.w = r.bb[4] - r.bb[3]
                      /\ 2 * r.og[1] = r.bb[2] + r.bb[1] /\ 2 * r.og[2] = r.bb[4] + r.bb[3]) >>
           [] r.ctor = "bounding_box_corners" ->
                << Cl("offlattice", r.off = 0),
                   Cl("outermost-coordinates-align-with-the-bounding-box", BBoxOnCorners(p, r.bb, r.h, r.w)),
                   Cl("mask-is-entirely-unmasked", allum(r.h, r.w)),
                   Cl("edge-pixels-extend-half-a-pixel-beyond-the-bounding-box",
                      /\ r.ps[1] * (r.h - 1) = r.bb[2] - r.bb[1] /\ r.ps[2] * (r.w - 1) = r.bb[4] - r.bb[3]
                      /\ 2 * r.og[1] = r.bb[2] + r.bb[1] /\ 2 * r.og[2] = r.bb[4] + r.bb[3]) >>
           [] r.ctor = "from_extent" ->
                \* pixel scales / origin of the paired mask: not documented - not judged
                << Cl("offlattice", r.off = 0),
                   Cl("coordinates-span-the-extent-top-row-first", FromExtentOk(p, r.bb, r.h, r.w)),
                   Cl("mask-is-entirely-unmasked", allum(r.h, r.w)) >>
           [] r.ctor = "padded_grid" ->
                << Cl("offlattice", r.off = 0),
                   Cl("coordinates-are-the-pixel-centres-of-the-centred-enlarged-frame", p = AllCentres(PadGeo(g, r.kh, r.kw))),
                   Cl("mask-is-entirely-unmasked", allum(r.h + r.kh - 1, r.w + r.kw - 1)),
                   Cl("geometry-carried", GeoCarried(r, r.ps, r.og)) >>
           [] OTHER -> << Cl("known-constructor", FALSE) >>

\* ---- maskgrid: Grid2D.from_mask, grid_2d_(slim_)via_mask_from, blurring_grid_from, blurring_grid_via_kernel_shape_from ----
ClMaskGrid(r) ==
    LET g  == GeoOf(r)
        u  == Un(r)
        ss == SlimSeq(u, r.h, r.w)
        fm == Centres(g, ss)
        leaves == FootLeaves(u, r.h, r.w, r.kh, r.kw)
        bs == BlurringSeq(u, r.h, r.w, r.kh, r.kw)
    IN
    IF ~ (IsPairSeq(r.fm) /\ IsPairSeq(r.fm_nat) /\ IsPairSeq(r.util_slim) /\ IsPairSeq(r.util_nat)
          /\ IsPairSeq(r.bl) /\ IsPairSeq(r.blk))
    THEN << Cl("malformed-grid-record", FALSE) >>
    ELSE << Cl("offlattice", r.off = 0),
            Cl("from-mask-entry-k-is-the-centre-of-unmasked-pixel-k", Pairs(r.fm) = fm),
            Cl("from-mask-native-is-zero-where-masked", Pairs(r.fm_nat) = NativePairs(fm, u, r.h, r.w)),
            Cl("from-mask-keeps-the-mask", r.fm_um = r.u /\ GeoCarried(r, r.fm_ps, r.fm_og)),
            Cl("grid-2d-slim-via-mask-from", Pairs(r.util_slim) = fm),
            Cl("grid-2d-via-mask-from", Pairs(r.util_nat) = NativePairs(fm, u, r.h, r.w)),
            \* a kernel footprint that leaves the frame: C10 decides that case (an exception) - not judged here
            Cl("blurring-grid-is-the-centres-of-the-blurring-pixels-in-slim-order",
               leaves \/ (~ r.bl_raised /\ Pairs(r.bl) = Centres(g, bs))),
            Cl("blurring-grid-mask-unmasks-the-blurring-pixels",
               leaves \/ (r.bl_um = LinSeq(bs, r.w) /\ GeoCarried(r, r.bl_ps, r.bl_og))),
            Cl("blurring-grid-via-kernel-shape-from-is-the-same-grid",
               leaves \/ (~ r.bl_raised /\ Pairs(r.blk) = Centres(g, bs) /\ r.blk_um = LinSeq(bs, r.w))) >>

\* ---- gq: one query of a Grid2D holding r.vals (one integer pair per unmasked pixel, slim order; r.store: stored form) ----
GqNames == {"flipped", "subtracted_from", "is_uniform", "in_radians"}
ClGq(r) ==
    LET v == Pairs(r.vals) IN
    IF ~ (IsPairSeq(r.vals) /\ Len(r.vals) = Len(r.u) /\ IsPairSeq(r.outp)) THEN << Cl("malformed-grid-record", FALSE) >>
    ELSE CASE r.q = "flipped" ->
                << Cl("offlattice", r.off = 0),
                   Cl("flipped-entry-k-is-the-xy-pair-of-entry-k", Pairs(r.outp) = Flip(v)),
                   Cl("flipped-is-a-grid-on-the-same-mask", r.out_um = r.u /\ GeoCarried(r, r.out_ps, r.out_og)) >>
           [] r.q = "subtracted_from" ->
                << Cl("offlattice", r.off = 0),
                   Cl("subtracted-entry-k-is-entry-k-minus-the-offset", Pairs(r.outp) = Subtract(v, r.d)),
                   Cl("subtracted-grid-keeps-mask-and-pixel-scales", r.out_um = r.u /\ r.out_ps = << r.sy, r.sx >>),
                   Cl("subtracted-grid-origin-moves-with-the-coordinates", r.out_og = << r.oy - r.d[1], r.ox - r.d[2] >>) >>
           [] r.q = "is_uniform" ->
                << Cl("is-uniform-iff-consecutive-y-steps-are-zero-or-one-pixel-scale", UniformAnswerOk(r.flag, v, r.sy)) >>
           [] r.q = "in_radians" ->
                \* r.outp: round(value * 648000 * 10^6) per coordinate; the grid holds the integers r.vals themselves
                << Cl("offlattice", r.off = 0),
                   Cl("in-radians-is-the-coordinate-times-pi-over-648000",
                      /\ Len(r.outp) = Len(v)
                      /\ \A k \in DOMAIN v : RadOk(v[k][1], r.outp[k][1]) /\ RadOk(v[k][2], r.outp[k][2])),
                   Cl("in-radians-is-a-grid-on-the-same-mask", r.out_um = r.u /\ GeoCarried(r, r.out_ps, r.out_og)) >>
           [] OTHER -> << Cl("known-query", FALSE) >>

\* the classes of the two known deviations on NATIVE-stored grids: the code indexes the stored [rows, columns, 2] array
\* as if it were [pixels, 2].  flipped: the stored array mirrored left-right (pairs not swapped), read in slim order;
\* is_uniform: the differences of consecutive entries of the first COLUMN of the stored array (both components)
NativeMirrored(v, u, h, w) ==
    LET nat == NativePairs(v, u, h, w)
        ss  == SlimSeq(u, h, w)
    IN [k \in DOMAIN ss |-> nat[ss[k][1] * w + (w - 1 - ss[k][2]) + 1]]
FlippedMirrored(r) ==
    /\ r.q = "flipped" /\ r.store = "native" /\ IsPairSeq(r.vals) /\ IsPairSeq(r.outp) /\ Len(r.vals) = Len(r.u)
    /\ Pairs(r.outp) = NativeMirrored(Pairs(r.vals), Un(r), r.h, r.w)
FirstColumnUniform(v, u, h, w, sy) ==
    LET nat == NativePairs(v, u, h, w) IN
    \A ii \in 1 .. h-1 : \A c \in {1, 2} :
        nat[(ii-1) * w + 1][c] - nat[ii * w + 1][c] \in {0, sy}
UniformOfFirstColumn(r) ==
    /\ r.q = "is_uniform" /\ r.store = "native" /\ IsPairSeq(r.vals) /\ Len(r.vals) = Len(r.u)
    /\ r.flag = FirstColumnUniform(Pairs(r.vals), Un(r), r.h, r.w, r.sy)

\* ---- util: helper functions of grid_2d_util / array_2d_util ----
ClUtil(r) ==
    CASE r.fn = "centre" ->
           IF ~ (IsPairSeq(r.pts) /\ Len(r.pts) >= 1) THEN << Cl("malformed-util-record", FALSE) >>
           ELSE << Cl("offlattice", r.off = 0),
                   Cl("grid-centre-is-the-midpoint-of-the-coordinate-extremes", r.out2 = Centre2(Pairs(r.pts))) >>
      [] r.fn = "poly" ->
           IF ~ (IsPairSeq(r.pts) /\ Len(r.pts) >= 1) THEN << Cl("malformed-util-record", FALSE) >>
           ELSE << Cl("offlattice", r.off = 0),
                   Cl("polygon-area-is-the-shoelace-sum", r.out2 = Shoelace2(Pairs(r.pts))) >>
      [] r.fn = "within" ->
           IF ~ (IsPairSeq(r.pts) /\ IsPairSeq(r.outp)) THEN << Cl("malformed-util-record", FALSE) >>
           ELSE << Cl("offlattice", r.off = 0),
                   Cl("points-within-radius-call-returns", r.raised = ""),
                   Cl("points-within-radius-keeps-the-points-inside-in-order",
                      r.raised = "" /\ Pairs(r.outp) = WithinRadius(Pairs(r.pts), << r.ctr[1], r.ctr[2] >>, r.r2)) >>
      [] r.fn = "counts" ->
           IF ~ (IsPairSeq(r.pts) /\ WellFormedGeo(GeoOf(r))) THEN << Cl("malformed-util-record", FALSE) >>
           ELSE << Cl("offlattice", r.off = 0),
                   Cl("pixel-counts-are-the-number-of-points-in-each-pixel", r.out = PixelCounts(GeoOf(r), Pairs(r.pts))) >>
      [] r.fn = "upscale" ->
           IF ~ (IsPairSeq(r.pts) /\ IsPairSeq(r.outp) /\ r.f >= 1 /\ (r.sy \div 2) % r.f = 0 /\ (r.sx \div 2) % r.f = 0)
           THEN << Cl("malformed-util-record", FALSE) >>
           ELSE << Cl("offlattice", r.off = 0),
                   Cl("upscaled-grid-is-the-sub-pixel-centres-of-each-entry-row-major",
                      Pairs(r.outp) = Upscaled(Pairs(r.pts), r.f, r.sy, r.sx)) >>
      [] r.fn = "idx2d" ->
           IF ~ IsPairSeq(r.outp) THEN << Cl("malformed-util-record", FALSE) >>
           ELSE << Cl("offlattice", r.off = 0),
                   Cl("index-2d-for-index-slim-is-row-major", Pairs(r.outp) = Index2DForSlim(r.ks, r.w)) >>
      [] r.fn = "idxslim" ->
           IF ~ IsPairSeq(r.cs) THEN << Cl("malformed-util-record", FALSE) >>
           ELSE << Cl("offlattice", r.off = 0),
                   Cl("index-slim-for-index-2d-is-row-major", r.out = IndexSlimFor2D(Pairs(r.cs), r.w)) >>
      [] r.fn = "viaidx" ->
           IF ~ IsPairSeq(r.cs) THEN << Cl("malformed-util-record", FALSE) >>
           ELSE << Cl("offlattice", r.off = 0),
                   Cl("array-via-indexes-puts-slim-entry-k-at-its-native-index-zeros-elsewhere",
                      r.out = ViaIndexes(Pairs(r.cs), r.h, r.w)) >>
      [] r.fn = "noise" ->
           IF ~ (Len(r.img) = Len(r.n4) /\ Len(r.out4) = Len(r.img) /\ r.t >= 1) THEN << Cl("malformed-util-record", FALSE) >>
           ELSE << Cl("offlattice", r.off = 0),
                   Cl("noise-replaced-only-where-the-image-is-negative-to-meet-the-target",
                      \A k \in DOMAIN r.img : r.out4[k] \in NoiseAllowed(r.img[k], r.n4[k], r.t)) >>
      [] OTHER -> << Cl("known-helper", FALSE) >>

\* ---- zoomext: extent_of_zoomed_array(buffer) is the extent of zoomed_around_mask(buffer) (which C14 judges) ----
ClZoomExt(r) ==
    << Cl("offlattice", r.off = 0),
       Cl("extent-of-zoomed-array-is-the-extent-of-the-zoomed-array", r.ext = r.zext),
       Cl("extent-of-zoomed-array-spans-its-shape",
          Len(r.ext) = 4 /\ r.ext[2] - r.ext[1] = r.zw * r.sx /\ r.ext[4] - r.ext[3] = r.zh * r.sy) >>

\* ---- counts: in_counts / in_counts_per_second of an array whose header converts with exposure time r.e ----
\* r.vals: the integer values of the unmasked pixels (slim order); r.ic: in_counts; r.icps: in_counts_per_second
ClCounts(r) ==
    << Cl("offlattice", r.off = 0),
       Cl("in-counts-is-the-header-conversion-of-the-entries", r.ic = [k \in DOMAIN r.vals |-> r.vals[k] * r.e]),
       Cl("in-counts-per-second-is-in-counts-over-the-exposure-time", r.icps = r.vals),
       Cl("converted-arrays-keep-the-mask", r.ic_um = r.u /\ r.icps_um = r.u) >>

\* ---- hist: one object read / doubled / edited ----
\* r.kind: "array" | "grid"; r.start: the entries the object is built with (slim order: integers, or pairs);
\* r.steps[j] = [op, tgt, q, k, c, v, out]: out = flat integers of a read
HistShapeOk(r) ==
    /\ r.kind \in {"array", "grid"}
    /\ Len(r.start) = Len(r.u)
    /\ (r.kind = "grid" => IsPairSeq(r.start))
    /\ \A j \in DOMAIN r.steps :
          LET s == r.steps[j] IN
          /\ s.op \in {"read", "double", "edit"}
          /\ (s.op = "read" => s.tgt \in {"a", "d"} /\ s.q \in (IF r.kind = "array" THEN ArrayReads ELSE GridReads))
          /\ (s.op = "edit" => s.k >= 1 /\ s.k <= Len(r.start) /\ s.c \in {1, 2})
    /\ \A j \in DOMAIN r.steps : (r.steps[j].op = "read" /\ r.steps[j].tgt = "d") => \E m \in 1 .. j-1 : r.steps[m].op = "double"
HistStartOf(r) == IF r.kind = "array" THEN r.start ELSE Pairs(r.start)
RECURSIVE StateAfter(_, _)
StateAfter(r, j) ==
    IF j = 0 THEN [a |-> HistStartOf(r), d |-> << >>]
    ELSE LET s  == StateAfter(r, j-1)
             st == r.steps[j]
         IN CASE st.op = "edit"   -> [s EXCEPT !.a = Assign(r.kind, s.a, st.k, st.c, st.v)]
              [] st.op = "double" -> [s EXCEPT !.d = Twice(r.kind, s.a)]
              [] OTHER            -> s
ReadWant(r, j) == LET s == StateAfter(r, j) IN
    ReadOf(r.kind, r.steps[j].q, IF r.steps[j].tgt = "a" THEN s.a ELSE s.d, Un(r), GeoOf(r))
ReadOk(r, j) == LET w == ReadWant(r, j)
                    s == StateAfter(r, j)
                IN
    IF r.steps[j].q \in {"rows", "cols"} THEN ExceptNan(r.steps[j].out, w)
    ELSE IF r.steps[j].q = "uni"
         THEN r.steps[j].out \in {<< 0 >>, << 1 >>}
              /\ UniformAnswerOk(r.steps[j].out = << 1 >>, IF r.steps[j].tgt = "a" THEN s.a ELSE s.d, r.sy)
    ELSE r.steps[j].out = w
BadReads(r) == { j \in DOMAIN r.steps : r.steps[j].op = "read" /\ ~ ReadOk(r, j) }
FlatOfState(kd, x) == IF kd = "array" THEN x ELSE Flat2(x)
ClHist(r) ==
    IF ~ HistShapeOk(r) THEN << Cl("malformed-history-record", FALSE) >>
    ELSE LET fin == StateAfter(r, Len(r.steps)) IN
         << Cl("offlattice", r.off = 0),
            Cl("every-read-describes-the-current-entries", BadReads(r) = {}),
            Cl("object-holds-the-fold-of-its-edits", r.final = FlatOfState(r.kind, fin.a)),
            Cl("doubled-object-is-independent-of-later-edits", fin.d = << >> \/ r.dfinal = FlatOfState(r.kind, fin.d)) >>

-----------------------------------------------------------------------------
Clauses(r) ==
    IF r.api = "raised" THEN << Cl("call-raised-" \o r.exc, FALSE) >>
    ELSE IF ~ WellFormed(r) THEN << Cl("malformed-input-record", FALSE) >>
    \* a result off the lattice is a rejection by itself; the sentinel that stands for it never enters arithmetic
    ELSE IF r.off # 0 THEN << Cl("offlattice", FALSE) >>
    ELSE CASE r.api = "actor"    -> ClActor(r)
           [] r.api = "yxv"      -> ClYxv(r)
           [] r.api = "binned"   -> ClBinned(r)
           [] r.api = "gctor"    -> ClGctor(r)
           [] r.api = "place"    -> ClPlace(r)
           [] r.api = "maskgrid" -> ClMaskGrid(r)
           [] r.api = "gq"       -> ClGq(r)
           [] r.api = "util"     -> ClUtil(r)
           [] r.api = "zoomext"  -> ClZoomExt(r)
           [] r.api = "counts"   -> ClCounts(r)
           [] r.api = "hist"     -> ClHist(r)
           [] OTHER              -> << Cl("unknown-api", FALSE) >>

Failed(r) == SelectSeq(Clauses(r), LAMBDA c : ~ c.ok)
Names(f) == { f[j].n : j \in DOMAIN f }

Want(r) ==
    IF r.api = "raised" \/ ~ WellFormed(r) \/ r.off # 0 THEN << >>
    ELSE CASE r.api = "actor"  -> WantActor(r)
           [] r.api = "yxv"    -> IF IsPerm(r.perm, r.h * r.w) THEN YxScatter(r.perm, r.h * r.w) ELSE << >>
           [] r.api = "binned" -> IF Len(r.nat) = r.h * r.w /\ CountsDivide(Un(r), r.h, r.w, r.d)
                                  THEN [rows |-> BinRows(r.nat, Un(r), r.h, r.w, r.d), cols |-> BinCols(r.nat, Un(r), r.h, r.w, r.d)]
                                  ELSE << >>
           [] r.api = "gq"     -> IF IsPairSeq(r.vals)
                                  THEN CASE r.q = "flipped" -> Flip(Pairs(r.vals))
                                         [] r.q = "subtracted_from" -> Subtract(Pairs(r.vals), r.d)
                                         [] r.q = "is_uniform" -> << IsUniformDoc(Pairs(r.vals), r.sy) >>
                                         [] OTHER -> << >>
                                  ELSE << >>
           [] r.api = "hist"   -> IF HistShapeOk(r)
                                  THEN LET b == SetToSortSeq(BadReads(r), <)
                                       IN [n \in DOMAIN b |-> [step |-> b[n], want |-> ReadWant(r, b[n])]]
                                  ELSE << >>
           [] OTHER            -> << >>

\* signature of the failing call site / input class (used to match known findings); f = the failed clauses
StoreSuffix(r) == IF r.store = "native" THEN ":native-stored" ELSE ""
HistSig(r) ==
    IF ~ HistShapeOk(r) \/ BadReads(r) = {} THEN "history:" \o r.kind
    ELSE LET j == Min(BadReads(r))
             s == r.steps[j]
         IN "history:" \o r.kind \o ":" \o s.q
            \o (IF s.tgt = "d" THEN ":of-2a" ELSE "")
            \o (IF \E m \in 1 .. j-1 : r.steps[m].op = "edit" THEN ":after-item-assignment" ELSE "")
            \o StoreSuffix(r)
Sig(r, f) ==
    IF r.api = "raised" THEN "raised:" \o r.where
    ELSE IF ~ WellFormed(r) THEN "malformed"
    ELSE CASE r.api = "actor"    -> "Array2D." \o r.ctor
           [] r.api = "yxv"      -> IF YxvGathered(r) /\ Names(f) = {"each-value-lands-in-the-pixel-whose-centre-is-its-yx-pair"}
                                    THEN "Array2D.from_yx_and_values:values-gathered-through-the-pixel-table"
                                    ELSE "Array2D.from_yx_and_values"
           [] r.api = "binned"   -> "Array2D.binned" \o StoreSuffix(r)
           [] r.api = "gctor"    -> "Grid2D." \o r.ctor
           [] r.api = "place"    -> "Grid2D." \o r.ctor
           [] r.api = "maskgrid" -> "Grid2D.from_mask-or-blurring-grid"
           [] r.api = "gq"       -> IF FlippedMirrored(r) /\ Names(f) = {"flipped-entry-k-is-the-xy-pair-of-entry-k"}
                                    THEN "Grid2D.flipped:native-stored-array-mirrored-not-swapped"
                                    ELSE IF UniformOfFirstColumn(r) /\ Names(f) = {"is-uniform-iff-consecutive-y-steps-are-zero-or-one-pixel-scale"}
                                    THEN "Grid2D.is_uniform:native-stored-array-indexed-as-slim"
                                    ELSE "Grid2D." \o r.q \o StoreSuffix(r)
           [] r.api = "util"     -> IF r.fn = "within" /\ r.raised # "" THEN "grid_2d_of_points_within_radius:raises-" \o r.raised
                                    ELSE IF r.fn = "within" /\ r.outp = << >> /\ r.void THEN "grid_2d_of_points_within_radius:returns-an-empty-record-array"
                                    ELSE "util:" \o r.fn
           [] r.api = "zoomext"  -> "Array2D.extent_of_zoomed_array"
           [] r.api = "counts"   -> "Array2D.in_counts" \o StoreSuffix(r)
           [] r.api = "hist"     -> HistSig(r)
           [] OTHER              -> "unknown-api"

TraceInit == /\ i = 1
             /\ fam = "trace" /\ sh = << 1, 1 >> /\ U = {} /\ geo = << 4, 4, 0, 0 >> /\ pat = 0
             /\ phase = "trace" /\ call = "none" /\ par = << >> /\ out = << >>
             /\ kind = "none" /\ cur = << >> /\ dbl = << >> /\ memoA = << >> /\ memoD = << >>
             /\ steps = << >> /\ last = << >>

TraceNext ==
    /\ i <= Len(Trace)
    /\ LET r == Trace[i]
           f == Failed(r)
       IN IF f = << >> THEN TRUE
          ELSE PrintT(ToJson([k |-> "reject", i |-> i, id |-> r.id,
                              clauses |-> [j \in DOMAIN f |-> f[j].n],
                              sig |-> Sig(r, f), want |-> Want(r)]))
    /\ i' = i + 1
    /\ UNCHANGED vars

TraceSpec == TraceInit /\ [][TraceNext]_<< vars, i >>
TraceAccepted == TLCGet("stats").diameter - 1 = Len(Trace)
=============================================================================
