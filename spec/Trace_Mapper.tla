---------------------------- MODULE Trace_Mapper ----------------------------
(***************************************************************************)
(* Validation of recorded mappers of the real code against Mapper.tla.     *)
(* One record per mapper (rectangular or Delaunay) holding everything a    *)
(* user reads from it: pix_sub_weights, mapping_matrix, unique_mappings,   *)
(* neighbors (and the simplices of a Delaunay mesh).  Verdicts are total:  *)
(* every record is judged, a rejected record is printed with the names of  *)
(* the failing clauses, the signature of its input class and what the      *)
(* specification wanted.                                                   *)
(*                                                                         *)
(* Record (all integers):                                                  *)
(*   kind "rect" | "delaunay", id, scales (the exponents k of the tick     *)
(*   lengths tau*2^k at which the instance was realised with this very     *)
(*   result: nothing below takes the scale as an argument, which is the    *)
(*   claim that the result does not depend on it), sub (per image pixel),  *)
(*   pos (ticks, one                                                       *)
(*   <<y,x>> per sub-pixel), fine (<<dy,dx>> per sub-pixel) and E: the     *)
(*   position is pos + fine/E (an exact dyadic offset; fine = 0 for a      *)
(*   plain lattice point), P (source pixels), my, mx | V, simp,            *)
(*   map / sizes / wn / dq : pix_sub_weights; weight k of sub-pixel q is   *)
(*                           wn[q][k] / dq[q]                              *)
(*   drow, M               : mapping_matrix[i][c] = M[i][c] / drow[i]      *)
(*   uniq / uw / ulen      : unique mappings, rows cut at ulen[i], weights *)
(*                           over drow[i]                                  *)
(*   nbr / nsizes          : neighbors.arr, neighbors.sizes                *)
(*   offl                  : names of outputs that were not on the lattice *)
(***************************************************************************)
EXTENDS Mapper

Trace == JsonDeserialize(IOEnv.TRACE_FILE)

VARIABLE i

Cl(n, b) == [n |-> n, ok |-> b]
IsRect(r) == r.kind = "rect"
NPx(r) == Len(r.sub)
Prefix(s, n) == SubSeq(s, 1, n)

\* ---- shape of the record (so that a malformed output is a rejection, not an evaluation error) ------------
InputOk(r) ==
    /\ Len(r.scales) >= 1 /\ \A k \in DOMAIN r.scales : r.scales[k] \in -128 .. 128
    /\ \A k \in DOMAIN r.sub : r.sub[k] \in 1 .. 4
    /\ Len(r.pos) = NSub(r.sub) /\ \A q \in DOMAIN r.pos : Len(r.pos[q]) = 2
    /\ Len(r.fine) = Len(r.pos) /\ (\A q \in DOMAIN r.fine : Len(r.fine[q]) = 2) /\ r.E \in {1, 65536}
    /\ IF IsRect(r) THEN r.P = r.my * r.mx /\ RectInputOk(r.pos, r.my, r.mx) /\ \A q \in DOMAIN r.fine : r.fine[q] = << 0, 0 >>
       ELSE Len(r.V) = r.P /\ (\A k \in DOMAIN r.V : Len(r.V[k]) = 2) /\ GeneralPosition(r.V)
PswShapeOk(r) ==
    LET n == Len(r.pos) IN
    /\ Len(r.map) = n /\ Len(r.sizes) = n /\ Len(r.wn) = n /\ Len(r.dq) = n
    /\ \A q \in 1 .. n :
          /\ Len(r.map[q]) >= 1 /\ Len(r.wn[q]) = Len(r.map[q]) /\ r.dq[q] >= 1
          /\ r.sizes[q] \in 1 .. Len(r.map[q])
          /\ \A k \in 1 .. r.sizes[q] : r.map[q][k] \in 0 .. r.P - 1
MatrixShapeOk(r) ==
    /\ Len(r.M) = NPx(r) /\ Len(r.drow) = NPx(r)
    /\ \A a \in DOMAIN r.M : Len(r.M[a]) = r.P
UniqueShapeOk(r) ==
    /\ Len(r.uniq) = NPx(r) /\ Len(r.uw) = NPx(r) /\ Len(r.ulen) = NPx(r)
    /\ \A a \in 1 .. NPx(r) :
          /\ r.ulen[a] >= 0 /\ Len(r.uniq[a]) = r.ulen[a] /\ Len(r.uw[a]) = r.ulen[a]
          /\ \A j \in DOMAIN r.uniq[a] : r.uniq[a][j] \in 0 .. r.P - 1
NeighboursShapeOk(r) ==
    /\ Len(r.nbr) = r.P /\ Len(r.nsizes) = r.P
    /\ \A a \in 1 .. r.P :
          /\ r.nsizes[a] \in 0 .. Len(r.nbr[a])
          /\ \A j \in 1 .. r.nsizes[a] : r.nbr[a][j] \in 0 .. r.P - 1
SimplicesShapeOk(r) == IsRect(r) \/ \A k \in DOMAIN r.simp : Len(r.simp[k]) = 3

ShapeClauses(r) ==
    << Cl("input-precondition", InputOk(r)),
       Cl("pix-sub-weights-shape", PswShapeOk(r)),
       Cl("mapping-matrix-shape", MatrixShapeOk(r)),
       Cl("unique-mappings-shape", UniqueShapeOk(r)),
       Cl("neighbours-shape", NeighboursShapeOk(r)),
       Cl("simplices-shape", SimplicesShapeOk(r)) >>

\* ---- the interpolation table the specification wants ------------------------------------------------------
Simplices(r) == { r.simp[k] : k \in DOMAIN r.simp }
Tri3(r, q) == Prefix(r.map[q], 3)
\* the query point of sub-pixel q (its denominators carry E only when it has an offset)
Qp(r, q) == IF r.fine[q][1] = 0 /\ r.fine[q][2] = 0 THEN Lat(r.pos[q])
            ELSE << r.pos[q][1], r.pos[q][2], r.fine[q][1], r.fine[q][2], r.E >>
\* Delaunay: which containing triangle is taken is free; the weights in the reported one are pinned
DelTable(r) ==
    [q \in DOMAIN r.pos |->
        IF r.sizes[q] = 3
        THEN LET t == Tri3(r, q) d == BaryDen(r.V, t, Qp(r, q)) IN
             [pix |-> t, wn |-> BaryNum(r.V, t, Qp(r, q)), d |-> IF d = 0 THEN 1 ELSE d]
        ELSE [pix |-> << r.map[q][1] >>, wn |-> << 1 >>, d |-> 1]]
TableOf(r) == IF IsRect(r) THEN RectTable(r.pos, r.my, r.mx) ELSE DelTable(r)

NbrSet(r, a) == { r.nbr[a + 1][j] : j \in 1 .. r.nsizes[a + 1] }
UniqueOfRecord(r) == [a \in 1 .. NPx(r) |-> [pix |-> r.uniq[a], w |-> r.uw[a]]]

SemanticClauses(r) ==
    LET tb == TableOf(r)
        want == MatrixOf(tb, r.sub, r.P)
        n == Len(r.pos)
    IN
    << Cl("values-on-lattice", r.offl = << >>),
       Cl("row-denominators", \A a \in 1 .. NPx(r) : r.drow[a] = DRow(tb, r.sub, a)),
       \* (an entry that was off the lattice is carried as -2 and belongs to the clause above)
       Cl("rows-non-negative", \A a \in 1 .. NPx(r) : \A c \in 1 .. r.P : r.M[a][c] >= 0 \/ (r.M[a][c] = -2 /\ r.offl # << >>)),
       Cl("rows-sum-to-one", \A a \in 1 .. NPx(r) : SumOver(1 .. r.P, LAMBDA c : r.M[a][c]) = r.drow[a]),
       Cl("entry-is-sum-of-sub-fraction-times-weight", r.M = want),
       Cl("unique-no-repeated-source-pixel", \A a \in 1 .. NPx(r) : NoRepeats(r.uniq[a])),
       Cl("unique-encodes-dense", DenseOfUnique(UniqueOfRecord(r), r.P) = want),
       Cl("neighbours-symmetric",
          \A a, b \in 0 .. r.P - 1 : (b \in NbrSet(r, a)) <=> (a \in NbrSet(r, b))),
       Cl("neighbour-lists-without-repeats", \A a \in 1 .. r.P : NoRepeats(Prefix(r.nbr[a], r.nsizes[a]))) >>
    \o
    IF IsRect(r)
    THEN << Cl("sub-pixel-mapped-to-the-cell-containing-it",
               \A q \in 1 .. n : r.sizes[q] = 1 /\ r.map[q][1] = tb[q].pix[1]),
            Cl("cell-weight-is-one", \A q \in 1 .. n : r.wn[q][1] = 1 /\ r.dq[q] = 1),
            Cl("neighbours-are-4-connectivity", \A a \in 0 .. r.P - 1 : NbrSet(r, a) = Adj4(a, r.my, r.mx)) >>
    ELSE LET T == Simplices(r)
             tri == TrianglesOfVertices(r.V, T)
         IN
         << Cl("simplices-are-triangles-of-the-vertices", tri),
            Cl("simplices-have-empty-circumcircles", tri /\ EmptyCircumcircles(r.V, T)),
            Cl("simplices-tile-the-hull", tri /\ TilesHull(r.V, T)),
            Cl("sizes-are-one-or-three", \A q \in 1 .. n : r.sizes[q] \in {1, 3}),
            Cl("inside-point-mapped-to-a-simplex-containing-it",
               \A q \in 1 .. n : r.sizes[q] = 3 =>
                   /\ IsTriangle(r.V, Tri3(r, q))
                   /\ \E t \in T : Len(t) = 3 /\ TriSet(t) = TriSet(Tri3(r, q))
                   /\ Inside(r.V, Tri3(r, q), Qp(r, q))),
            Cl("single-vertex-only-outside-the-hull",
               tri /\ \A q \in 1 .. n : r.sizes[q] = 1 => \A t \in T : ~ Inside(r.V, t, Qp(r, q))),
            Cl("single-vertex-is-a-nearest-one",
               \A q \in 1 .. n : r.sizes[q] = 1 => IsNearest(r.V, r.map[q][1], Qp(r, q))),
            Cl("weights-are-barycentric",
               \A q \in 1 .. n : /\ r.dq[q] = tb[q].d
                                 /\ \A k \in 1 .. Len(tb[q].wn) : r.wn[q][k] = tb[q].wn[k]),
            Cl("neighbours-are-simplex-edges", \A a \in 0 .. r.P - 1 : NbrSet(r, a) = SimplexAdj(T, a)) >>

Clauses(r) ==
    LET sh == ShapeClauses(r) IN
    IF \E k \in DOMAIN sh : ~ sh[k].ok THEN sh ELSE SemanticClauses(r)
Failed(r) == SelectSeq(Clauses(r), LAMBDA c : ~ c.ok)

\* what the specification wanted (printed for rejected records only)
Want(r) ==
    IF ~ (InputOk(r) /\ PswShapeOk(r)) THEN << >>
    ELSE IF IsRect(r)
    THEN [cells |-> [q \in DOMAIN r.pos |-> RectTable(r.pos, r.my, r.mx)[q].pix[1]],
          m |-> MatrixOf(TableOf(r), r.sub, r.P),
          drow |-> [a \in 1 .. NPx(r) |-> DRow(TableOf(r), r.sub, a)]]
    ELSE [delaunay |-> DelaunayTriples(r.V),
          m |-> MatrixOf(TableOf(r), r.sub, r.P),
          drow |-> [a \in 1 .. NPx(r) |-> DRow(TableOf(r), r.sub, a)]]

\* signature of the failing input class (used to match known findings)
SubClass(r) == IF \A a, b \in DOMAIN r.sub : r.sub[a] = r.sub[b] THEN "uniform-sub" ELSE "per-pixel-sub"
\* (the hull edges and the textbook triangulation are computed once per rejected record)
HullEdgeSet(V) == { e \in { {a, b} : a, b \in VIdx(V) } : Cardinality(e) = 2 /\ HullEdge(V, e) }
OutsideHull(V, H, p) ==
    \E e \in H : LET a == CHOOSE k \in e : TRUE  b == CHOOSE k \in e : k # a IN
        \E u \in VIdx(V) : Sign(OrientQ(Vx(V, a), Vx(V, b), p)) * Sign(Orient(Vx(V, a), Vx(V, b), Vx(V, u))) < 0
Sig(r) ==
    IF IsRect(r)
    THEN "rect/" \o (IF r.my = r.mx THEN "square-mesh" ELSE "non-square-mesh") \o "/" \o SubClass(r)
    ELSE IF ~ InputOk(r) THEN "delaunay/bad-input"
    ELSE LET H == HullEdgeSet(r.V)
             D == DelaunayTriples(r.V)
         IN "delaunay/" \o (IF \E q \in DOMAIN r.pos : OutsideHull(r.V, H, Qp(r, q)) THEN "points-outside-hull" ELSE "all-inside-hull")
            \o "/" \o SubClass(r)
            \o (IF \E a \in VIdx(r.V) : Cardinality(SimplexAdj(D, a)) >= 13 THEN "/hub-vertex" ELSE "")
            \o (IF \E q \in DOMAIN r.fine : r.fine[q] # << 0, 0 >> THEN "/points-near-edges" ELSE "")

TraceInit == /\ i = 1
             /\ inp = [kind |-> "trace"] /\ phase = "trace" /\ tab = << >> /\ mat = << >> /\ uniq = << >> /\ nbr = << >>

TraceNext ==
    /\ i <= Len(Trace)
    /\ LET r == Trace[i]
           f == Failed(r)
       IN IF f = << >> THEN TRUE
          ELSE PrintT(ToJson([k |-> "reject", i |-> i, id |-> r.id,
                              clauses |-> [j \in DOMAIN f |-> f[j].n],
                              sig |-> Sig(r), want |-> Want(r)]))
    /\ i' = i + 1
    /\ UNCHANGED vars

TraceSpec == TraceInit /\ [][TraceNext]_<< vars, i >>
TraceAccepted == TLCGet("stats").diameter - 1 = Len(Trace)
=============================================================================
