--------------------------- MODULE Trace_SubSizes ---------------------------
(***************************************************************************)
(* Validation of recorded executions of the real adaptive sub-size code    *)
(* against SubSizes.tla (X05).  One record per public call.  Verdicts are  *)
(* total: every record is judged; a rejected record is printed with the    *)
(* failing clauses, the signature of the failing input class and what the  *)
(* specification wanted.                                                   *)
(*                                                                         *)
(* Record kinds (field `api`):                                             *)
(*  radial  OverSamplingUniform.from_radial_bins (via = "bins") or         *)
(*          from_adaptive_scheme (via = "scheme"): the per-pixel sub sizes *)
(*          returned for a mask, geometry, centre list and bins            *)
(*  adapt   OverSamplingUniform.from_adapt on integer data / noise         *)
(*  query   ONE query of an OverSamplerUniform (made directly or through   *)
(*          over_sampler_from of a possibly shared OverSamplingUniform):   *)
(*          q in total, length, frac, areas, sfs, grid, nsm; the answer as *)
(*          a flat list of integers (ticks, ticks^2, indexes, or the       *)
(*          denominators of the fractions)                                 *)
(*  maps    the helper index maps of over_sample_util for one sub size n   *)
(* Values that are not on the lattice are counted in `off` by the harness  *)
(* (never rounded silently) and rejected here.                             *)
(***************************************************************************)
EXTENDS SubSizes, IOUtils

Trace == JsonDeserialize(IOEnv.TRACE_FILE)

VARIABLE i

Un(r) == { CellOf(r.u[k], r.w) : k \in DOMAIN r.u }
GeoOf(r) == [h |-> r.h, w |-> r.w, sy |-> r.sy, sx |-> r.sx, oy |-> r.oy, ox |-> r.ox]
Cl(n, b) == [n |-> n, ok |-> b]
IsPairSeq(s) == \A k \in DOMAIN s : Len(s[k]) = 2
Smaller(a, b) == IF a <= b THEN a ELSE b
FirstDiff(a, b) ==
    LET n == Smaller(Len(a), Len(b))
        D == { k \in 1 .. n : a[k] # b[k] }
    IN IF D # {} THEN Min(D) ELSE IF Len(a) = Len(b) THEN 0 ELSE n + 1
At(s, k) == IF k >= 1 /\ k <= Len(s) THEN << s[k] >> ELSE << >>
MaskOk(r) == /\ r.h >= 1 /\ r.w >= 1 /\ Len(r.u) >= 1
             /\ \A k \in DOMAIN r.u : r.u[k] >= 0 /\ r.u[k] < r.h * r.w /\ (k > 1 => r.u[k-1] < r.u[k])

\* the native view of a per-pixel array: the slim values at the unmasked cells, zero at the masked cells
NativeView(r, slim) ==
    LET rm == RowMajor(r.h, r.w)
        U == Un(r)
        num == TLCEval(Numbering([t \in 1 .. Len(rm) |-> IF rm[t] \in U THEN 0 ELSE 1]))
    IN [t \in 1 .. Len(rm) |-> IF num[t] = -1 THEN 0 ELSE slim[num[t] + 1]]
ResultShape(r) ==
    << Cl("result-is-array2d-on-the-mask-of-the-input", r.isarr = 1 /\ r.onmask = 1),
       Cl("one-integer-sub-size-per-unmasked-pixel", Len(r.sub) = Len(r.u) /\ r.off = 0),
       Cl("native-view-holds-the-sub-sizes-at-unmasked-pixels-and-zero-elsewhere",
          Len(r.sub) = Len(r.u) /\ r.nat = NativeView(r, r.sub)) >>

\* ---- radial --------------------------------------------------------------
RT(r) == IF r.via = "scheme" THEN SchemeT(GeoOf(r), r.tt) ELSE r.tt
RadialInputOk(r) ==
    /\ MaskOk(r) /\ EvenScales(GeoOf(r))
    /\ IsPairSeq(r.tt) /\ IsPairSeq(r.cl)
    /\ BinsOk(r.s, RT(r))
    /\ (r.via = "scheme" => Len(r.cl) = 1 /\ ~ OnPixelEdge(r.cl[1], GeoOf(r)))
\* The centre lists the circles may be drawn around.  bins: the given list; omitted: "the centre of the mask" (the
\* bounding-box centre mask.mask_centre, or the centre of the frame); scheme: the given centre or the centre of the
\* pixel it is located in (the docstring names the centre, the implementation moves it to its pixel centre).
CentreCands(r) ==
    LET G == GeoOf(r) IN
    IF r.via = "scheme" THEN { << r.cl[1] >>, << Snap(r.cl[1], G) >> }
    ELSE IF Len(r.cl) = 0 THEN { << MaskCentre(Un(r), G) >>, << << r.oy, r.ox >> >> }
    ELSE { r.cl }
\* the statement's "nearest centre" and the docstring's "increase per centre": either reading, one per call
RadialWants(r) ==
    LET ctrs == TLCEval(Centres(Un(r), GeoOf(r)))
        T == RT(r)
    IN { RadialMax(ctrs, cl, r.s, T) : cl \in CentreCands(r) } \cup { RadialNearest(ctrs, cl, r.s, T) : cl \in CentreCands(r) }
RadialTie(r) == \E cl \in CentreCands(r) : HasTie(Centres(Un(r), GeoOf(r)), cl, RT(r))

ClausesRadial(r) ==
    IF ~ RadialInputOk(r) THEN << Cl("input-on-lattice-and-bins-well-formed", FALSE) >>
    ELSE << Cl("pixels-on-a-bin-edge-only-with-exact-arithmetic", RadialTie(r) => r.exact = 1) >>
         \o ResultShape(r)
         \o << Cl("sub-size-of-the-first-bin-whose-edge-exceeds-the-distance-to-the-nearest-centre",
                  Len(r.sub) = Len(r.u) /\ r.sub \in RadialWants(r)) >>

CentreClass(r) ==
    LET G == GeoOf(r)
        p == PixelOf(r.cl[1], G)
    IN IF p[1] < 0 \/ p[2] < 0 THEN "centre-above-or-left-of-frame"
       ELSE IF p[1] >= r.h \/ p[2] >= r.w THEN "centre-below-or-right-of-frame"
       ELSE IF Snap(r.cl[1], G) = r.cl[1] THEN "centre-on-pixel-centre"
       ELSE "centre-inside-frame-off-pixel-centre"
RadialSig(r) ==
    IF ~ RadialInputOk(r) THEN "radial/malformed-input"
    ELSE IF r.via = "scheme" THEN "scheme/" \o CentreClass(r)
    ELSE "bins/" \o (IF Len(r.cl) = 0 THEN "default-centre" ELSE IF Len(r.cl) = 1 THEN "one-centre" ELSE "several-centres")
         \o (IF NonIncreasing(r.s) THEN "/non-increasing-sub-sizes" ELSE "/unordered-sub-sizes")
         \o (IF RadialTie(r) THEN "/pixel-on-bin-edge" ELSE "")

\* ---- adapt ---------------------------------------------------------------
AdaptInputOk(r) ==
    /\ MaskOk(r)
    /\ Len(r.d) = Len(r.u) /\ Len(r.nz) = Len(r.u)
    /\ \A k \in DOMAIN r.nz : r.nz[k] > 0
    /\ Len(r.cut) = 2 /\ r.cut[2] > 0
ClausesAdapt(r) ==
    IF ~ AdaptInputOk(r) THEN << Cl("input-well-formed", FALSE) >>
    ELSE ResultShape(r)
         \o << Cl("upper-sub-size-exactly-where-signal-to-noise-exceeds-the-documented-cut",
                  r.sub = AdaptSub(r.d, r.nz, r.cut, r.lo, r.up)) >>
AdaptSig(r) ==
    IF ~ AdaptInputOk(r) THEN "adapt/malformed-input"
    ELSE "adapt/" \o r.store \o "-stored/"
         \o (IF EffCut(r.d, r.nz, r.cut) # r.cut THEN "cut-lowered-to-half-the-maximum" ELSE "cut-as-given")

\* ---- query ---------------------------------------------------------------
QueryInputOk(r) ==
    /\ MaskOk(r) /\ Len(r.sub) = Len(r.u)
    /\ \A k \in DOMAIN r.sub : r.sub[k] >= 1
    /\ r.q \in {"total", "length", "frac", "areas", "sfs", "grid", "nsm"}
    /\ (r.q \in {"areas", "grid"} => SubLattice(GeoOf(r), r.sub))          \* the other answers are pure index arithmetic
\* the native sub index is documented for one sub size; for a per-pixel map every sub-pixel must still lie in its
\* parent pixel's own refined frame, every sub-pixel of a block at a different place
NsmPerPixelOk(r) ==
    LET ss == SlimSeq(Un(r), r.h, r.w)
        sfs == TLCEval(SlimForSubSlim(r.sub))
        tot == Total(r.sub)
    IN /\ Len(r.val) = 2 * tot
       /\ \A t \in 1 .. tot :
            LET n == r.sub[sfs[t] + 1]
            IN /\ r.val[2*t - 1] >= 0 /\ r.val[2*t] >= 0
               /\ << r.val[2*t - 1] \div n, r.val[2*t] \div n >> = ss[sfs[t] + 1]
       /\ Cardinality({ << sfs[t], r.val[2*t - 1], r.val[2*t] >> : t \in 1 .. tot }) = tot
ClausesQuery(r) ==
    IF ~ QueryInputOk(r) THEN << Cl("input-on-lattice", FALSE) >>
    ELSE IF r.exc # "" THEN << Cl("query-returns-without-exception", FALSE) >>
    ELSE << Cl("answer-on-lattice", r.off = 0),
            Cl(r.q \o "-derived-from-the-current-mask-and-sub-sizes-only",
               IF r.q = "nsm" /\ ~ Uniform(r.sub) THEN NsmPerPixelOk(r) ELSE r.val = Answer(r.q, Un(r), GeoOf(r), r.sub)) >>
QuerySig(r) ==
    IF ~ QueryInputOk(r) THEN "query/malformed-input"
    ELSE IF r.exc # "" /\ r.dt = "float" THEN "query/" \o r.q \o "/float-valued-sub-size-array-raises"
    ELSE "query/" \o r.q \o "/" \o r.dt \o "-sub-sizes" \o (IF Uniform(r.sub) THEN "/one-sub-size" ELSE "/per-pixel-sub-sizes")
         \o (IF r.o > 0 THEN "/second-mask-of-shared-object" ELSE "") \o (IF r.again = 1 THEN "/asked-again" ELSE "")

\* ---- maps ----------------------------------------------------------------
MapsInputOk(r) == MaskOk(r) /\ r.n >= 1
MapsConsistent(r) ==
    LET N == Len(r.u)
        W == r.w * r.n
        cells == Len(r.nsi) \div 2
        ss == SlimSeq(Un(r), r.h, r.w)
        pos(t) == r.nsi[2*t - 1] * W + r.nsi[2*t] + 1
    IN /\ Len(r.nsi) = 2 * Len(r.sfs) /\ Len(r.om) = r.h * r.n * W /\ Len(r.num) = Len(r.om)
       /\ \A t \in 1 .. cells :
            /\ r.nsi[2*t - 1] >= 0 /\ r.nsi[2*t - 1] < r.h * r.n /\ r.nsi[2*t] >= 0 /\ r.nsi[2*t] < W
            /\ r.om[pos(t)] = 0 /\ r.num[pos(t)] >= 0
            /\ r.sfs[t] >= 0 /\ r.sfs[t] < N
            /\ << r.nsi[2*t - 1] \div r.n, r.nsi[2*t] \div r.n >> = ss[r.sfs[t] + 1]
       /\ { r.num[pos(t)] : t \in 1 .. cells } = 0 .. r.total - 1
       /\ Cardinality({ t \in 1 .. Len(r.om) : r.om[t] = 0 }) = r.total
ClausesMaps(r) ==
    IF ~ MapsInputOk(r) THEN << Cl("input-well-formed", FALSE) >>
    ELSE IF r.exc # "" THEN << Cl("call-returns-without-exception", FALSE) >>
    ELSE LET U == Un(r)
             sub == [k \in 1 .. Len(r.u) |-> r.n]
             G == [h |-> r.h, w |-> r.w]
             flat == TLCEval(FineMaskFlat(U, r.n, r.h, r.w))
         IN << Cl("total-sub-pixels-is-sum-of-squares", r.total = Total(sub)),
               Cl("native-sub-index-of-every-sub-pixel-pixel-after-pixel-row-major-in-the-block",
                  r.nsi = FlattenSeq(NativeSub(U, sub, G))),
               Cl("slim-index-of-the-parent-of-every-sub-pixel", r.sfs = SlimForSubSlim(sub)),
               Cl("oversampled-mask-expands-every-pixel-to-n-by-n", r.om = flat),
               Cl("sub-slim-numbering-is-row-major-over-the-unmasked-entries", r.num = Numbering(flat)),
               Cl("helper-maps-mutually-consistent", MapsConsistent(r)) >>

\* ---- dispatch ------------------------------------------------------------
Clauses(r) ==
    CASE r.api = "query" -> ClausesQuery(r)
      [] r.api = "maps"  -> ClausesMaps(r)
      \* from_adaptive_scheme documents one exception: a grid that Grid2D.is_uniform calls non-uniform; that test looks at
      \* the y steps between consecutive pixels, so a mask with an empty row between unmasked rows is refused
      [] r.api = "radial" /\ r.exc # "" /\ r.via = "scheme" /\ r.refused = 1 /\ MaskOk(r) /\ RowGap(Un(r)) -> << >>
      [] r.api \in {"radial", "adapt"} /\ r.exc # "" -> << Cl("call-returns-without-exception", FALSE) >>
      [] r.api = "radial" -> ClausesRadial(r)
      [] r.api = "adapt"  -> ClausesAdapt(r)
      [] OTHER -> << Cl("unknown-api", FALSE) >>

Sig(r) ==
    CASE r.api = "radial" -> RadialSig(r)
      [] r.api = "adapt"  -> AdaptSig(r)
      [] r.api = "query"  -> QuerySig(r)
      [] r.api = "maps"   -> "maps/one-sub-size"
      [] OTHER -> "unknown-api"

Want(r) ==
    CASE r.api = "radial" /\ RadialInputOk(r) ->
           LET ctrs == Centres(Un(r), GeoOf(r))
               cl == CHOOSE c \in CentreCands(r) : TRUE
           IN [centres |-> CentreCands(r), per_centre_maximum |-> RadialMax(ctrs, cl, r.s, RT(r)),
               nearest_centre |-> RadialNearest(ctrs, cl, r.s, RT(r))]
      [] r.api = "adapt" /\ AdaptInputOk(r) ->
           [cut |-> EffCut(r.d, r.nz, r.cut), sub |-> AdaptSub(r.d, r.nz, r.cut, r.lo, r.up)]
      [] r.api = "query" /\ QueryInputOk(r) ->
           LET w == Answer(r.q, Un(r), GeoOf(r), r.sub)
               d == FirstDiff(r.val, w)
           IN [first_diff_at |-> d, got |-> At(r.val, d), want |-> At(w, d), len |-> Len(w)]
      [] r.api = "maps" /\ MapsInputOk(r) ->
           LET sub == [k \in 1 .. Len(r.u) |-> r.n]
               w == FlattenSeq(NativeSub(Un(r), sub, [h |-> r.h, w |-> r.w]))
               d == FirstDiff(r.nsi, w)
           IN [total |-> Total(sub), nsi_first_diff_at |-> d, got |-> At(r.nsi, d), want |-> At(w, d)]
      [] OTHER -> << >>

Failed(r) == SelectSeq(Clauses(r), LAMBDA c : ~ c.ok)

TraceInit == i = 1 /\ IdleS /\ IdleH

TraceNext ==
    /\ i <= Len(Trace)
    /\ LET r == Trace[i]
           f == Failed(r)
       IN IF f = << >> THEN TRUE
          ELSE PrintT(ToJson([k |-> "reject", i |-> i, id |-> r.id,
                              clauses |-> [j \in DOMAIN f |-> f[j].n],
                              sig |-> Sig(r), want |-> Want(r)]))
    /\ i' = i + 1
    /\ UNCHANGED vars

TraceSpec == TraceInit /\ [][TraceNext]_<< vars, i >>
TraceAccepted == TLCGet("stats").diameter - 1 = Len(Trace)
=============================================================================
