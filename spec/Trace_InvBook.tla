--------------------------- MODULE Trace_InvBook ---------------------------
(***************************************************************************)
(* Validation of recorded read histories of REAL inversions against        *)
(* InvBook.tla.  One record = one inversion object (the instance in the    *)
(* integer units of InvBook.tla, with every block taken from the linear    *)
(* object itself, never from the inversion) and the sequence of reads done *)
(* on it, each with the alpha-abstraction of what the inversion returned:  *)
(*   reads[j] = [q, arg, filt, raised, bad, v, aux]                        *)
(*     q      published name; arg / filt class names of class queries      *)
(*     raised the read raised an exception                                 *)
(*     bad    the value does not have the published type / is off lattice  *)
(*     v      the abstracted value (0 when raised or bad)                  *)
(*     aux    second abstraction of the same value where a law needs one   *)
(* Dictionaries are sequences of [key, v] in key order; key = 0-based      *)
(* position of the key OBJECT in the list (identity), -2 = not an object   *)
(* of the list.  Class-list entries: k = object k, 100+k = its             *)
(* regularization, -1 = None, -2 = something else.                         *)
(* The values do not depend on the position of a read in the history: the  *)
(* judge is InvBook's meaning layer applied to the instance, whatever was  *)
(* read before (ReadsAreOrderIndependent).                                 *)
(* Every read is judged (total verdicts, named clauses); one reject line   *)
(* per failing read, with a signature  quantity : layout class  computed   *)
(* here.                                                                   *)
(***************************************************************************)
EXTENDS InvBook, IOUtils

Trace == JsonDeserialize(IOEnv.TRACE_FILE)
VARIABLE i

Cl(nm, ok) == IF ok THEN << >> ELSE << nm >>
NearVec(a, b, tol(_)) == Len(a) = Len(b) /\ \A t \in DOMAIN a : Abs(a[t] - b[t]) <= tol(t)
KeysOK(obs, want) == Len(obs) = Len(want) /\ \A j \in DOMAIN obs : obs[j].key = want[j].key
Tiny(T) == T.tot <= 4

EqualityLaw(q) ==
  CASE q = "total_params" -> "total-is-the-sum-of-the-objects-sizes"
    [] q = "param_range_list_from" -> "ranges-are-the-consecutive-intervals-of-the-selected-objects-in-list-order"
    [] q \in {"cls_list_from", "total", "has"} -> "selection-is-the-sublist-of-instances-in-list-order"
    [] q \in {"regularization_list", "total_regularizations", "all_linear_obj_have_regularization"} -> "one-regularization-entry-per-object-in-list-order"
    [] q \in {"mapping_matrix", "operated_mapping_matrix", "operated_mapping_matrix_list"} -> "object-k-holds-the-columns-of-range-k"
    [] q = "regularization_matrix" -> "block-diagonal-with-object-k-in-range-k-zero-when-unregularised"
    [] q \in {"regularization_matrix_reduced", "curvature_reg_matrix_reduced"} -> "reduced-form-deletes-exactly-the-unregularised-rows-and-columns"
    [] q \in {"curvature_matrix", "curvature_reg_matrix"} -> "curvature-plus-regularization-with-diagonal-term-in-unregularised-ranges"
    [] q = "regularization_weights_from" -> "weights-of-index-k-are-those-of-the-kth-object-of-the-list"
    [] OTHER -> "value-is-what-the-statement-pins"
EqualityQs == {"regularization_weights_from", "total_params", "param_range_list_from", "cls_list_from", "total", "has", "regularization_list", "total_regularizations",
               "all_linear_obj_have_regularization", "mapping_matrix", "operated_mapping_matrix", "operated_mapping_matrix_list",
               "regularization_matrix", "regularization_matrix_reduced", "curvature_matrix", "curvature_reg_matrix",
               "curvature_reg_matrix_reduced"}
ExactDictQs == {"linear_func_operated_mapping_matrix_dict", "mapper_operated_mapping_matrix_dict", "regularization_weights_mapper_dict"}
LinearDictQs == {"mapped_reconstructed_data_dict", "mapped_reconstructed_image_dict", "data_subtracted_dict"}

ReconstructionQs == LinearDictQs \cup {"reconstruction", "reconstruction_reduced", "reconstruction_dict", "mapped_reconstructed_data",
                                        "mapped_reconstructed_image", "regularization_term"}
NoiseQs == {"reconstruction_noise_map", "reconstruction_noise_map_with_covariance", "reconstruction_noise_map_dict"}
\* r = the record (instance fields + e = noise map of a cold twin in fixed point), rd = one read
JudgeRead(T, r, rd) ==
  LET q == rd.q IN
  IF rd.raised THEN << "no-exception" >>
  ELSE IF rd.bad THEN << "value-has-the-published-type-and-is-on-the-lattice" >>
  \* the reconstruction and the noise map of a record come from a cold twin inversion: their lengths are judged, not assumed
  ELSE IF q \in ReconstructionQs /\ Len(T.I.s) # T.tot THEN << "reconstruction-has-one-entry-per-parameter" >>
  ELSE IF q \in NoiseQs /\ Len(r.e) # T.tot THEN << "noise-map-has-one-entry-per-parameter" >>
  ELSE
  CASE q \in EqualityQs -> Cl(EqualityLaw(q), rd.v = Want(T, q, rd.arg, rd.filt))
    [] q = "mask" -> Cl("mask-is-the-mask-of-the-data", rd.v = TRUE)
    [] q = "no_regularization_index_list" ->
         Cl("index-list-is-exactly-the-union-of-the-unregularised-ranges", SamePerm(rd.v, UnregSeq(T)))
    [] q = "mapper_edge_pixel_list" ->
         Cl("edge-pixels-are-each-mappers-own-shifted-by-its-range-start", SamePerm(rd.v, EdgeSeq(T)))
    [] q = "mapper_zero_pixel_list" ->
         LET ms == SelObjs(T, "AbstractMapper")
             all == UNION { ZeroSet(T, ms[j]) : j \in DOMAIN ms }
         IN Cl("zeroed-pixels-are-each-mappers-own-shifted-by-its-range-start",
               ToSet(rd.v) = all /\ Len(rd.v) = Cardinality(all))
    [] q \in ExactDictQs ->
         LET want == Want(T, q, "", "") ok == KeysOK(rd.v, want)
         IN Cl("dictionary-keys-are-the-selected-objects-in-list-order", ok)
            \o Cl("dictionary-value-belongs-to-its-key-object", ok => \A j \in DOMAIN want : rd.v[j].v = want[j].v)
    [] q = "data_linear_func_matrix_dict" ->
         LET fs == SelObjs(T, "AbstractLinearObjFuncList")
         IN Cl("dictionary-keys-are-the-selected-objects-in-list-order", Len(rd.v) = Len(fs) /\ \A j \in DOMAIN fs : rd.v[j].key = fs[j] - 1)
            \o Cl("dictionary-value-belongs-to-its-key-object",
                  Len(rd.v) = Len(fs) => \A j \in DOMAIN fs : rd.v[j].rows = T.I.n /\ rd.v[j].cols = T.I.objs[fs[j]].p)
    [] q = "reconstruction" ->
         Cl("reconstruction-is-the-solution-whatever-was-read-before", NearVec(rd.v, T.I.s, LAMBDA t : TolMove(T)))
    [] q = "reconstruction_reduced" ->
         Cl("reduced-form-deletes-exactly-the-unregularised-entries", NearVec(rd.v, Red1(T.I.s, T.keep), LAMBDA t : TolMove(T)))
    [] q = "reconstruction_dict" ->
         LET want == Want(T, q, "", "") ok == KeysOK(rd.v, want)
         IN Cl("dictionary-keys-are-the-objects-in-list-order-one-entry-per-object", ok)
            \o Cl("dictionary-value-is-the-slice-of-the-objects-range", ok => \A j \in DOMAIN want : NearVec(rd.v[j].v, want[j].v, LAMBDA t : TolMove(T)))
    [] q \in LinearDictQs ->
         LET want == Want(T, q, "", "") ok == KeysOK(rd.v, want)
         IN Cl("dictionary-keys-are-the-objects-in-list-order-one-entry-per-object", ok)
            \o Cl(IF q = "data_subtracted_dict" THEN "data-minus-the-mapped-images-of-all-other-objects"
                  ELSE "operated-block-of-the-object-times-its-slice-of-the-reconstruction",
                  ok => \A j \in DOMAIN want :
                          NearVec(rd.v[j].v, want[j].v,
                                  LAMBDA t : IF q = "data_subtracted_dict" THEN TolSum(T, "B", t, {j}) ELSE TolPart(T, j, "B", t)))
    [] q \in {"mapped_reconstructed_data", "mapped_reconstructed_image"} ->
         Cl("sum-over-the-objects-of-their-mapped-parts", NearVec(rd.v, Want(T, q, "", ""), LAMBDA t : TolSum(T, "B", t, {})))
    [] q = "regularization_term" ->
         Cl("quadratic-form-of-the-reduced-reconstruction-and-reduced-matrix", T.I.exact => rd.v = RegTerm(T))
    [] q \in {"reconstruction_noise_map", "reconstruction_noise_map_with_covariance"} ->
         \* v: the noise map (the diagonal of the covariance form) in fixed point; aux: its squares times S2 for tiny systems
         Cl("noise-map-is-the-same-whatever-was-read-before-in-parameter-order", NearVec(rd.v, r.e, LAMBDA t : 1))
         \o (IF Tiny(T) /\ Len(rd.aux) = T.tot
             THEN LET CC == CCof(T) det == Det(CC, T.tot)
                  IN Cl("noise-map-squared-is-the-diagonal-of-the-inverse-of-curvature-reg-matrix",
                        det > 0 /\ \A k \in 1 .. T.tot :
                           /\ rd.aux[k] >= 0 /\ rd.aux[k] <= 1073741824 \div det       \* (a wrong value must be a rejection, not an overflow)
                           /\ Abs(rd.aux[k] * det - r.S2 * T.I.g * Det(Without(CC, T.tot, k), T.tot - 1)) <= (det + 1) \div 2 + 1)
             ELSE << >>)
    [] q = "reconstruction_noise_map_dict" ->
         LET want == DictOf(Idx(T.N), LAMBDA k : Slice(T, r.e, k)) ok == KeysOK(rd.v, want)
         IN Cl("dictionary-keys-are-the-objects-in-list-order-one-entry-per-object", ok)
            \o Cl("dictionary-value-is-the-slice-of-the-objects-range", ok => \A j \in DOMAIN want : NearVec(rd.v[j].v, want[j].v, LAMBDA t : 1))
    [] q = "log_det_regularization_matrix_term" ->
         IF ~ Tiny(T) THEN << "request-outside-the-judged-family" >>
         ELSE Cl("exp-of-the-term-is-the-determinant-of-the-reduced-regularization-matrix", rd.v = Det(Red2(HHof(T), T.keep), Len(T.keep)))
    [] q = "log_det_curvature_reg_matrix_term" ->
         IF ~ Tiny(T) THEN << "request-outside-the-judged-family" >>
         ELSE Cl("exp-of-the-term-is-the-determinant-of-the-reduced-curvature-reg-matrix", rd.v = Det(Red2(CCof(T), T.keep), Len(T.keep)))
    [] OTHER -> << "unknown-request" >>

-----------------------------------------------------------------------------
(* signatures: quantity : the layout class that matters for it (computed from the instance) *)
Equal(o1, o2) == o1.cls = o2.cls /\ o1.reg = o2.reg /\ o1.p = o2.p /\ o1.M = o2.M /\ o1.B = o2.B /\ o1.H = o2.H
HasDuplicates(T) == \E k, l \in 1 .. T.N : k < l /\ Equal(T.I.objs[k], T.I.objs[l])
UnregLayout(T) ==
  LET reg(k) == HasReg(T.I.objs[k]) N == T.N IN
  IF \A k \in 1 .. N : reg(k) THEN "all-regularised"
  ELSE IF \A k \in 1 .. N : ~ reg(k) THEN "none-regularised"
  ELSE IF \E m \in 1 .. N - 1 : (\A k \in 1 .. m : ~ reg(k)) /\ (\A k \in m + 1 .. N : reg(k)) THEN "unregularised-first"
  ELSE IF \E m \in 1 .. N - 1 : (\A k \in 1 .. m : reg(k)) /\ (\A k \in m + 1 .. N : ~ reg(k)) THEN "unregularised-last"
  ELSE "unregularised-interleaved"
KindLayout(T) ==
  LET mp(k) == IsMapper(T.I.objs[k]) N == T.N IN
  IF \A k \in 1 .. N : mp(k) THEN "mappers-only"
  ELSE IF \A k \in 1 .. N : ~ mp(k) THEN "function-lists-only"
  ELSE IF \E m \in 1 .. N - 1 : (\A k \in 1 .. m : mp(k)) /\ (\A k \in m + 1 .. N : ~ mp(k)) THEN "mappers-first"
  ELSE "function-list-before-mapper"
CountLayout(T) == IF HasDuplicates(T) THEN "duplicate-objects" ELSE IF T.N = 1 THEN "single-object" ELSE "several-objects"
UnregQs == {"no_regularization_index_list", "regularization_matrix", "regularization_matrix_reduced", "curvature_matrix", "curvature_reg_matrix",
            "curvature_reg_matrix_reduced", "reconstruction_reduced", "regularization_term", "log_det_regularization_matrix_term",
            "log_det_curvature_reg_matrix_term", "all_linear_obj_have_regularization", "total_regularizations", "regularization_list"}
KindQs == {"param_range_list_from", "cls_list_from", "total", "has", "mapper_edge_pixel_list", "mapper_zero_pixel_list",
           "regularization_weights_mapper_dict", "mapper_operated_mapping_matrix_dict", "linear_func_operated_mapping_matrix_dict",
           "data_linear_func_matrix_dict"}
\* the pinned code indexes the whole list with the rank of the mapper among the mappers: named only when the observation is exactly that
WeightsOfObjectAtMapperRank(T, rd) ==
  LET ms == SelObjs(T, "AbstractMapper")
  IN /\ Len(rd.v) = Len(ms)
     /\ \A j \in DOMAIN ms : rd.v[j].key = ms[j] - 1 /\ rd.v[j].v = T.I.objs[j].wts
Sig(T, rd) ==
  rd.q \o (IF rd.arg = "" THEN "" ELSE "(" \o rd.arg \o (IF rd.filt = "" THEN "" ELSE "-" \o rd.filt) \o ")") \o ":"
  \o (IF rd.q \in UnregQs THEN UnregLayout(T) ELSE IF rd.q \in KindQs THEN KindLayout(T) ELSE CountLayout(T))
  \o (IF rd.q = "regularization_weights_mapper_dict" /\ ~ rd.raised /\ ~ rd.bad /\ WeightsOfObjectAtMapperRank(T, rd)
      THEN ":weights-of-the-object-at-the-mappers-rank" ELSE "")
  \o (IF rd.raised THEN ":raises" ELSE "")

WantOf(T, r, rd) ==
  IF rd.q \in ReconstructionQs /\ Len(T.I.s) # T.tot THEN [parameters |-> T.tot]
  ELSE IF rd.q \in EqualityQs \cup ExactDictQs \cup ReconstructionQs
  THEN Want(T, rd.q, rd.arg, rd.filt)
  ELSE IF rd.q = "no_regularization_index_list" THEN UnregSeq(T)
  ELSE IF rd.q = "mapper_edge_pixel_list" THEN EdgeSeq(T)
  ELSE << >>

InstOfRecord(r) == [n |-> r.n, objs |-> r.objs, w |-> r.w, d |-> r.d, g |-> r.g, eps |-> r.eps, s |-> r.s, S |-> r.S,
                    exact |-> r.exact, zpix |-> r.zpix]

\* all reads of one record, judged against one table (constant level: the table is evaluated once per record)
RECURSIVE RejectsFrom(_, _, _)
RejectsFrom(T, r, j) ==
  IF j > Len(r.reads) THEN << >>
  ELSE LET rd == r.reads[j] f == JudgeRead(T, r, rd)
       IN (IF f = << >> THEN << >>
           ELSE << [k |-> "reject", id |-> r.id, read |-> j, q |-> rd.q, arg |-> rd.arg, clauses |-> f, sig |-> Sig(T, rd), want |-> WantOf(T, r, rd)] >>)
          \o RejectsFrom(T, r, j + 1)
Rejects(r) == RejectsFrom(TabFull(InstOfRecord(r)), r, 1)

TraceInit == i = 1 /\ lst = << >> /\ cache = NoCache /\ nreads = 0 /\ out = NoOut
TraceNext ==
  /\ i <= Len(Trace)
  /\ LET rj == Rejects(Trace[i])
     IN \A x \in DOMAIN rj : PrintT(ToJson(rj[x] @@ [i |-> i]))
  /\ i' = i + 1
  /\ UNCHANGED vars
TraceSpec == TraceInit /\ [][TraceNext]_<< vars, i >>
TraceAccepted == TLCGet("stats").diameter - 1 = Len(Trace)
=============================================================================
