-------------------------------- MODULE Fit --------------------------------
(***************************************************************************)
(* C08: fit statistics and evidence follow their definitions on unmasked   *)
(* pixels only.                                                            *)
(*                                                                         *)
(* Exact domain.  A dataset lives on an H x W frame with the set U of      *)
(* unmasked cells.  Per unmasked pixel (slim = row-major order): integer   *)
(* data d, integer model m, noise sigma = 2^e with e in {-1,0,1}; an       *)
(* integer background sky level `sky` of the dataset model.  Then          *)
(*   residual            r = (d - sky) - m                 integer         *)
(*   normalized residual r / sigma       = NormRes2 / 2    (half units)    *)
(*   chi-squared map     (r / sigma)^2   = Chi2Map4 / 4    (quarter units) *)
(*   chi-squared         sum over U      = Chi2Q / 4                       *)
(*   noise normalization sum over U of ln(2 pi sigma^2): a real number;    *)
(*       enters through the CONSTANT table LogTable[e] = round(S*ln(2 pi   *)
(*       4^e)), S = LogScale (computed by math.log, not by the code under  *)
(*       test); fixed-point comparisons carry the rounding bound n/2 + 1   *)
(*   log likelihood      -(chi2 + normalization)/2  (composition, fixed    *)
(*       point with rounding bound)                                        *)
(*   signal-to-noise     max((d - sky)/sigma, 0)    (half units)           *)
(*   residual flux fraction r/(d - sky): pinned only where d - sky # 0     *)
(* With an inversion over an ordered list of linear objects (p parameters  *)
(* each, regularised or not) with integer matrices FH = sc*(F+H),          *)
(* H = sc*H and reconstruction s:                                          *)
(*   regularization term s_r' H_r s_r,  log det (F+H)_r,  log det H_r,     *)
(*   _r = restriction to the parameters of REGULARISED objects; the log    *)
(*   determinants are abstracted through exp: det as an exact integer      *)
(*   (Laplace expansion, at most 4 regularised parameters).                *)
(*   evidence = -(chi2 + reg + ldc - ldr + normalization)/2 (composition), *)
(*   figure of merit = evidence if an inversion is present else likelihood.*)
(*                                                                         *)
(* Layer 1 (meaning) is parametrised by shapes and sequences so that the   *)
(* trace specification reuses it.  The second, code-structured formulation *)
(* is the masked-native evaluation mode: full native arrays that carry     *)
(* ARBITRARY JUNK in masked cells, `where`-masked element-wise operations, *)
(* sums over the cells selected by the mask; and np.delete of the          *)
(* no-regularization index list for the reduced matrices.                  *)
(***************************************************************************)
EXTENDS Integers, Sequences, FiniteSets, TLC, Json, SequencesExt, FiniteSetsExt, Folds

CONSTANTS
  FullShapes,  \* shapes <<H,W>> on which EVERY assignment of values to the unmasked pixels is explored ...
  FullMax,     \* ... for every mask with at most FullMax unmasked pixels
  PatShapes,   \* shapes on which every mask is explored with values taken from Patterns
  InvShapes,   \* shapes (all cells unmasked, first pattern) that are combined with every inversion of the family
  Vals,        \* data / model values
  Exps,        \* noise exponents e (sigma = 2^e), subset of -1..1
  Skies,       \* background sky levels
  Patterns,    \* sequence of value patterns; Patterns[p][lin+1] = <<d, m, e>> of the cell with linear index lin
  LogTable,    \* e |-> round(LogScale * ln(2 pi 4^e))
  LogScale,    \* S
  Layouts,     \* set of linear-object lists: sequences of [p |-> params, reg |-> BOOLEAN]
  MVals,       \* entries of the integer design matrix whose Gram matrix is the curvature matrix
  NRows,       \* rows of that design matrix
  RegKinds,    \* regularization blocks [z |-> zeroth term, c |-> neighbour term]: z*I + c*PathLaplacian
  SPats,       \* set of reconstruction patterns (sequences of integers, the first P entries are used)
  JunkFills,   \* junk fillings explored for the masked-native mode (0 = zeros)
  HistShapes,  \* shapes whose instances are also explored AFTER a dataset history (a fit of another dataset on the
               \* same / a copied / a parent dataset object)
  HistKinds,   \* the histories explored
  ScaleSeq,    \* the unit exponents k: an instance is realised in units 2^k (data, model, noise, sky all times 2^k);
               \* every instance gets one of them (rotation by ScaleRot), the scale theorems range over all of them
  ScaleRot,    \* rotation offset (the seed)
  Ln2Hi, Ln2Lo,\* LogScale * ln 2 = Ln2Hi + Ln2Lo/1000 (69314.718 for LogScale = 100000)
  RegByInstance,\* FALSE: the design (one block of the regularization matrix per LINEAR OBJECT).  TRUE: a design that looks
               \* the parameter range up by regularization INSTANCE (shown to be wrong by TLC when instances are shared)
  Memoise      \* FALSE: the design (every fit computes from the arrays it is given).  TRUE: a design that stores the
               \* noise normalization with the dataset object at the first fit (shown to be wrong by TLC)

\* the table is what the driver computed with math.log; pin it against the known digits of
\* ln(2 pi) = 1.8378770664093..., ln 4 = 1.3862943611198...
ASSUME LogScale = 100000 =>
         /\ LogTable[0] \in {183787, 183788}
         /\ LogTable[1] - LogTable[0] \in {138629, 138630}
         /\ LogTable[0] - LogTable[-1] \in {138629, 138630}
         /\ Ln2Hi = 69314 /\ Ln2Lo = 718        \* ln 2 = 0.69314718055994...

Off == 2000000000   \* alpha sentinel: "not on the lattice / not finite / out of range"

Abs(x) == IF x < 0 THEN -x ELSE x
Max0(x) == IF x < 0 THEN 0 ELSE x
SumSeq(s) == FoldLeft(LAMBDA a, b : a + b, 0, s)
SumOver(S, f(_)) == FoldSet(LAMBDA x, acc : acc + f(x), 0, S)

-----------------------------------------------------------------------------
(* Layer 1: meaning *)

Cells(H, W) == (0 .. H-1) \X (0 .. W-1)
Lin(c, W) == c[1] * W + c[2]
CellOf(k, W) == << k \div W, k % W >>
RowMajor(H, W) == [k \in 1 .. H*W |-> CellOf(k-1, W)]
SlimSeq(U, H, W) == SelectSeq(RowMajor(H, W), LAMBDA c : c \in U)
Rank(c, U, W) == 1 + Cardinality({x \in U : Lin(x, W) < Lin(c, W)})

\* 2/sigma and 4/sigma^2 for sigma = 2^e
Scale2(e) == CASE e = -1 -> 4 [] e = 0 -> 2 [] e = 1 -> 1
Scale4(e) == Scale2(e) * Scale2(e)

\* element-wise definitions on the unmasked pixels (sequences in slim order)
DataOf(d, sky)        == [k \in DOMAIN d |-> d[k] - sky]
Residual(d, m, sky)   == [k \in DOMAIN d |-> (d[k] - sky) - m[k]]
NormRes2(d, m, e, sky) == [k \in DOMAIN d |-> ((d[k] - sky) - m[k]) * Scale2(e[k])]
Chi2Map4(d, m, e, sky) == [k \in DOMAIN d |-> ((d[k] - sky) - m[k]) * ((d[k] - sky) - m[k]) * Scale4(e[k])]
Chi2Q(d, m, e, sky)   == SumSeq(Chi2Map4(d, m, e, sky))
NoiseNormFix(e)       == SumSeq([k \in DOMAIN e |-> LogTable[e[k]]])
\* the same dataset in units 2^k: sigma = 2^(e+k), ln(2 pi sigma^2) = ln(2 pi 4^e) + 2 k ln 2.  Everything else
\* (normalized residuals, chi-squared, signal-to-noise, residual flux fraction) does not depend on the unit;
\* residual, data and model are the integers above times 2^k.
Ln2Times(q) == q * Ln2Hi + (q * Ln2Lo) \div 1000
NoiseNormFixAt(e, k) == NoiseNormFix(e) + Ln2Times(2 * k * Len(e))
SigToNoise2(d, e, sky) == [k \in DOMAIN d |-> Max0((d[k] - sky) * Scale2(e[k]))]
\* residual flux fraction in units of 1/den: pinned where the data value is not zero
RffOk(rff, den, d, m, sky) ==
    /\ Len(rff) = Len(d)
    /\ \A k \in DOMAIN d : (d[k] - sky) # 0 => /\ rff[k] # Off
                                               /\ rff[k] * (d[k] - sky) = den * ((d[k] - sky) - m[k])

\* ---- inversion: parameter layout of an ordered list of linear objects ----
RECURSIVE OffP(_, _)
OffP(objs, o) == IF o = 1 THEN 0 ELSE OffP(objs, o-1) + objs[o-1].p
TotalP(objs) == IF Len(objs) = 0 THEN 0 ELSE OffP(objs, Len(objs)) + objs[Len(objs)].p
ObjOfP(objs, c) == CHOOSE o \in 1 .. Len(objs) : c > OffP(objs, o) /\ c <= OffP(objs, o) + objs[o].p
IsRegParam(objs, c) == objs[ObjOfP(objs, c)].reg
\* the regularised parameters (1-based, ascending): what "restricted to regularized parameters" means
RegIdx(objs) == SelectSeq([c \in 1 .. TotalP(objs) |-> c], LAMBDA c : IsRegParam(objs, c))
SubMat(M, idx) == [a \in 1 .. Len(idx) |-> [b \in 1 .. Len(idx) |-> M[idx[a]][idx[b]]]]
SubVec(v, idx) == [a \in 1 .. Len(idx) |-> v[idx[a]]]
IsMatrix(M, rows, cols) == Len(M) = rows /\ \A a \in 1 .. rows : Len(M[a]) = cols
MaxAbs(M) == LET vals == UNION { { Abs(M[a][b]) : b \in DOMAIN M[a] } : a \in DOMAIN M } IN IF vals = {} THEN 0 ELSE Max(vals)

\* quadratic form s' H s
Quad(s, H) == SumOver(DOMAIN s, LAMBDA a : SumOver(DOMAIN s, LAMBDA b : s[a] * H[a][b] * s[b]))

\* integer determinant by Laplace expansion along the first row (k <= 4); the empty determinant is 1
RECURSIVE Det(_, _)
Det(M, k) ==
  IF k = 0 THEN 1 ELSE
  IF k = 1 THEN M[1][1] ELSE
  LET Minor(c) == [a \in 1 .. k-1 |-> [b \in 1 .. k-1 |-> M[a+1][IF b < c THEN b ELSE b+1]]]
      term(c) == (IF c % 2 = 1 THEN 1 ELSE -1) * M[1][c] * Det(Minor(c), k-1)
  IN SumOver(1 .. k, term)
\* 32-bit safety of the expansion (crude bound k! B^k on every partial sum)
DetSafe(M, k) == k <= 4 /\ MaxAbs(M) <= (CASE k <= 2 -> 20000 [] k = 3 -> 500 [] OTHER -> 96)
\* sum of the absolute (k-1) x (k-1) principal minors: first-order sensitivity of det to a diagonal ridge
PrincipalMinorSum(M, k) ==
  IF k = 0 THEN 0 ELSE
  SumOver(1 .. k, LAMBDA c :
     Abs(Det([a \in 1 .. k-1 |-> [b \in 1 .. k-1 |-> M[IF a < c THEN a ELSE a+1][IF b < c THEN b ELSE b+1]]], k-1)))

RegTermQ(s, H, objs) == LET idx == RegIdx(objs) IN Quad(SubVec(s, idx), SubMat(H, idx))
DetReg(M, objs) == LET idx == RegIdx(objs) IN Det(SubMat(M, idx), Len(idx))

-----------------------------------------------------------------------------
(* Second formulation, structured like the code *)

\* native arrays: slim values scattered into the frame, masked cells hold whatever jf says (junk)
Unmasked(k, U, W) == CellOf(k-1, W) \in U
Native(slim, U, H, W, jf(_)) ==
    [k \in 1 .. H*W |-> IF Unmasked(k, U, W) THEN slim[Rank(CellOf(k-1, W), U, W)] ELSE jf(k)]
Gather(native, U, H, W) ==
    LET ss == SlimSeq(U, H, W) IN [k \in 1 .. Len(ss) |-> native[Lin(ss[k], W) + 1]]

JunkD(j, k) == CASE j = 0 -> 0 [] j = 1 -> 1000 + 7 * k [] OTHER -> -(500 + k)
JunkM(j, k) == CASE j = 0 -> 0 [] j = 1 -> -(300 + k) [] OTHER -> 2000 + 3 * k
JunkE(j, k) == 99    \* a noise value no operation may touch (Scale2(99) is undefined)

\* masked-native evaluation: the sky is subtracted from the whole native array, every element-wise
\* operation writes 0 where the mask is set, every sum selects the cells where the mask is not set
NativeEval(d, m, e, sky, U, H, W, j) ==
    LET nd == Native(d, U, H, W, LAMBDA k : JunkD(j, k))
        nm == Native(m, U, H, W, LAMBDA k : JunkM(j, k))
        ne == Native(e, U, H, W, LAMBDA k : JunkE(j, k))
        dat == [k \in 1 .. H*W |-> nd[k] - sky]
        res == [k \in 1 .. H*W |-> IF Unmasked(k, U, W) THEN dat[k] - nm[k] ELSE 0]
        nres == [k \in 1 .. H*W |-> IF Unmasked(k, U, W) THEN res[k] * Scale2(ne[k]) ELSE 0]
        chi == [k \in 1 .. H*W |-> nres[k] * nres[k]]
        sel == { k \in 1 .. H*W : Unmasked(k, U, W) }
    IN [ res |-> res, nres2 |-> nres, chi2map4 |-> chi,
         chi2q |-> SumOver(sel, LAMBDA k : chi[k]),
         nn |-> SumOver(sel, LAMBDA k : LogTable[ne[k]]),
         sn2 |-> [k \in 1 .. H*W |-> IF Unmasked(k, U, W) THEN Max0(dat[k] * Scale2(ne[k])) ELSE 0],
         rffnum |-> res,
         rffden |-> [k \in 1 .. H*W |-> IF Unmasked(k, U, W) THEN dat[k] ELSE 1],
         n |-> Cardinality(sel) ]

SlimEval(d, m, e, sky) ==
    [ res |-> Residual(d, m, sky), nres2 |-> NormRes2(d, m, e, sky), chi2map4 |-> Chi2Map4(d, m, e, sky),
      chi2q |-> Chi2Q(d, m, e, sky), nn |-> NoiseNormFix(e), sn2 |-> SigToNoise2(d, e, sky),
      rffnum |-> Residual(d, m, sky), rffden |-> DataOf(d, sky), n |-> Len(d) ]

\* reduced matrices as the code builds them: 0-based index list of the parameters of objects without
\* regularization, np.delete along rows, then along columns (shortcut: nothing to delete)
NoRegIndexList(objs) ==
    UNION { { OffP(objs, o) + q : q \in 0 .. objs[o].p - 1 } : o \in { x \in 1 .. Len(objs) : ~ objs[x].reg } }
Keep(n, del) == SelectSeq([c \in 1 .. n |-> c], LAMBDA c : (c - 1) \notin del)
DeleteRows(M, del) == LET kp == Keep(Len(M), del) IN [a \in 1 .. Len(kp) |-> M[kp[a]]]
DeleteCols(M, del) == [a \in DOMAIN M |-> LET kp == Keep(Len(M[a]), del) IN [b \in 1 .. Len(kp) |-> M[a][kp[b]]]]
AllReg(objs) == \A o \in 1 .. Len(objs) : objs[o].reg
AnyReg(objs) == \E o \in 1 .. Len(objs) : objs[o].reg
ReducedAsCode(M, objs) == IF AllReg(objs) THEN M ELSE DeleteCols(DeleteRows(M, NoRegIndexList(objs)), NoRegIndexList(objs))
ReducedVecAsCode(v, objs) == IF AllReg(objs) THEN v
                             ELSE LET kp == Keep(Len(v), NoRegIndexList(objs)) IN [a \in 1 .. Len(kp) |-> v[kp[a]]]
\* regularization INSTANCES: rid[o] = 0 for an object without regularization, else the id of its instance; two objects
\* with the same id share one instance (the same Python object).  The block of an object is its own parameter range.
BlockQuad(s, H, objs, o) ==
    LET idx == [c \in 1 .. objs[o].p |-> OffP(objs, o) + c] IN Quad(SubVec(s, idx), SubMat(H, idx))
\* the faulty design: the range is looked up by instance, the last object holding the instance wins
LastHolder(rid, o) == Max({ x \in DOMAIN rid : rid[x] = rid[o] })
RegTermByInstance(inv) ==
    SumOver({ o \in 1 .. Len(inv.objs) : inv.objs[o].reg }, LAMBDA o : BlockQuad(inv.s, inv.H, inv.objs, LastHolder(inv.rid, o)))
InvEvalAsCode(inv) ==
    IF ~ AnyReg(inv.objs) THEN [regq |-> 0, detc |-> 1, detr |-> 1]
    ELSE LET fr == ReducedAsCode(inv.FH, inv.objs)
             hr == ReducedAsCode(inv.H, inv.objs)
             sr == ReducedVecAsCode(inv.s, inv.objs)
         IN [regq |-> IF RegByInstance THEN RegTermByInstance(inv) ELSE Quad(sr, hr),
             detc |-> Det(fr, Len(fr)), detr |-> Det(hr, Len(hr))]

-----------------------------------------------------------------------------
(* The bounded families *)

PixTriples == Vals \X Vals \X Exps
Assignments(U, H, W, full) ==
    IF full THEN [1 .. Cardinality(U) -> PixTriples]
    ELSE { [k \in 1 .. Cardinality(U) |-> Patterns[p][Lin(SlimSeq(U, H, W)[k], W) + 1]] : p \in DOMAIN Patterns }

\* inversions: curvature matrix = Gram matrix of an integer design matrix (+1 on the diagonal of parameters
\* without regularization, like the library's diagonal term), block-diagonal regularization matrix
PathLap(p, a, b) == IF a = b THEN (IF p = 1 THEN 0 ELSE IF a = 1 \/ a = p THEN 1 ELSE 2)
                    ELSE IF Abs(a - b) = 1 THEN -1 ELSE 0
RegObjs(objs) == { o \in 1 .. Len(objs) : objs[o].reg }
\* own[c] = object owning parameter c (computed once per layout)
HOf(objs, kinds, own) ==
    [a \in 1 .. TotalP(objs) |-> [b \in 1 .. TotalP(objs) |->
        IF own[a] # own[b] \/ ~ objs[own[a]].reg THEN 0
        ELSE (IF a = b THEN kinds[own[a]].z ELSE 0)
             + kinds[own[a]].c * PathLap(objs[own[a]].p, a - OffP(objs, own[a]), b - OffP(objs, own[a]))]]
Grams(P) == { [a \in 1 .. P |-> [b \in 1 .. P |-> SumOver(1 .. NRows, LAMBDA t : mm[t][a] * mm[t][b])]] :
                mm \in [1 .. NRows -> [1 .. P -> MVals]] }
InvFamily ==
    UNION { LET P == TotalP(lay)
                own == [c \in 1 .. P |-> ObjOfP(lay, c)]
                gs == Grams(P)
            IN UNION { LET h == HOf(lay, kk, own)
                           \* own instances, or one instance shared by the objects whose blocks are the same matrix
                           own_ids == [o \in DOMAIN lay |-> IF lay[o].reg THEN o ELSE 0]
                           shared_ids == [o \in DOMAIN lay |-> IF lay[o].reg
                                            THEN Min({ x \in RegObjs(lay) : lay[x].p = lay[o].p /\ kk[x] = kk[o] }) ELSE 0]
                       IN
                       { [objs |-> lay, H |-> h,
                          FH |-> [a \in 1 .. P |-> [b \in 1 .. P |->
                                    g[a][b] + h[a][b] + (IF a = b /\ ~ lay[own[a]].reg THEN 1 ELSE 0)]],
                          s |-> [c \in 1 .. P |-> sp[c]], rid |-> ri] : g \in gs, sp \in SPats, ri \in {own_ids, shared_ids} }
                     : kk \in [RegObjs(lay) -> RegKinds] }
          : lay \in Layouts }
NoInv == [objs |-> << >>, H |-> << >>, FH |-> << >>, s |-> << >>, rid |-> << >>]

\* ---- dataset histories ---------------------------------------------------
\* The judged fit may be preceded by a fit of ANOTHER dataset that lives on the same Python object, on an object the
\* judged dataset was copied from, or on the parent the judged dataset was derived from.  PredDataset gives frame,
\* unmasked set and noise exponents (slim order) of that earlier dataset; its noise differs from the judged one.
AltE(e) == IF \A k \in DOMAIN e : e[k] = 1 THEN [k \in DOMAIN e |-> -1]
           ELSE [k \in DOMAIN e |-> IF e[k] = 1 THEN 1 ELSE e[k] + 1]
FillE(lin) == (lin % 3) - 1
ShiftIn(U) == { << c[1] + 1, c[2] + 1 >> : c \in U }
Ring(H, W) == { c \in Cells(H + 2, W + 2) : (c[1] = 0 \/ c[2] = 0 \/ c[1] = H + 1 \/ c[2] = W + 1) /\ Lin(c, W + 2) % 2 = 0 }
SameFrameKinds == {"same-object-other-noise-map", "copy-with-reassigned-arrays", "same-object-reassigned-arrays"}
PredDataset(kind, e, Um, H, W) ==
    CASE kind \in SameFrameKinds -> [h |-> H, w |-> W, u |-> Um, e |-> AltE(e)]
      [] kind = "derived-by-apply-mask" ->   \* parent: the whole frame unmasked; the judged dataset = parent.apply_mask
           [h |-> H, w |-> W, u |-> Cells(H, W),
            e |-> [k \in 1 .. H * W |-> IF Unmasked(k, Um, W) THEN e[Rank(CellOf(k-1, W), Um, W)] ELSE FillE(k-1)]]
      [] kind = "derived-by-trimming" ->     \* parent: a frame one pixel wider on every side, with more unmasked pixels
           LET u0 == ShiftIn(Um) \cup Ring(H, W)
               ss == SlimSeq(u0, H + 2, W + 2)
           IN [h |-> H + 2, w |-> W + 2, u |-> u0,
               e |-> [k \in 1 .. Len(ss) |-> IF ss[k] \in ShiftIn(Um) THEN e[Rank(<< ss[k][1] - 1, ss[k][2] - 1 >>, Um, W)]
                                              ELSE FillE(Lin(ss[k], W + 2))]]
\* derived datasets are slim datasets (apply_mask / trimming build them); the other histories exist in both modes
NativeOk(kind) == kind \in SameFrameKinds
\* a parent differs from its apply_mask child only if the child masks something
Applicable(kind, Um, H, W) == kind = "derived-by-apply-mask" => Um # Cells(H, W)

-----------------------------------------------------------------------------
(* Layer 2: the machine.  Init chooses a dataset, a model, a sky level and  *)
(* optionally an inversion; one action per evaluation mode of the fit, and *)
(* Precede(k): an earlier fit of another dataset on a related object.      *)

VARIABLES shape, U, pix, sky, inv, phase, obs, hist
vars == << shape, U, pix, sky, inv, phase, obs, hist >>

Init ==
    /\ \E kind \in {"full", "pat", "inv"} :
         /\ shape \in (CASE kind = "full" -> FullShapes [] kind = "pat" -> PatShapes [] OTHER -> InvShapes)
         /\ U \in (CASE kind = "inv" -> { Cells(shape[1], shape[2]) }
                     [] kind = "full" -> { x \in (SUBSET Cells(shape[1], shape[2])) \ {{}} : Cardinality(x) <= FullMax }
                     [] OTHER -> (SUBSET Cells(shape[1], shape[2])) \ {{}})
         /\ pix \in (IF kind = "inv"
                     THEN { [k \in 1 .. Cardinality(U) |-> Patterns[1][Lin(SlimSeq(U, shape[1], shape[2])[k], shape[2]) + 1]] }
                     ELSE Assignments(U, shape[1], shape[2], kind = "full"))
         /\ inv \in (IF kind = "inv" THEN InvFamily ELSE { NoInv })
    /\ sky \in Skies
    /\ phase = "given"
    /\ obs = << >>
    /\ hist = << >>

HH == shape[1]
WW == shape[2]
DD == [k \in DOMAIN pix |-> pix[k][1]]
MM == [k \in DOMAIN pix |-> pix[k][2]]
EE == [k \in DOMAIN pix |-> pix[k][3]]
HasInv == Len(inv.objs) > 0
\* the unit of this instance: rotation over ScaleSeq by a hash of the instance
KK == ScaleSeq[((7 * Abs(SumSeq(DD)) + 3 * Abs(SumSeq(MM)) + SumSeq(EE) + 2 * Len(pix) + 5 * Cardinality(U) + sky + HH + 3 * WW
                 + Len(inv.s) + 13 + ScaleRot) % Len(ScaleSeq)) + 1]

WithInv(f) == [fit |-> f,
               inv |-> IF HasInv THEN InvEvalAsCode(inv) ELSE [regq |-> 0, detc |-> 1, detr |-> 1],
               fom |-> IF HasInv THEN "evidence" ELSE "likelihood"]

\* the earlier fit: it reports (and, under Memoise, leaves with the dataset object) ITS noise normalization
Precede(k) ==
    /\ phase = "given" /\ hist = << >> /\ shape \in HistShapes /\ ~ HasInv /\ Applicable(k, U, HH, WW)
    /\ LET p == PredDataset(k, EE, U, HH, WW) IN
         hist' = << [op |-> k, h |-> p.h, w |-> p.w, u |-> [q \in 1 .. Cardinality(p.u) |-> Lin(SlimSeq(p.u, p.h, p.w)[q], p.w)],
                     e |-> p.e, nn |-> NoiseNormFix(p.e)] >>
    /\ UNCHANGED << shape, U, pix, sky, inv, phase, obs >>

HistOp == IF hist = << >> THEN "none" ELSE hist[1].op
Memo(f) == IF Memoise /\ hist # << >> THEN [f EXCEPT !.nn = hist[1].nn] ELSE f

EvalSlim ==
    /\ phase = "given"
    /\ phase' = "slim"
    /\ obs' = WithInv(Memo(SlimEval(DD, MM, EE, sky)))
    /\ PrintT(ToJson([k |-> "inst", h |-> HH, w |-> WW,
                      u |-> [q \in 1 .. Cardinality(U) |-> Lin(SlimSeq(U, HH, WW)[q], WW)],
                      d |-> DD, m |-> MM, e |-> EE, sky |-> sky, scale |-> KK, hasinv |-> HasInv, inv |-> inv, hist |-> hist]))
    /\ UNCHANGED << shape, U, pix, sky, inv, hist >>

EvalNative(j) ==
    /\ phase = "given"
    /\ (IF hist = << >> THEN TRUE ELSE NativeOk(hist[1].op))
    /\ phase' = "native"
    /\ obs' = WithInv(Memo(NativeEval(DD, MM, EE, sky, U, HH, WW, j))) @@ [junk |-> j]
    /\ UNCHANGED << shape, U, pix, sky, inv, hist >>

Next == EvalSlim \/ (\E j \in JunkFills : EvalNative(j)) \/ (\E k \in HistKinds : Precede(k))
Spec == Init /\ [][Next]_vars

-----------------------------------------------------------------------------
(* Layer 3: design-level theorems, checked by TLC on every instance *)

Slim == phase = "slim"
InNative == phase = "native"
Ref == SlimEval(DD, MM, EE, sky)

\* the masked-native mode gives, on the unmasked cells, exactly what the slim mode gives; scalars agree
SlimModeEqualsNativeMode ==
    InNative => /\ Gather(obs.fit.res, U, HH, WW) = Ref.res
           /\ Gather(obs.fit.nres2, U, HH, WW) = Ref.nres2
           /\ Gather(obs.fit.chi2map4, U, HH, WW) = Ref.chi2map4
           /\ Gather(obs.fit.sn2, U, HH, WW) = Ref.sn2
           /\ Gather(obs.fit.rffnum, U, HH, WW) = Ref.rffnum /\ Gather(obs.fit.rffden, U, HH, WW) = Ref.rffden
           /\ obs.fit.chi2q = Ref.chi2q /\ obs.fit.nn = Ref.nn /\ obs.fit.n = Ref.n
\* whatever the masked cells carry, no result changes, and result maps hold 0 in masked cells
MaskedValuesNeverMatter ==
    InNative => /\ obs.fit = NativeEval(DD, MM, EE, sky, U, HH, WW, 0)
           /\ \A k \in 1 .. HH * WW : ~ Unmasked(k, U, WW) =>
                 obs.fit.res[k] = 0 /\ obs.fit.nres2[k] = 0 /\ obs.fit.chi2map4[k] = 0
\* element-wise definitions hang together
ElementwiseDefinitions ==
    Slim => /\ \A k \in DOMAIN pix : /\ obs.fit.chi2map4[k] = obs.fit.nres2[k] * obs.fit.nres2[k]
                                     /\ obs.fit.res[k] + MM[k] + sky = DD[k]
                                     /\ obs.fit.sn2[k] >= 0
                                     /\ (obs.fit.sn2[k] > 0 <=> DD[k] - sky > 0)
            /\ obs.fit.chi2q >= 0 /\ (obs.fit.chi2q = 0 <=> \A k \in DOMAIN pix : DD[k] - sky = MM[k])
            /\ obs.fit.n = Cardinality(U)
\* a sky level is a shift of the data and of nothing else
SkyShiftsDataOnly ==
    Slim => obs.fit = SlimEval(DataOf(DD, sky), MM, EE, 0)
\* doubling data, model, sky and noise leaves chi-squared unchanged and adds n ln 4 to the normalization
Homogeneity ==
    (Slim /\ \A k \in DOMAIN pix : EE[k] <= 0) =>
              LET d2 == [k \in DOMAIN pix |-> 2 * DD[k]] m2 == [k \in DOMAIN pix |-> 2 * MM[k]]
                  e2 == [k \in DOMAIN pix |-> EE[k] + 1]
              IN /\ Chi2Q(d2, m2, e2, 2 * sky) = obs.fit.chi2q
                 /\ Abs(NoiseNormFix(e2) - obs.fit.nn - Len(pix) * (LogTable[1] - LogTable[0])) <= Len(pix)
\* units: for every scale of the family the normalization moves by exactly 2 k n ln 2; where the shifted exponents are
\* still in the table, table and shift agree (this ties Ln2Hi/Ln2Lo to LogTable); chi-squared is unit free by construction
ScaleShiftMatchesTable ==
    Slim => /\ \A q \in 1 .. Len(ScaleSeq) :
                  NoiseNormFixAt(EE, ScaleSeq[q]) - obs.fit.nn = Ln2Times(2 * ScaleSeq[q] * Len(pix))
            /\ \A k \in {-1, 1} : (\A j \in DOMAIN pix : EE[j] + k \in DOMAIN LogTable) =>
                  Abs(NoiseNormFix([j \in DOMAIN pix |-> EE[j] + k]) - NoiseNormFixAt(EE, k)) <= Len(pix) + 1
\* sharing a regularization instance between linear objects changes nothing: the blocks belong to the objects
SharedInstancesNeverMatter ==
    (phase # "given" /\ HasInv) =>
        obs.inv.regq = SumOver({ o \in 1 .. Len(inv.objs) : inv.objs[o].reg }, LAMBDA o : BlockQuad(inv.s, inv.H, inv.objs, o))
\* reduced matrices: np.delete of the no-regularization index list = selection of the regularised parameters;
\* the three inversion terms range over the regularised parameters only
ReductionSelectsRegularisedParameters ==
    (phase # "given" /\ HasInv) =>
        /\ ReducedAsCode(inv.FH, inv.objs) = SubMat(inv.FH, RegIdx(inv.objs))
        /\ ReducedAsCode(inv.H, inv.objs) = SubMat(inv.H, RegIdx(inv.objs))
        /\ obs.inv.regq = RegTermQ(inv.s, inv.H, inv.objs)
        /\ obs.inv.detc = DetReg(inv.FH, inv.objs)
        /\ obs.inv.detr = DetReg(inv.H, inv.objs)
\* the regularization matrix vanishes outside the regularised blocks, so the quadratic form does not notice
\* the reduction; the determinants do (this is why the restriction matters)
RegTermUnchangedByReduction ==
    (phase # "given" /\ HasInv) => obs.inv.regq = Quad(inv.s, inv.H)
DeterminantsPositive ==
    (phase # "given" /\ HasInv) => obs.inv.detc > 0 /\ obs.inv.detr > 0 /\ obs.inv.detc >= obs.inv.detr
\* whatever was fitted before on the same, a copied or a parent dataset object, the judged fit reports the
\* statistics of ITS OWN arrays (violated by the Memoise design: TLC exhibits the history)
DatasetHistoryNeverMatters ==
    (phase \in {"slim", "native"}) => /\ obs.fit.nn = NoiseNormFix(EE)
                                      /\ obs.fit.chi2q = Chi2Q(DD, MM, EE, sky)
\* the histories are not vacuous: the earlier dataset has a different noise normalization
PredecessorDiffers ==
    (hist # << >>) => /\ hist[1].nn # NoiseNormFix(EE)
                      /\ Len(hist[1].e) = Len(hist[1].u)
FigureOfMeritChoice ==
    (phase # "given") => (obs.fom = "evidence" <=> HasInv)
=============================================================================
