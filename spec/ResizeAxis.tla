----------------------------- MODULE ResizeAxis -----------------------------
(***************************************************************************)
(* C14, one axis, UNBOUNDED sizes (checked by Apalache, not by TLC).       *)
(*                                                                         *)
(* Resize.tla describes a resize per axis: output index x of an axis that  *)
(* is resized from len to some other length shows input index x + off, or  *)
(* padding.  Because the two axes are independent, the two round-trip      *)
(* theorems of Resize.tla (PadThenTrimIsIdentity, GrowThenShrinkLoses-     *)
(* Nothing) hold for all shapes iff they hold per axis for all lengths.    *)
(* Here n, m, k, t are arbitrary naturals (n >= 1 the input length,        *)
(* m >= n the enlarged length, 2k+1 the kernel length, t < n an input      *)
(* index) and the theorems are state invariants of the initial states.     *)
(***************************************************************************)
EXTENDS Integers
VARIABLES
    \* @type: Int;
    n,
    \* @type: Int;
    m,
    \* @type: Int;
    k,
    \* @type: Int;
    t

Init == /\ n \in Nat /\ m \in Nat /\ k \in Nat /\ t \in Nat
        /\ n >= 1 /\ m >= n /\ t < n
Next == UNCHANGED << n, m, k, t >>

Src(len, off, x) == IF x + off >= 0 /\ x + off < len THEN x + off ELSE -1
Abs(x) == IF x < 0 THEN -x ELSE x
\* same definitions as in Resize.tla
Balanced(a, b, off) == Abs(off - (a - b - off)) <= 1
Upper(a, b) == a \div 2 - b \div 2                  \* ConvOffset("upper", a, b)
Lower(a, b) == (a - 1) \div 2 - (b - 1) \div 2      \* ConvOffset("lower", a, b)

\* padding by k on both sides (offset -k) and trimming by k (offset +k) returns every entry to its place
PadThenTrimIsIdentity ==
    LET a == t + k IN a >= 0 /\ a < n + 2 * k /\ Src(n, -k, a) = t
\* growing n -> m and shrinking m -> n under one convention is centred both ways and loses nothing
GrowThenShrinkUpper ==
    LET a == t + Upper(m, n) IN
    /\ Balanced(n, m, Upper(n, m)) /\ Balanced(m, n, Upper(m, n))
    /\ a >= 0 /\ a < m /\ Src(n, Upper(n, m), a) = t
GrowThenShrinkLower ==
    LET a == t + Lower(m, n) IN
    /\ Balanced(n, m, Lower(n, m)) /\ Balanced(m, n, Lower(m, n))
    /\ a >= 0 /\ a < m /\ Src(n, Lower(n, m), a) = t
Inv == PadThenTrimIsIdentity /\ GrowThenShrinkUpper /\ GrowThenShrinkLower
=============================================================================
