------------------------------- MODULE Line1D -------------------------------
(***************************************************************************)
(* One-dimensional structures of PyAutoArray (extra X03): Mask1D, Array1D, *)
(* Grid1D, Geometry1D, the 1D derive objects, the 1D FITS round trip and   *)
(* the small Header class.                                                 *)
(*                                                                         *)
(* A 1D mask on a line of N pixels is its set U of UNMASKED pixel indices  *)
(* (0-based, left to right).  Data movement never looks at values, so it   *)
(* is described by the SOURCE of every output position: a pixel index, or  *)
(* Zero for "this position holds 0".                                       *)
(*                                                                         *)
(* Positions are integer numbers of TICKS u.  A pixel scale is 2p ticks    *)
(* (p >= 1) and an origin o ticks (any sign), so that pixel centres        *)
(*     x_k = o + (k - (N-1)/2) * 2p = o + (2k - N + 1) p                   *)
(* and frame edges  o -+ N p  are integers whatever the parity of N.       *)
(*                                                                         *)
(* Layer 1 (meaning) takes N, U, p, o as parameters so that the bounded    *)
(* machine and the trace specification (whose records carry their own      *)
(* instance) share the same operators.                                     *)
(***************************************************************************)
EXTENDS Integers, Sequences, FiniteSets, TLC, Json, SequencesExt, FiniteSetsExt

CONSTANTS MaxN,      \* the machine explores every mask of every length 1 .. MaxN
          Geoms,     \* set of << p, o >>: half pixel scale p >= 1 and origin o, in ticks
          MaxReads   \* bound on the length of a read history

Zero == -1   \* source tag "this position holds 0"

-----------------------------------------------------------------------------
(* Layer 1: meaning *)

Pixels(N) == 0 .. N-1
LeftToRight(N) == [k \in 1 .. N |-> k-1]

\* "one entry per unmasked pixel in increasing native index order"
SlimSrc(U, N) == SelectSeq(LeftToRight(N), LAMBDA x : x \in U)
\* an independent formulation: the rank of an unmasked pixel among the unmasked pixels
Rank(x, U) == 1 + Cardinality({d \in U : d < x})
\* "native has zeros at masked entries and the slim values at their native index"
NativeSrc(U, N) == [k \in 1 .. N |-> IF k-1 \in U THEN k-1 ELSE Zero]
\* a caller's native array before the mask is applied: every position holds its own value
FullSrc(N) == LeftToRight(N)

\* conversions acting on source maps
Scatter(slim, U, N) == [k \in 1 .. N |-> IF k-1 \in U THEN slim[Rank(k-1, U)] ELSE Zero]
Gather(native, U, N) == LET s == SlimSrc(U, N) IN [k \in 1 .. Len(s) |-> native[s[k] + 1]]
MaskOut(native, U, N) == [k \in 1 .. N |-> IF k-1 \in U THEN native[k] ELSE Zero]

\* what a constructor must store, given the caller's array in slim or native form
GivenSrc(given, U, N) == IF given = "native" THEN FullSrc(N) ELSE SlimSrc(U, N)
Convert(src, given, storeNative, U, N) ==
    CASE given = "slim"   /\ ~ storeNative -> src
      [] given = "slim"   /\ storeNative   -> Scatter(src, U, N)
      [] given = "native" /\ ~ storeNative -> Gather(src, U, N)
      [] given = "native" /\ storeNative   -> MaskOut(src, U, N)

\* ---- objects and reads (the history part) ----
\* an object is what it stores: the form, the source map and a scalar factor on the values
Obj(form, src, mul) == [form |-> form, src |-> src, mul |-> mul]
NoObj == Obj("none", << >>, 0)
ToSlim(ob, U, N)   == IF ob.form = "slim" THEN ob ELSE Obj("slim", Gather(ob.src, U, N), ob.mul)
ToNative(ob, U, N) == IF ob.form = "native" THEN ob ELSE Obj("native", Scatter(ob.src, U, N), ob.mul)

ReadNames == {"slim", "native", "slim_of_native", "native_of_slim", "copy", "twice", "sum"}
\* the result of a read computed from the STORED object (how the code works) ...
ReadFrom(q, ob, U, N) ==
    CASE q = "slim"           -> ToSlim(ob, U, N)
      [] q = "native"         -> ToNative(ob, U, N)
      [] q = "slim_of_native" -> ToSlim(ToNative(ob, U, N), U, N)
      [] q = "native_of_slim" -> ToNative(ToSlim(ob, U, N), U, N)
      [] q = "copy"           -> ob
      [] q = "twice"          -> Obj(ob.form, ob.src, 2 * ob.mul)
      [] q = "sum"            -> Obj(ob.form, ob.src, ob.mul + ob.mul)
\* ... and the answer the statement demands, a function of the INSTANCE only (mask, stored form)
StoredForm(storeNative) == IF storeNative THEN "native" ELSE "slim"
SrcOfForm(form, U, N) == IF form = "native" THEN NativeSrc(U, N) ELSE SlimSrc(U, N)
ExpectedForm(q, storeNative) ==
    CASE q \in {"slim", "slim_of_native"}   -> "slim"
      [] q \in {"native", "native_of_slim"} -> "native"
      [] OTHER                              -> StoredForm(storeNative)
ExpectedMul(q) == IF q \in {"twice", "sum"} THEN 2 ELSE 1
Expected(q, storeNative, U, N) ==
    LET f == ExpectedForm(q, storeNative) IN Obj(f, SrcOfForm(f, U, N), ExpectedMul(q))

\* ---- positions ----
\* "coordinate k at the centre of its pixel: x_k = origin + (k - (N-1)/2) * pixel_scale"
Centre(N, p, o, k) == o + (2*k - N + 1) * p
CentredGrid(N, p, o) == [k \in 1 .. N |-> Centre(N, p, o, k-1)]
GridSlim(U, N, p, o) == LET s == SlimSrc(U, N) IN [k \in 1 .. Len(s) |-> Centre(N, p, o, s[k])]
GridNative(U, N, p, o) == [k \in 1 .. N |-> IF k-1 \in U THEN Centre(N, p, o, k-1) ELSE 0]
\* "the first (x) coordinate of the grid is 0.0 and all other values ascend positively" by one pixel scale
FromZero(N, p) == [k \in 1 .. N |-> 2 * p * (k-1)]
\* "the frame edges origin -/+ N * pixel_scale / 2"
ShapeScaled(N, p) == 2 * p * N
ScaledMin(N, p, o) == o - N * p
ScaledMax(N, p, o) == o + N * p
Extent(N, p, o) == << ScaledMin(N, p, o), ScaledMax(N, p, o) >>

\* the same positions formulated the way the code computes them: a central pixel coordinate
\* c = (N-1)/2 - o/s in pixel units, then (k - c) * s; as the exact rational numerator over 2 (s = 2p)
CodeCentreTimes2(N, p, o, k) == 2 * k * (2*p) - ((N - 1) * (2*p) - 2 * o)
\* from zero: the centred grid about origin 0 minus its minimum
SeqMin(s) == CHOOSE m \in ToSet(s) : \A x \in ToSet(s) : m <= x
CodeFromZero(N, p) == LET g == CentredGrid(N, p, 0) IN [k \in 1 .. N |-> g[k] - SeqMin(g)]

\* ---- Header ----
\* "[Counts] = [EPS] * [Exposure_time]".  Counts per second = counts / exposure time is judged through the exact
\* relation out * E = counts (the trace records carry alpha(out * E)).
EpsToCounts(vals, E) == [k \in DOMAIN vals |-> vals[k] * E]
\* modified Julian date of a civil date at 0h (days since 1858-11-17), Gregorian calendar
DaysFromCivil(y, m, d) ==
    LET yy  == IF m <= 2 THEN y - 1 ELSE y
        era == yy \div 400
        yoe == yy - era * 400
        mp  == IF m > 2 THEN m - 3 ELSE m + 9
        doy == (153 * mp + 2) \div 5 + d - 1
        doe == yoe * 365 + yoe \div 4 - yoe \div 100 + doy
    IN era * 146097 + doe - 719468          \* days since 1970-01-01
Mjd(y, m, d) == DaysFromCivil(y, m, d) + 40587

-----------------------------------------------------------------------------
(* Layer 2: the bounded machine.  Init picks a line length, a mask (every   *)
(* subset, the fully masked one included), a geometry, the form the caller *)
(* gives and the form the object stores.  Construct builds the object;     *)
(* then the object is read up to MaxReads times in any order.              *)

VARIABLES n, U, geo, given, store, phase, obj, hist, last
inst == << n, U, geo, given, store >>
vars == << n, U, geo, given, store, phase, obj, hist, last >>

Init == /\ n \in 1 .. MaxN
        /\ U \in SUBSET Pixels(n)
        /\ geo \in Geoms
        /\ given \in {"slim", "native"}
        /\ store \in BOOLEAN
        /\ phase = "new"
        /\ obj = NoObj
        /\ hist = << >>
        /\ last = NoObj

Construct ==
    /\ phase = "new"
    /\ phase' = "built"
    /\ obj' = Obj(StoredForm(store), Convert(GivenSrc(given, U, n), given, store, U, n), 1)
    /\ PrintT(ToJson([k |-> "inst", n |-> n, u |-> SlimSrc(U, n), p |-> geo[1], o |-> geo[2],
                      given |-> given, store |-> store]))
    /\ UNCHANGED << n, U, geo, given, store, hist, last >>

CanRead == phase = "built" /\ Len(hist) < MaxReads
DoRead(q) == /\ last' = ReadFrom(q, obj, U, n)
             /\ hist' = Append(hist, q)
             /\ UNCHANGED << n, U, geo, given, store, phase, obj >>

ReadSlim          == CanRead /\ DoRead("slim")
ReadNative        == CanRead /\ DoRead("native")
ReadSlimOfNative  == CanRead /\ DoRead("slim_of_native")
ReadNativeOfSlim  == CanRead /\ DoRead("native_of_slim")
ReadCopy          == CanRead /\ DoRead("copy")
ReadTwice         == CanRead /\ DoRead("twice")
ReadSum           == CanRead /\ DoRead("sum")

Next == \/ Construct
        \/ ReadSlim \/ ReadNative \/ ReadSlimOfNative \/ ReadNativeOfSlim
        \/ ReadCopy \/ ReadTwice \/ ReadSum
Spec == Init /\ [][Next]_vars

-----------------------------------------------------------------------------
(* Layer 3: properties of the design, checked by TLC on every reachable state *)

Built == phase = "built"
\* theorems about the instance alone are evaluated once per instance, in its initial state
Fresh == phase = "new"
PP == geo[1]
OO == geo[2]

InputsWellFormed == n >= 1 /\ U \subseteq Pixels(n) /\ PP >= 1

\* whatever form the caller gave, the object stores exactly what its instance says
StoredIndependentOfGiven ==
    Built => obj = Obj(StoredForm(store), SrcOfForm(StoredForm(store), U, n), 1)
\* one entry per unmasked pixel, strictly increasing; Rank inverts the slim order
SlimIsAscendingGather ==
    Fresh =>
    LET s == SlimSrc(U, n) IN
    /\ Len(s) = Cardinality(U) /\ ToSet(s) = U
    /\ \A k \in 1 .. Len(s) - 1 : s[k] < s[k+1]
    /\ \A k \in 1 .. Len(s) : Rank(s[k], U) = k
\* native: zero exactly at the masked entries, the pixel's own value elsewhere
NativeIsScatterWithZeros ==
    Fresh =>
    LET t == NativeSrc(U, n) IN
    /\ Len(t) = n
    /\ \A k \in 1 .. n : (t[k] = Zero) <=> (k-1 \notin U)
    /\ Scatter(SlimSrc(U, n), U, n) = t
\* slim -> native -> slim is the identity; native -> slim -> native zeroes the masked entries only
RoundTripSlim == Fresh => Gather(Scatter(SlimSrc(U, n), U, n), U, n) = SlimSrc(U, n)
RoundTripNative == Fresh => /\ Scatter(Gather(FullSrc(n), U, n), U, n) = MaskOut(FullSrc(n), U, n)
                            /\ MaskOut(FullSrc(n), U, n) = NativeSrc(U, n)
\* every read, after any history of reads, is the answer the instance defines (no stale state) ...
ReadAgreesWithInstance ==
    (Built /\ hist # << >>) => last = Expected(hist[Len(hist)], store, U, n)
\* ... and no step after the construction changes the object or its instance
ReadsArePure == [][(phase = "built") => (obj' = obj /\ inst' = inst)]_vars

\* pixel centres: one pixel scale apart, symmetric about the origin, strictly inside the frame,
\* half a pixel from the edges; the masked grid is the gather of the centred grid
CentresAreCentred ==
    Fresh =>
    LET g == CentredGrid(n, PP, OO) IN
    /\ \A k \in 1 .. n - 1 : g[k+1] - g[k] = 2 * PP
    /\ \A k \in 1 .. n : g[k] + g[n + 1 - k] = 2 * OO
    /\ g[1] = ScaledMin(n, PP, OO) + PP /\ g[n] = ScaledMax(n, PP, OO) - PP
    /\ GridSlim(U, n, PP, OO) = Gather(g, U, n)
    /\ \A k \in 1 .. n : GridNative(U, n, PP, OO)[k] = IF k-1 \in U THEN g[k] ELSE 0
FrameEdges ==
    Fresh =>
    /\ ScaledMax(n, PP, OO) - ScaledMin(n, PP, OO) = ShapeScaled(n, PP)
    /\ ScaledMax(n, PP, OO) + ScaledMin(n, PP, OO) = 2 * OO
    /\ Extent(n, PP, OO) = << ScaledMin(n, PP, OO), ScaledMax(n, PP, OO) >>
\* the code-shaped formulations agree with the definitions
CodeFormulationAgrees ==
    Fresh =>
    /\ \A k \in 0 .. n - 1 : CodeCentreTimes2(n, PP, OO, k) = 2 * Centre(n, PP, OO, k)
    /\ CodeFromZero(n, PP) = FromZero(n, PP)
    /\ \A k \in 1 .. n : FromZero(n, PP)[k] = Centre(n, PP, OO, k-1) - Centre(n, PP, OO, 0)
\* calendar: the day count is anchored at documented dates and advances by one per day
CalendarAnchors ==
    Fresh =>
    /\ Mjd(1858, 11, 17) = 0 /\ Mjd(2000, 1, 1) = 51544 /\ Mjd(1970, 1, 1) = 40587
    /\ Mjd(2000, 3, 1) = Mjd(2000, 2, 28) + 2 /\ Mjd(1900, 3, 1) = Mjd(1900, 2, 28) + 1
    /\ Mjd(2024, 1, 1) = Mjd(2023, 12, 31) + 1
=============================================================================
