--------------------------- MODULE Trace_Simulate ---------------------------
(***************************************************************************)
(* Validation of recorded calls of SimulatorImaging.via_image_from and     *)
(* SimulatorInterferometer.via_image_from against Simulate.tla (X15).      *)
(* One record per observed call (or per history of calls on one simulator  *)
(* object).  Verdicts are total: every record is judged by named clauses,  *)
(* each clause names the STAGE of the documented pipeline it judges; a     *)
(* rejected record is printed with the failing clauses, the signature      *)
(* `stage:option-combination[:input class]` and what the specification     *)
(* wanted.                                                                 *)
(*                                                                         *)
(* api = "img" (one call of the imaging simulator)                         *)
(*   psf kh kw k norm pn nm sub sky tm cw seed    configuration (integers: *)
(*       fine units, see Simulate.tla; cw = 1 / (size of one count))       *)
(*   h w img g                                    the image, its geometry  *)
(*   raised                                       "" or the exception name *)
(*   oh ow data                                   returned data, unit u/tm *)
(*   nh nw nconst | ns nsf fs ff                  noise map: 1 where it    *)
(*       equals noise_if_add_noise_false | coarse and fine fixed point     *)
(*   gd gn gm allfalse                            geometry of data / noise *)
(*       map / dataset mask; all three masks all-False on the h x w frame  *)
(*   hastwin x0                                   the noise-free image     *)
(*       with sky (a fresh simulator with every noise option off), unit u  *)
(*   hasref ref rid                               X01's function called    *)
(*       directly on that image with the same seed, unit u/tm; content id  *)
(*   fid                                          content id of the data   *)
(*   gids                                         content ids of the data  *)
(*       of the call repeated under other states of the global generator   *)
(*   fresh                                        a repeated call returned *)
(*       new, independent objects                                          *)
(*   inb ina                                      content ids of the input *)
(*       image (and PSF) before / after                                    *)
(* api = "imgpsf"   simpsf dspsf (PsfFine units) dspsfn (units of 1/Q) and *)
(*                  their shapes skh skw pkh pkw                           *)
(* api = "vis"      h w u org b img sigma seed | raised off vis nmok uvb   *)
(*                  um gm tclass hastwin x0 hasref fid rid gids fresh inb  *)
(*                  ina qre qim                                            *)
(* api = "hist"     kind, option flags, steps: [ii, seed, fid, nid, cid, cnid,    *)
(*                  rid] per call on ONE simulator object (warm) and on a  *)
(*                  fresh one (cold)                                       *)
(***************************************************************************)
EXTENDS Simulate, IOUtils

Trace == JsonDeserialize(IOEnv.TRACE_FILE)

VARIABLE i

Off == 2000000000
Cl(st, n, b) == [st |-> st, n |-> n, ok |-> b]
Bit(b) == IF b THEN "1" ELSE "0"
InR(x) == InRange(x)
AllInR(s) == \A k \in DOMAIN s : InR(s[k])
AllEq(s, v) == \A k \in DOMAIN s : s[k] = v
HW(r) == r.h * r.w

\* ---- imaging: one call ------------------------------------------------------------------------------
ImgWellFormed(r) ==
    /\ r.h >= 1 /\ r.w >= 1 /\ HW(r) <= 120 /\ Len(r.img) = HW(r)
    /\ IsOddShape(r.kh, r.kw) /\ r.kh <= 7 /\ r.kw <= 7 /\ Len(r.k) = r.kh * r.kw
    /\ \A n \in DOMAIN r.k : Abs(r.k[n]) <= 4096
    /\ \A n \in DOMAIN r.img : Abs(r.img[n]) <= 64
    /\ KSum(r.k) \in Pow2s
    /\ r.tm >= 1 /\ r.tm <= 8 /\ r.cw \in { 1, 4 } /\ r.sky >= 0 /\ r.sky <= 4000000 /\ r.seed >= 0
    /\ Len(r.g) = 4
    /\ (~ r.psf => r.k = << 1 >>)

CConv(r) == Blurred(r.img, PsfFine(r.k, r.norm), r.h, r.w, r.kh, r.kw)
XOf(r, conv) == AddConst(conv, r.sky)
Draws(r) == r.pn \/ r.nm
SkyTm(r) == IF r.sub THEN r.sky * r.tm ELSE 0

FrameOk(r) == r.oh = r.h /\ r.ow = r.w /\ Len(r.data) = HW(r)

\* which stage explains a wrong image: the frame, a sky term that is off by a multiple of the sky, or the values
SkyStage(r) == IF r.sub THEN "SubtractSky" ELSE "AddSky"
StageOf(r, got, base, scale, fallback) ==
    IF Len(got) # HW(r) THEN "Trim"
    ELSE IF r.sky # 0 /\ \E j \in -2 .. 2 : got = AddConst(base, j * r.sky * scale) THEN SkyStage(r)
    ELSE fallback

InputClauses(r) ==
    << Cl("Call", "input-image-and-psf-are-never-modified", Len(r.inb) = Len(r.ina) /\ r.inb = r.ina) >>

NoiseFixedOk(r, Y) ==
    /\ Len(r.ns) = HW(r) /\ Len(r.nsf) = HW(r) /\ r.fs >= 1 /\ r.ff >= 1 /\ r.nh = r.h /\ r.nw = r.w
    /\ \A k \in 1 .. HW(r) : SqrtOk(r.ns[k], r.nsf[k], CountsRad(Y[k], r.tm), r.fs, r.ff)

ImgClauses(r) ==
    IF ~ ImgWellFormed(r) THEN << Cl("Driver", "well-formed-imaging-record", FALSE) >>
    ELSE
    LET conv == CConv(r)
        X == XOf(r, conv)
        XT == Scale(X, r.tm)
        neg == HasNegative(X)
    IN
    IF Draws(r) /\ neg
    THEN \* a Poisson distribution of negative mean is not defined: what the code does is observed, not judged
         InputClauses(r)
    ELSE IF r.raised # ""
    THEN << Cl(IF neg /\ r.raised = "ValueError" THEN "Poisson" ELSE "Call", "no-exception", FALSE) >>
    ELSE
    LET refok == r.hasref /\ Len(r.ref) = HW(r) /\ AllInR(r.ref)
        dataok == FrameOk(r) /\ AllInR(r.data)
        \* the noisy image with sky, as returned (unit u/tm)
        Yobs == AddConst(r.data, SkyTm(r))
        nfwant == Scale(AddConst(conv, IF r.sub THEN 0 ELSE r.sky), r.tm)
    IN
    << Cl(IF r.oh # r.h \/ r.ow # r.w \/ Len(r.data) # HW(r) THEN "Trim" ELSE "Return", "output-frame-is-the-image-frame",
          FrameOk(r) /\ (r.nm => r.nh = r.h /\ r.nw = r.w)),
       \* ---- deterministic stages
       Cl(StageOf(r, r.data, Scale(conv, r.tm), r.tm, "Convolve"), "noise-free-data-is-convolved-image-plus-sky",
          r.pn \/ (dataok /\ r.data = nfwant)),
       Cl(StageOf(r, r.x0, conv, 1, "Convolve"), "reference-input-is-the-noise-free-image-with-sky",
          Draws(r) => (r.hastwin /\ r.x0 = X)),
       \* ---- the random stage, bound to X01's function
       Cl("Poisson", "reference-draw-is-available", Draws(r) => refok),
       Cl("Poisson", "reference-is-a-poisson-reflection-of-the-expected-counts",
          (Draws(r) /\ refok) => \A k \in 1 .. HW(r) : IsPoissonReflection(r.ref[k], X[k], r.tm, r.cw)),
       Cl(IF dataok /\ refok THEN StageOf(r, r.data, AddConst(r.ref, -(r.sky * r.tm)), r.tm, "Poisson") ELSE "Poisson",
          "noisy-data-are-x01s-seeded-draw-of-image-plus-sky",
          (r.pn /\ refok) => (dataok /\ Yobs = r.ref)),
       Cl("Poisson", "noisy-data-are-bit-for-bit-x01s-result",
          (r.pn /\ refok /\ (~ r.sub \/ r.sky = 0)) => (r.fid >= 0 /\ r.fid = r.rid)),
       Cl("Poisson", "same-seed-gives-the-same-dataset-whatever-the-global-generator-state",
          Len(r.gids) >= 3 /\ r.gids[1] >= 0 /\ AllEq(r.gids, r.gids[1])),
       \* ---- the noise map
       Cl("NoiseMap", "noise-map-is-noise_if_add_noise_false-everywhere",
          (~ r.nm) => (Len(r.nconst) = HW(r) /\ AllEq(r.nconst, 1) /\ r.nh = r.h /\ r.nw = r.w)),
       Cl("NoiseMap", "noise-map-is-sqrt-abs-counts-over-exposure-time-of-the-image-with-sky",
          (r.nm /\ refok) =>
              IF r.pn THEN NoiseFixedOk(r, r.ref)
              ELSE \* noise-free data with "the noise levels expected if Poisson noise had been included": of the seeded
                   \* noisy realisation (what the repository's tests pin) or of the expected counts
                   NoiseFixedOk(r, r.ref) \/ NoiseFixedOk(r, XT)),
       \* ---- what is returned
       Cl("Return", "masks-are-all-false-on-the-image-frame-with-the-image-pixel-scales-and-origin",
          r.allfalse /\ r.gd = r.g /\ r.gn = r.g /\ r.gm = r.g),
       Cl("Return", "a-second-call-returns-an-equal-independent-dataset", r.fresh) >>
    \o InputClauses(r)

\* ---- imaging: the PSF of simulator and dataset ------------------------------------------------------------
IsDelta(v, kh, kw) ==
    /\ IsOddShape(kh, kw) /\ Len(v) = kh * kw
    /\ \A n \in DOMAIN v : v[n] = (IF n = (kh \div 2) * kw + (kw \div 2) + 1 THEN 1 ELSE 0)
PsfWellFormed(r) ==
    /\ IsOddShape(r.kh, r.kw) /\ Len(r.k) = r.kh * r.kw /\ KSum(r.k) \in Pow2s
    /\ \A n \in DOMAIN r.k : Abs(r.k[n]) <= 4096
PsfClauses(r) ==
    IF ~ PsfWellFormed(r) THEN << Cl("Driver", "well-formed-psf-record", FALSE) >>
    ELSE IF r.raised # "" THEN << Cl("Call", "no-exception", FALSE) >>
    ELSE IF ~ r.psf
    THEN \* (undocumented convention, only its harmlessness is judged: no PSF object at all -- recorded as an empty
         \*  kernel -- or a kernel that does not blur)
         << Cl("ReturnPsf", "without-psf-the-simulator-and-dataset-psf-do-not-blur",
               /\ (r.simpsf = << >> \/ IsDelta(r.simpsf, r.skh, r.skw))
               /\ (r.dspsf = << >> \/ IsDelta(r.dspsf, r.pkh, r.pkw))) >>
    ELSE LET want == PsfFine(r.k, r.norm)
         IN << Cl("ReturnPsf", "simulator-psf-is-the-given-psf-normalised-as-asked",
                  r.skh = r.kh /\ r.skw = r.kw /\ r.simpsf = want),
               Cl("ReturnPsf", "dataset-psf-is-the-simulator-psf",
                  r.pkh = r.kh /\ r.pkw = r.kw /\ r.dspsf = want),
               Cl("Call", "input-image-and-psf-are-never-modified", Len(r.inb) = Len(r.ina) /\ r.inb = r.ina) >>
\* the one deviation: the simulator used the unnormalised PSF as asked, the dataset carries a normalised one
PsfRenormalised(r) ==
    /\ PsfWellFormed(r) /\ r.raised = "" /\ r.psf /\ ~ r.norm
    /\ r.skh = r.kh /\ r.skw = r.kw /\ r.simpsf = PsfFine(r.k, FALSE)
    /\ r.pkh = r.kh /\ r.pkw = r.kw /\ r.dspsf # PsfFine(r.k, FALSE) /\ r.dspsfn = r.k
    /\ r.inb = r.ina

\* ---- interferometer: one call ---------------------------------------------------------------------------
Un(r) == { CellOf(r.u[k], r.w) : k \in DOMAIN r.u }
Cen(r) == Centres(Un(r), r.h, r.w, << r.org[1], r.org[2] >>)
Bl(r) == [k \in DOMAIN r.b |-> << r.b[k][1], r.b[k][2] >>]
Pairs(s) == [k \in DOMAIN s |-> << s[k][1], s[k][2] >>]
VisWellFormed(r) ==
    /\ r.h >= 1 /\ r.w >= 1 /\ HW(r) <= 64 /\ Len(r.u) >= 1 /\ Len(r.u) <= HW(r) /\ Len(r.img) = Len(r.u)
    /\ \A k \in DOMAIN r.u : r.u[k] >= 0 /\ r.u[k] < HW(r)
    /\ Len(r.b) >= 1 /\ Len(r.org) = 2 /\ r.seed >= 0
    /\ \A n \in DOMAIN r.img : Abs(r.img[n]) <= 64
VisClauses(r) ==
    IF ~ VisWellFormed(r) THEN << Cl("Driver", "well-formed-interferometer-record", FALSE) >>
    ELSE IF ~ OnLattice(Cen(r), Bl(r)) THEN << Cl("Driver", "input-on-the-quarter-turn-lattice", FALSE) >>
    ELSE IF r.raised # "" THEN << Cl("Call", "no-exception", FALSE) >>
    ELSE
    LET want == DftVis(r.img, Cen(r), Bl(r))
        K == Len(r.b)
    IN << Cl("Transform", "noise-free-visibilities-are-the-forward-transform-on-the-mask",
             (~ r.sigma) => (~ r.off /\ Pairs(r.vis) = want)),
          Cl("Transform", "reference-input-is-the-noise-free-transform",
             r.sigma => (r.hastwin /\ ~ r.off /\ Pairs(r.x0) = want)),
          Cl("GaussianNoise", "noisy-visibilities-are-bit-for-bit-x01s-seeded-complex-gaussian-draw",
             r.sigma => (r.hasref /\ r.fid >= 0 /\ r.fid = r.rid)),
          Cl("GaussianNoise", "noise-on-real-and-imaginary-part",
             r.sigma => (Len(r.qre) = K /\ Len(r.qim) = K /\ (\E k \in 1 .. K : r.qre[k] # 0) /\ (\E k \in 1 .. K : r.qim[k] # 0))),
          Cl("GaussianNoise", "same-seed-gives-the-same-dataset-whatever-the-global-generator-state",
             Len(r.gids) >= 3 /\ r.gids[1] >= 0 /\ AllEq(r.gids, r.gids[1])),
          Cl("VisNoiseMap", "noise-map-is-the-documented-constant-for-every-baseline",
             Len(r.nmok) = K /\ AllEq(r.nmok, 1)),
          Cl("ReturnVis", "uv-wavelengths-real-space-mask-and-transformer-class-are-those-given",
             Pairs(r.uvb) = Bl(r) /\ r.um = r.u /\ r.gm = r.g /\ r.tclass),
          Cl("ReturnVis", "a-second-call-returns-an-equal-independent-dataset", r.fresh),
          Cl("Call", "input-image-is-never-modified", Len(r.inb) = Len(r.ina) /\ r.inb = r.ina) >>

\* ---- histories on one simulator object ------------------------------------------------------------------
HistClauses(r) ==
    LET S == r.steps
        same(a, b) == S[a].ii = S[b].ii /\ S[a].seed = S[b].seed
    IN << Cl("History", "a-call-on-a-used-simulator-equals-the-call-on-a-fresh-one",
             Len(S) >= 1 /\ \A a \in DOMAIN S : S[a].fid = S[a].cid /\ S[a].nid = S[a].cnid),
          Cl("History", "equal-calls-give-equal-datasets",
             \A a \in DOMAIN S : \A b \in DOMAIN S : same(a, b) => (S[a].fid = S[b].fid /\ S[a].nid = S[b].nid)),
          \* (only where the draw enters the data: Poisson noise added / Gaussian noise on)
          Cl("History", "datasets-differ-exactly-where-x01s-reference-draws-differ",
             (IF r.kind = "img" THEN r.pn ELSE r.sigma) =>
                 \A a \in DOMAIN S : \A b \in DOMAIN S :
                     (S[a].rid >= 0 /\ S[b].rid >= 0) => ((S[a].fid = S[b].fid) <=> (S[a].rid = S[b].rid))) >>

Clauses(r) ==
    CASE r.api = "img" -> ImgClauses(r)
      [] r.api = "imgpsf" -> PsfClauses(r)
      [] r.api = "vis" -> VisClauses(r)
      [] r.api = "hist" -> HistClauses(r)
      [] OTHER -> << Cl("Driver", "unknown-api", FALSE) >>

Failed(r) == SelectSeq(Clauses(r), LAMBDA c : ~ c.ok)

\* ---- signatures: stage : option combination [: input class] ------------------------------------------------
ImgOptions(r, st) ==
    CASE st \in { "Pad", "Convolve", "Trim", "ReturnPsf" } -> "psf" \o Bit(r.psf) \o "-norm" \o Bit(r.norm)
      [] st \in { "AddSky", "SubtractSky" } -> "sub" \o Bit(r.sub)
      [] st \in { "Poisson", "NoiseMap" } -> "pn" \o Bit(r.pn) \o "-nm" \o Bit(r.nm)
      [] OTHER -> "psf" \o Bit(r.psf) \o "-norm" \o Bit(r.norm) \o "-pn" \o Bit(r.pn) \o "-nm" \o Bit(r.nm) \o "-sub" \o Bit(r.sub)
ImgClass(r, st) ==
    CASE st \in { "Pad", "Convolve", "Trim" } -> IF r.kh # r.kw THEN ":nonsquare-kernel" ELSE ""
      [] st \in { "Poisson", "NoiseMap" } -> IF r.seed = 0 THEN ":seed0" ELSE ""
      [] OTHER -> ""
Sig(r) ==
    LET f == Failed(r)
        st == IF f = << >> THEN "none" ELSE f[1].st
    IN CASE r.api = "img" /\ ImgWellFormed(r) /\ ~ Draws(r) /\ r.raised = "ValueError" /\ HasNegative(XOf(r, CConv(r))) ->
              "Poisson:pn0-nm0:negative-expected-counts-raise"
         [] r.api = "imgpsf" /\ PsfRenormalised(r) -> "ReturnPsf:psf1-norm0:dataset-psf-renormalised"
         [] r.api = "img" /\ ImgWellFormed(r) -> st \o ":" \o ImgOptions(r, st) \o ImgClass(r, st)
         [] r.api = "imgpsf" -> st \o ":psf" \o Bit(r.psf) \o "-norm" \o Bit(r.norm)
         [] r.api = "vis" -> st \o ":sigma" \o Bit(r.sigma) \o (IF r.sigma /\ r.seed = 0 THEN ":seed0" ELSE "")
         [] r.api = "hist" -> st \o ":" \o (IF r.kind = "img" THEN ImgOptions(r, st) ELSE "sigma" \o Bit(r.sigma))
         [] OTHER -> st \o ":" \o r.api

Want(r) ==
    CASE r.api = "img" /\ ImgWellFormed(r) ->
           LET conv == CConv(r)
           IN [convolved |-> conv, noise_free_with_sky |-> XOf(r, conv),
               data_times_tm_if_noise_free |-> Scale(AddConst(conv, IF r.sub THEN 0 ELSE r.sky), r.tm)]
      [] r.api = "imgpsf" /\ PsfWellFormed(r) -> [psf |-> PsfFine(r.k, r.norm)]
      [] r.api = "vis" /\ VisWellFormed(r) -> [vis |-> DftVis(r.img, Cen(r), Bl(r))]
      [] OTHER -> << >>

TraceInit == /\ i = 1
             /\ sim = BlankSim /\ pc = "trace" /\ call = BlankCall /\ work = BlankWork /\ noisy = << >> /\ nmap = NoMap
             /\ log = << >> /\ hist = << >>

TraceNext ==
    /\ i <= Len(Trace)
    /\ LET r == Trace[i]
           f == Failed(r)
       IN IF f = << >> THEN TRUE
          ELSE PrintT(ToJson([k |-> "reject", i |-> i, id |-> r.id,
                              clauses |-> [j \in DOMAIN f |-> f[j].st \o ":" \o f[j].n],
                              sig |-> Sig(r), want |-> Want(r)]))
    /\ i' = i + 1
    /\ UNCHANGED vars

TraceSpec == TraceInit /\ [][TraceNext]_<< vars, i >>
TraceAccepted == TLCGet("stats").diameter - 1 = Len(Trace)
=============================================================================
