---------------------------- MODULE Trace_Masks ----------------------------
(***************************************************************************)
(* Validation of recorded executions of the real code against Masks.tla.   *)
(* One record per public call (C01: structures and index tables; C10:      *)
(* derived pixel sets).  Verdicts are total: every record is judged, a     *)
(* rejected record is printed with the names of the failing clauses, the   *)
(* signature of the failing input class and the value the spec wanted.     *)
(***************************************************************************)
EXTENDS Masks, IOUtils

Trace == JsonDeserialize(IOEnv.TRACE_FILE)

VARIABLE i

Un(r) == { CellOf(r.u[k], r.w) : k \in DOMAIN r.u }
Ascending(s) == \A k \in 1 .. Len(s) - 1 : s[k] < s[k+1]
PairSet(s) == { << s[k][1], s[k][2] >> : k \in DOMAIN s }
IsPairSeq(s) == \A k \in DOMAIN s : Len(s[k]) = 2

Cl(n, b) == [n |-> n, ok |-> b]

\* ---- C01 ---------------------------------------------------------------
\* r.out is the alpha-abstraction of a returned array: the source cell (linear index) of every
\* output position, Zero (-1) for an exact 0, -2 for anything else (unknown tag, mixed components).
ClausesC01(r) ==
    LET u == Un(r) IN
    CASE r.api = "structure" ->
           \* one constructed Array2D / Grid2D / VectorYX2D (given slim or native, stored slim or native)
           LET ss == SlimSrc(u, r.h, r.w)
               ns == NativeSrc(u, r.h, r.w)
           IN << Cl("slim-is-row-major-gather", r.slim = ss),
                 Cl("native-is-scatter-with-zeros", r.native = ns),
                 Cl("stored-form", r.stored = IF r.store_native THEN ns ELSE ss),
                 Cl("slim-native-slim-identity", r.sns = r.slim),
                 Cl("native-slim-native-zeroes-masked", r.nsn = ns),
                 Cl("payload-independent", r.payload_ok),
                 \* an object derived by arithmetic (obj + K, K + obj) reports the same two forms: masked positions of its
                 \* native form are exactly zero even when the buffer it was derived from is stored native
                 Cl("derived-native-is-scatter-with-zeros", r.d_native_add = ns /\ r.d_native_radd = ns),
                 Cl("derived-slim-is-row-major-gather", r.d_slim_add = ss /\ r.d_slim_radd = ss),
                 \* masking the object further / rebuilding from its native form leaves what it reports unchanged
                 Cl("forms-unchanged-by-deriving-a-child", r.parent_ok) >>
      [] r.api = "structure1d" ->
           \* 1D: only the two round trips are claimed
           << Cl("1d-slim-native-slim-identity", r.sns = r.slim),
              Cl("1d-native-slim-native-zeroes-masked",
                 /\ Len(r.nsn) = Len(r.native)
                 /\ \A k \in DOMAIN r.native :
                        r.nsn[k] = IF CellOf(k-1, r.w) \in u THEN r.native[k] ELSE Zero),
              Cl("payload-independent", r.payload_ok) >>
      [] r.api = "indexes" ->
           << Cl("native-for-slim", IsPairSeq(r.nfs) /\ r.nfs = NativeForSlim(u, r.h, r.w)),
              Cl("unmasked-slim", r.uslim = UnmaskedSlim(u, r.h, r.w)),
              Cl("masked-slim", r.mslim = MaskedSlim(u, r.h, r.w)),
              Cl("partition", /\ ToSet(r.mslim) \cup ToSet(r.uslim) = 0 .. r.h * r.w - 1
                              /\ ToSet(r.mslim) \cap ToSet(r.uslim) = {}) >>
      [] r.api = "indexes_big" ->
           \* a very long frame with a handful of unmasked pixels: the k-th unmasked pixel in row-major order and its linear index
           \* (evaluated on the sorted list of unmasked linear indices, not on the frame)
           LET us == SetToSortSeq({ r.u[k] : k \in DOMAIN r.u }, <) IN
           << Cl("native-for-slim", IsPairSeq(r.nfs) /\ Len(r.nfs) = Len(us) /\
                                    \A k \in DOMAIN us : r.nfs[k] = << us[k] \div r.w, us[k] % r.w >>),
              Cl("unmasked-slim", r.uslim = us) >>
      [] OTHER -> << Cl("unknown-api", FALSE) >>

WantC01(r) ==
    LET u == Un(r) IN
    CASE r.api = "structure" -> [slim |-> SlimSrc(u, r.h, r.w), native |-> NativeSrc(u, r.h, r.w)]
      [] r.api = "indexes" -> [nfs |-> NativeForSlim(u, r.h, r.w), mslim |-> MaskedSlim(u, r.h, r.w)]
      [] OTHER -> << >>

\* ---- C10 ---------------------------------------------------------------
\* "sets" record: edge_slim, edge_native, edge_mask (linear indices unmasked in derive_mask.edge),
\* edge_grid (cells of the coordinates of derive_grid.edge, in order), same for border.
SlimConsistent(slim, native, u, H, W) ==
    /\ Len(slim) = Len(native)
    /\ Ascending(slim)
    /\ IsPairSeq(native)
    /\ \A k \in DOMAIN slim :
          /\ slim[k] >= 0 /\ slim[k] < Cardinality(u)
          /\ NativeForSlim(u, H, W)[slim[k] + 1] = << native[k][1], native[k][2] >>

ClausesC10(r) ==
    LET u == Un(r) IN
    CASE r.api = "sets" ->
           LET E == PairSet(r.edge_native)
               B == PairSet(r.border_native)
           IN << Cl("views-raise-no-exception", r.raised = << >>),
                 Cl("edge-contains-every-pixel-with-masked-neighbour", EdgeMust(u, r.h, r.w) \subseteq E),
                 Cl("edge-has-no-fully-surrounded-pixel", E \subseteq EdgeMay(u, r.h, r.w)),
                 Cl("edge-slim-native-agree", SlimConsistent(r.edge_slim, r.edge_native, u, r.h, r.w)),
                 Cl("edge-mask-view", ToSet(r.edge_mask) = SetLin(E, r.w)),
                 Cl("edge-grid-view", r.edge_grid = r.edge_native),
                 Cl("border-is-free-walk-edge", B = BorderOf(E, u, r.h, r.w)),
                 Cl("border-slim-native-agree", SlimConsistent(r.border_slim, r.border_native, u, r.h, r.w)),
                 Cl("border-mask-view", ToSet(r.border_mask) = SetLin(B, r.w)),
                 Cl("border-grid-view", r.border_grid = r.border_native) >>
      [] r.api = "blurring" ->
           IF FootLeaves(u, r.h, r.w, r.kh, r.kw)
           THEN << Cl("blurring-raises-when-footprint-leaves", r.raised) >>
           ELSE << Cl("blurring-no-error", ~ r.raised),
                   Cl("blurring-set", ~ r.raised /\ ToSet(r.out) = SetLin(Blurring(u, r.h, r.w, r.kh, r.kw), r.w)),
                   Cl("blurring-grid-view", ~ r.raised /\ r.grid = SetToSortSeq(SetLin(Blurring(u, r.h, r.w, r.kh, r.kw), r.w), <)) >>
      [] r.api = "edge_buffed" ->
           \* derive_mask.edge_buffed: the mask with every cell within one pixel of an unmasked cell
           \* unmasked as well (clipped to the frame)
           << Cl("views-raise-no-exception", r.raised = << >>),
              Cl("edge-buffed", ToSet(r.out) = SetLin(Buffed(u, r.h, r.w, 1), r.w)) >>
      [] r.api = "from_pixel_coordinates" ->
           \* (beyond the listed property) a mask built from pixel coordinates unmasks exactly those pixels, buffed by `b`
           \* in all eight directions and clipped to the frame; with invert the complementary mask
           LET want == Buffed(u, r.h, r.w, r.b) IN
           << Cl("mask-from-pixel-coordinates-is-buffed-set",
                 ToSet(r.out) = SetLin(IF r.invert THEN Cells(r.h, r.w) \ want ELSE want, r.w)) >>
      [] OTHER -> << Cl("unknown-api", FALSE) >>

WantC10(r) ==
    LET u == Un(r) IN
    CASE r.api = "sets" -> [must |-> SetLin(EdgeMust(u, r.h, r.w), r.w), may |-> SetLin(EdgeMay(u, r.h, r.w), r.w),
                            border |-> SetLin(BorderOf(PairSet(r.edge_native), u, r.h, r.w), r.w)]
      [] r.api = "blurring" -> IF FootLeaves(u, r.h, r.w, r.kh, r.kw) THEN <<"raise">>
                               ELSE SetToSortSeq(SetLin(Blurring(u, r.h, r.w, r.kh, r.kw), r.w), <)
      [] OTHER -> << >>

\* signature of the failing input class (used to match known findings)
OnRing(p, H, W) == p[1] = 0 \/ p[2] = 0 \/ p[1] = H-1 \/ p[2] = W-1
Sig(r) == IF r.p = "C10" /\ r.api \in {"sets", "edge_buffed"} /\ \E p \in Un(r) : OnRing(p, r.h, r.w)
          THEN "OuterRingUnmasked"
          ELSE r.api

Clauses(r) == IF r.p = "C01" THEN ClausesC01(r) ELSE ClausesC10(r)
Want(r) == IF r.p = "C01" THEN WantC01(r) ELSE WantC10(r)
Failed(r) == SelectSeq(Clauses(r), LAMBDA c : ~ c.ok)

TraceInit == /\ i = 1
             /\ shape = <<1, 1>> /\ U = {} /\ phase = "trace" /\ obs = << >>

TraceNext ==
    /\ i <= Len(Trace)
    /\ LET r == Trace[i]
           f == Failed(r)
       IN IF f = << >> THEN TRUE
          ELSE PrintT(ToJson([k |-> "reject", i |-> i, id |-> r.id,
                              clauses |-> [j \in DOMAIN f |-> f[j].n],
                              sig |-> Sig(r), want |-> Want(r)]))
    /\ i' = i + 1
    /\ UNCHANGED vars

TraceSpec == TraceInit /\ [][TraceNext]_<< vars, i >>
TraceAccepted == TLCGet("stats").diameter - 1 = Len(Trace)
=============================================================================
