----------------------------- MODULE MaskHistory -----------------------------
(***************************************************************************)
(* C14, masking histories on one imaging dataset.                          *)
(*                                                                         *)
(* "... the automatic padding performed when a mask is applied to imaging  *)
(* data whose blurring region leaves the frame -- every surviving pixel    *)
(* keeps both its value and its scaled coordinate, so the (coordinate,     *)
(* data, noise) triples of unmasked pixels are unchanged."                 *)
(*                                                                         *)
(* Imaging.apply_mask documents that "every mask is always applied to the  *)
(* original unmasked imaging dataset" (a masked dataset keeps it).  So for *)
(* ds.apply_mask(a1).apply_mask(a2)... every result must show, for every   *)
(* unmasked pixel of ITS mask ak (given on the original frame), the        *)
(* ORIGINAL (coordinate, data, noise) triple -- whatever the earlier masks *)
(* hid, and wherever the pixel sits after the automatic padding of this or *)
(* of an earlier step.                                                     *)
(*                                                                         *)
(* Meaning: the result of step k is AutoPad (Resize.tla) of the original   *)
(* frame under ak, independent of a1..a(k-1).  Machine: the dataset object *)
(* as the code builds it (a kept-parent slot; the base of the next masking *)
(* is the dataset itself while it is unmasked, else its kept parent), and  *)
(* the theorems that both agree.  (Placed in the EXTENDS chain after       *)
(* ZoomHistory only so that Trace_Resize can use both; the two history     *)
(* machines are independent.)                                              *)
(***************************************************************************)
EXTENDS ZoomHistory

CONSTANTS MHistFrames   \* <<H, W, kh, kw, depth>>: every history of `depth` non-empty masks on the H x W frame, PSF kh x kw

-----------------------------------------------------------------------------
(* Layer 1: meaning *)

\* what apply_mask(a) must return on an imaging dataset whose ORIGINAL frame is H x W (a: unmasked cells on that frame):
\* shape, unmasked cells (own frame), and the source (original linear index / Pad) of every cell of data and noise map
MaskedFromOriginal(H, W, a, kh, kw) ==
    LET s == AutoPadShape(H, W, a, kh, kw)
        o == AutoPadOff(H, W, a, kh, kw)
    IN [h |-> s[1], w |-> s[2],
        um |-> AutoPadMask(H, W, a, kh, kw),
        src |-> WindowSrc(H, W, a, s[1], s[2], o[1], o[2])]
\* the triples a dataset value d (fields h, w, um, src) shows under geometry g (a padded frame keeps scales and origin)
ShownTriples(d, g) ==
    { << Centre(q, d.h, d.w, g), d.src[Lin(q, d.w) + 1], d.src[Lin(q, d.w) + 1] >> : q \in d.um }

-----------------------------------------------------------------------------
(* Layer 2: the machine, built like the code.                                                                *)
(*   inst     original frame h x w, PSF kh x kw, number of masks (field b)                                   *)
(*   obs.ds   the current dataset: frame, unmasked cells, source map, and `kept` = it holds the original     *)
(*            unmasked dataset (Imaging.unmasked)                                                            *)
(*   obs.log  the masks applied so far (each as ascending linear indices on the original frame)              *)

OriginalDs(H, W) == [h |-> H, w |-> W, um |-> Cells(H, W), src |-> Identity(H, W), kept |-> FALSE]
IsUnmaskedDs(d) == d.um = Cells(d.h, d.w)
\* apply_mask: "if self.data.mask.is_all_false: base = self  else: base = self.unmasked"
BaseOf(d, H, W) == IF IsUnmaskedDs(d) THEN d ELSE OriginalDs(H, W)
BaseDefined(d) == IsUnmaskedDs(d) \/ d.kept
\* ... then data and noise map of the BASE are masked with a, the constructor pads when the blurring region leaves
\* the frame, and the new dataset keeps the base
ApplyMaskLikeCode(d, a, H, W, kh, kw) ==
    LET base == BaseOf(d, H, W)
        m == MaskedFromOriginal(base.h, base.w, a, kh, kw)
    IN [h |-> m.h, w |-> m.w, um |-> m.um, src |-> Compose(m.src, base.src), kept |-> TRUE]

MHistInst(f) == [Blank EXCEPT !.kind = "mask_history", !.h = f[1], !.w = f[2], !.kh = f[3], !.kw = f[4], !.b = f[5]]

MInit == /\ \E f \in MHistFrames : inst = MHistInst(f)
         /\ phase = "mask_history"
         /\ obs = [ds |-> OriginalDs(inst.h, inst.w), log |-> << >>]

MApply ==
    /\ Len(obs.log) < inst.b
    /\ BaseDefined(obs.ds)
    /\ \E a \in (SUBSET Cells(inst.h, inst.w)) \ {{}} :
          LET log2 == Append(obs.log, LinSeq(a, inst.h, inst.w))
          IN /\ obs' = [ds |-> ApplyMaskLikeCode(obs.ds, a, inst.h, inst.w, inst.kh, inst.kw), log |-> log2]
             /\ (Len(log2) = inst.b) =>
                    PrintT(ToJson([k |-> "mhist", h |-> inst.h, w |-> inst.w, kh |-> inst.kh, kw |-> inst.kw,
                                   masks |-> log2]))
    /\ UNCHANGED << inst, phase >>

MNext == MApply
MSpec == MInit /\ [][MNext]_vars

-----------------------------------------------------------------------------
(* Layer 3: properties *)

LastMask == { CellOf(obs.log[Len(obs.log)][k], inst.w) : k \in DOMAIN obs.log[Len(obs.log)] }

\* the base of the next masking always exists, has the original frame and shows the original data:
\* a mask given on the original frame is applicable after any history (also after an automatic padding)
BaseIsAlwaysTheOriginal ==
    /\ BaseDefined(obs.ds)
    /\ LET b == BaseOf(obs.ds, inst.h, inst.w)
       IN b.h = inst.h /\ b.w = inst.w /\ b.src = Identity(inst.h, inst.w) /\ IsUnmaskedDs(b)
\* the code's construction equals the meaning: the last mask applied to the ORIGINAL frame, earlier masks forgotten
EveryMaskIsAppliedToTheOriginal ==
    obs.log # << >> =>
        LET m == MaskedFromOriginal(inst.h, inst.w, LastMask, inst.kh, inst.kw)
        IN obs.ds.h = m.h /\ obs.ds.w = m.w /\ obs.ds.um = m.um /\ obs.ds.src = m.src
\* every unmasked pixel of the current mask carries its original (coordinate, data, noise) triple
HistoryPreservesOriginalTriples ==
    obs.log # << >> =>
        \A g \in Geoms : ShownTriples(obs.ds, g) = Triples(LastMask, inst.h, inst.w, g)
\* and the blurring region of the current mask fits in the current frame
HistoryBlurringFits ==
    obs.log # << >> => ~ FootLeaves(obs.ds.um, obs.ds.h, obs.ds.w, inst.kh, inst.kw)
=============================================================================
