------------------------------- MODULE Algebra -------------------------------
(***************************************************************************)
(* X08: arithmetic on PyAutoArray data structures (AbstractNDArray) is     *)
(* element-wise on the STORED entries, keeps the container, and never      *)
(* touches its operands; copies are independent; views report the          *)
(* object's own current entries.                                           *)
(*                                                                         *)
(* Exact domain.  A value is a dyadic rational << n, e >> = n * 2^(-e)     *)
(* with n odd (or << 0, 0 >>).  Every IEEE double IS such a number, so the *)
(* abstraction of a float is exact, and + - * and division by a power of   *)
(* two, floor division, small integer powers and square roots of perfect   *)
(* squares are exact in floating point on small mantissas.  A value whose  *)
(* exponent field is >= 90 is UNDEFINED (nan, inf, off the small lattice): *)
(* x/0, 0/0, an inexact quotient ...  Undefined is absorbing and is never  *)
(* judged ("only judged where the result is defined").                     *)
(*                                                                         *)
(* A stored array is the row-major flattening of what the object holds:    *)
(* slim-stored  [N] / [N,2], native-stored [H,W] / [H,W,2] (masked cells   *)
(* start at 0 and then evolve element-wise like every other stored entry:  *)
(* 0 op 0, 0 op scalar; 0/0 is undefined THERE and must not leak), complex *)
(* arrays as (re, im) pairs.                                               *)
(*                                                                         *)
(* Layer 1 (meaning) is parametrised by an environment record so that the  *)
(* bounded machine below and the trace specification (whose records carry  *)
(* their own class, mask and storage form) use the same operators.         *)
(***************************************************************************)
EXTENDS Integers, Sequences, FiniteSets, TLC, Json, SequencesExt, FiniteSetsExt

CONSTANTS Shapes,      \* set of << H, W >> explored by the bounded machine
          DumpShapes,  \* the frames whose behaviours are dumped for replay (all of them are explored and checked)
          Stores,      \* subset of {FALSE, TRUE}: slim- / native-stored operands
          Pats,        \* set of << pattern of a, pattern of b >>
          OpsBin, Kinds, Scalars, Routes,   \* alphabet of Binary
          OpsUn,                            \* alphabet of Unary
          OpsIn, KindsIn,                   \* alphabet of InPlace
          Hows,                             \* copy / deepcopy / pickle / method
          Keys, EditSlots,                  \* alphabet of Edit (__setitem__)
          Views, ReadSlots,                 \* alphabet of Read
          MaxLen,
          SetItemDropsCaches,  \* design switch: __setitem__ invalidates cached views (TRUE = the design that satisfies the property)
          CopySharesArray      \* design switch: a copy aliases the original's entries (FALSE = the design that satisfies the property)

-----------------------------------------------------------------------------
(* Layer 1a: exact values *)

Undef == << 0, 99 >>
IsAny(x) == x[2] >= 90
MaxI(a, b) == IF a >= b THEN a ELSE b
RECURSIVE Norm(_, _)
Norm(n, e) == IF n = 0 THEN << 0, 0 >> ELSE IF n % 2 = 0 THEN Norm(n \div 2, e - 1) ELSE << n, e >>
IntV(k) == Norm(k, 0)
Zero == << 0, 0 >>
One == << 1, 0 >>
\* operands on which TLC's 32-bit arithmetic cannot overflow; anything bigger is treated as undefined (not judged)
Ok(x) == x[2] < 90 /\ x[1] > -16384 /\ x[1] < 16384 /\ x[2] > -8 /\ x[2] < 8
BoolV(b) == IF b THEN One ELSE Zero

AddV(x, y) == IF ~ (Ok(x) /\ Ok(y)) THEN Undef
              ELSE LET e == MaxI(x[2], y[2]) IN Norm(x[1] * 2^(e - x[2]) + y[1] * 2^(e - y[2]), e)
NegV(x) == IF IsAny(x) THEN Undef ELSE << -x[1], x[2] >>
AbsV(x) == IF IsAny(x) THEN Undef ELSE << IF x[1] < 0 THEN -x[1] ELSE x[1], x[2] >>
SubV(x, y) == AddV(x, NegV(y))
MulV(x, y) == IF ~ (Ok(x) /\ Ok(y)) THEN Undef ELSE Norm(x[1] * y[1], x[2] + y[2])
\* a quotient is exact (hence judged) iff the divisor is +-2^k; x/0 is undefined
DivV(x, y) == IF ~ (Ok(x) /\ Ok(y)) THEN Undef
              ELSE IF y[1] = 0 THEN Undef
              ELSE IF y[1] = 1 \/ y[1] = -1 THEN Norm(x[1] * y[1], x[2] - y[2])
              ELSE Undef
\* sign of x - y
SgnV(x, y) == LET d == SubV(x, y) IN IF d[1] < 0 THEN -1 ELSE IF d[1] > 0 THEN 1 ELSE 0
FDivV(x, y) == IF ~ (Ok(x) /\ Ok(y)) THEN Undef
               ELSE IF y[1] = 0 THEN Undef
               ELSE LET e == MaxI(x[2], y[2])
                        X == x[1] * 2^(e - x[2])
                        Y == y[1] * 2^(e - y[2])
                    IN IntV(IF Y > 0 THEN X \div Y ELSE (-X) \div (-Y))
\* integer exponents 0..3 (anything else is not exact in general)
PowV(x, y) == IF ~ (Ok(x) /\ Ok(y)) THEN Undef
              ELSE IF y = Zero THEN One
              ELSE IF y = One THEN x
              ELSE IF y = << 1, -1 >> THEN MulV(x, x)
              ELSE IF y = << 3, 0 >> THEN MulV(MulV(x, x), x)
              ELSE Undef
\* square root: judged on perfect squares only
SqrtV(x) == IF ~ Ok(x) THEN Undef
            ELSE IF x[1] = 0 THEN Zero
            ELSE IF x[1] < 0 THEN Undef
            ELSE IF (x[2] % 2 = 0) /\ (\E q \in 1 .. 127 : q * q = x[1])
                 THEN << CHOOSE q \in 1 .. 127 : q * q = x[1], x[2] \div 2 >>
                 ELSE Undef

ArithOps == {"add", "sub", "mul", "div", "pow"}       \* operators AbstractNDArray defines and wraps
OptionalOps == {"fdiv", "mod"}                         \* not defined by the class: TypeError or numpy's own answer
CmpOps == {"lt", "le", "gt", "ge", "eq", "ne"}

OpR(op, x, y) ==
    CASE op = "add" -> AddV(x, y)
      [] op = "sub" -> SubV(x, y)
      [] op = "mul" -> MulV(x, y)
      [] op = "div" -> DivV(x, y)
      [] op = "fdiv" -> FDivV(x, y)
      [] op = "pow" -> PowV(x, y)
      [] op \in CmpOps ->
           IF ~ (Ok(x) /\ Ok(y)) THEN Undef
           ELSE LET s == SgnV(x, y) IN
                BoolV(CASE op = "lt" -> s < 0 [] op = "le" -> s <= 0 [] op = "gt" -> s > 0
                        [] op = "ge" -> s >= 0 [] op = "eq" -> s = 0 [] OTHER -> s # 0)
      [] OTHER -> Undef

\* complex numbers are pairs << re, im >> of values; results are sequences of one (comparison) or two values
CMul(a, b) == << SubV(MulV(a[1], b[1]), MulV(a[2], b[2])), AddV(MulV(a[1], b[2]), MulV(a[2], b[1])) >>
OpC(op, a, b) ==
    CASE op = "add" -> << AddV(a[1], b[1]), AddV(a[2], b[2]) >>
      [] op = "sub" -> << SubV(a[1], b[1]), SubV(a[2], b[2]) >>
      [] op = "mul" -> CMul(a, b)
      [] op = "div" -> IF b[2] = Zero THEN << DivV(a[1], b[1]), DivV(a[2], b[1]) >> ELSE << Undef, Undef >>
      [] op = "pow" -> IF b[2] # Zero THEN << Undef, Undef >>
                       ELSE IF b[1] = Zero THEN << One, Zero >>
                       ELSE IF b[1] = One THEN a
                       ELSE IF b[1] = << 1, -1 >> THEN CMul(a, a)
                       ELSE IF b[1] = << 3, 0 >> THEN CMul(CMul(a, a), a)
                       ELSE << Undef, Undef >>
      [] op = "eq" -> IF Ok(a[1]) /\ Ok(a[2]) /\ Ok(b[1]) /\ Ok(b[2]) THEN << BoolV(a = b) >> ELSE << Undef >>
      [] op = "ne" -> IF Ok(a[1]) /\ Ok(a[2]) /\ Ok(b[1]) /\ Ok(b[2]) THEN << BoolV(a # b) >> ELSE << Undef >>
      [] op \in CmpOps -> << Undef >>            \* order comparisons of complex numbers: not defined, not judged
      [] OTHER -> << Undef, Undef >>
HypotV(y, x) == SqrtV(AddV(MulV(y, y), MulV(x, x)))

\* element-wise application to stored (flattened) arrays
Elementwise(op, A, B, cplx) ==
    IF Len(A) # Len(B) THEN << >>
    ELSE IF ~ cplx THEN [p \in 1 .. Len(A) |-> OpR(op, A[p], B[p])]
    ELSE LET n == Len(A) \div 2
             E(j) == OpC(op, << A[2*j-1], A[2*j] >>, << B[2*j-1], B[2*j] >>)
         IN IF op \in CmpOps THEN [j \in 1 .. n |-> E(j)[1]]
            ELSE [p \in 1 .. 2*n |-> E((p+1) \div 2)[2 - (p % 2)]]
Broadcast(bv, L) == IF Len(bv) = 0 THEN << >> ELSE [p \in 1 .. L |-> bv[1 + ((p-1) % Len(bv))]]

UnR(op, x) == CASE op = "neg" -> NegV(x) [] op = "abs" -> AbsV(x) [] op = "sqrt" -> SqrtV(x)
                [] op = "square" -> MulV(x, x) [] op = "invert" -> IF x = Zero THEN One ELSE IF x = One THEN Zero ELSE Undef
                [] OTHER -> Undef
UnaryOf(op, A, cplx) ==
    IF ~ cplx THEN [p \in 1 .. Len(A) |-> UnR(op, A[p])]
    ELSE LET n == Len(A) \div 2 IN
         CASE op = "neg" -> [p \in 1 .. 2*n |-> NegV(A[p])]
           [] op = "abs" -> [j \in 1 .. n |-> HypotV(A[2*j-1], A[2*j])]
           [] op = "square" -> [p \in 1 .. 2*n |-> CMul(<< A[2*((p+1) \div 2)-1], A[2*((p+1) \div 2)] >>,
                                                     << A[2*((p+1) \div 2)-1], A[2*((p+1) \div 2)] >>)[2 - (p % 2)]]
           [] OTHER -> [p \in 1 .. Len(A) |-> Undef]

\* got explains want: equal wherever want is defined
MatchV(want, got) == IsAny(want) \/ want = got
MatchSeq(want, got) == Len(want) = Len(got) /\ \A p \in 1 .. Len(want) : MatchV(want[p], got[p])

RECURSIVE SumFrom(_, _, _)
SumFrom(A, p, step) == IF p > Len(A) THEN Zero ELSE AddV(A[p], SumFrom(A, p + step, step))
RECURSIVE ExtFrom(_, _, _)
ExtFrom(A, p, big) == IF p = Len(A) THEN A[p]
                      ELSE LET rest == ExtFrom(A, p + 1, big) IN
                           IF ~ (Ok(A[p]) /\ Ok(rest)) THEN Undef
                           ELSE IF (SgnV(A[p], rest) >= 0) = big THEN A[p] ELSE rest

-----------------------------------------------------------------------------
(* Layer 1b: masks and storage forms.  env = [cls, comp, cplx, nat, h, w, u, shape0] where u is the ascending       *)
(* sequence of the linear (row-major) indices of the unmasked cells, comp the number of components of an entry,     *)
(* nat whether the array is native-stored, shape0 the length of the first axis of the stored array; h = 0 for      *)
(* classes without a mask (irregular structures, visibilities).                                                    *)

USet(env) == { env.u[k] : k \in DOMAIN env.u }
RankIn(cell, env) == 1 + Cardinality({ k \in DOMAIN env.u : env.u[k] < cell })
Unit(env) == IF env.cplx THEN 2 ELSE 1
\* native-stored -> the entries of the unmasked cells in row-major order
GatherU(st, u, c) == [q \in 1 .. Len(u) * c |-> st[u[1 + ((q-1) \div c)] * c + 1 + ((q-1) % c)]]
Gather(st, env) == GatherU(st, env.u, env.comp)
\* slim-stored -> native with zeros in the masked cells
Scatter(sl, env) ==
    LET c == env.comp  us == USet(env) IN
    [p \in 1 .. env.h * env.w * c |->
        LET cell == (p-1) \div c IN IF cell \in us THEN sl[(RankIn(cell, env) - 1) * c + 1 + ((p-1) % c)] ELSE Zero]
\* native view of a native-stored array: masked cells are multiplied by zero (an undefined value stays undefined)
ReZero(st, env) ==
    LET c == env.comp  us == USet(env) IN
    [p \in 1 .. Len(st) |-> IF ((p-1) \div c) \in us \/ IsAny(st[p]) THEN st[p] ELSE Zero]
HasMask(env) == env.h > 0
SlimOf(st, env) == IF HasMask(env) /\ env.nat THEN Gather(st, env) ELSE st
\* (1D: `Array1D(native values, store_native=True)` keeps what it is given in masked cells; C01 claims only the round
\* trips in 1D, so the masked cells of that view are not constrained)
Unconstrain(st, env) == LET c == env.comp  us == USet(env) IN
                        [p \in 1 .. Len(st) |-> IF ((p-1) \div c) \in us THEN st[p] ELSE Undef]
NativeOf(st, env) == IF ~ HasMask(env) THEN st
                     ELSE IF env.nat THEN (IF env.cls = "Array1D" THEN Unconstrain(st, env) ELSE ReZero(st, env))
                     ELSE Scatter(st, env)
StoredLen(env) == IF ~ HasMask(env) THEN Len(env.u) * env.comp * Unit(env)
                  ELSE IF env.nat THEN env.h * env.w * env.comp ELSE Len(env.u) * env.comp
Stride(st, env) == IF env.shape0 = 0 \/ Len(st) < env.shape0 THEN 1 ELSE Len(st) \div env.shape0

\* __setitem__ with numpy semantics: `gran` = "row" selects indices of the first axis, "elem" selects single elements
SetItem(st, env, gran, sel, vv) ==
    LET G == IF gran = "row" THEN Stride(st, env) ELSE Unit(env)
        s == { sel[k] : k \in DOMAIN sel }
    IN [p \in 1 .. Len(st) |-> IF ((p-1) \div G) \in s THEN vv[1 + ((p-1) % Len(vv))] ELSE st[p]]

\* integers (for the fixed-point judgements of the vector averages)
IsSmallInt(x) == x[2] <= 0 /\ x[2] > -7 /\ x[1] > -65 /\ x[1] < 65 /\ (x[1] * 2^(-x[2])) < 65 /\ (x[1] * 2^(-x[2])) > -65
AsInt(x) == x[1] * 2^(-x[2])
RECURSIVE ISum(_, _, _)
ISum(A, p, step) == IF p > Len(A) THEN 0 ELSE AsInt(A[p]) + ISum(A, p + step, step)
AbsI(k) == IF k < 0 THEN -k ELSE k

\* half-degree reading R2 of 0.5*atan2(sy, sx) in degrees lies in an octant consistent with the signs of (sx, sy)
PhiOkPos(R2, sy, sx) ==   \* sy >= 0
    \/ (sx > 0 /\ sy <= sx /\ R2 >= 0 /\ R2 <= 45)
    \/ (sx >= 0 /\ sy >= sx /\ sy > 0 /\ R2 >= 45 /\ R2 <= 90)
    \/ (sx <= 0 /\ sy >= -sx /\ sy > 0 /\ R2 >= 90 /\ R2 <= 135)
    \/ (sx < 0 /\ sy <= -sx /\ R2 >= 135 /\ R2 <= 180)
    \/ (sx < 0 /\ sy = 0 /\ R2 = -180)
    \/ (sx = 0 /\ sy = 0 /\ R2 = 0)
PhiOk(R2, sy, sx) == IF sy >= 0 THEN PhiOkPos(R2, sy, sx) ELSE PhiOkPos(-R2, -sy, sx)

\* what a view of an object with stored content st must report.  `arg` is a sequence of integers.
VectorViews == {"vy", "vx", "magnitudes"}
ViewOf(view, st, env, arg) ==
    CASE view = "slim" -> SlimOf(st, env)
      [] view = "native" -> NativeOf(st, env)
      [] view = "cview" -> st
      [] view \in {"sum", "npsum"} ->
           IF Len(st) = 0 THEN << Zero >>
           ELSE IF env.cplx THEN << SumFrom(st, 1, 2), SumFrom(st, 2, 2) >> ELSE << SumFrom(st, 1, 1) >>
      [] view \in {"max", "npmax"} -> IF env.cplx \/ Len(st) = 0 THEN << Undef >> ELSE << ExtFrom(st, 1, TRUE) >>
      [] view = "min" -> IF env.cplx \/ Len(st) = 0 THEN << Undef >> ELSE << ExtFrom(st, 1, FALSE) >>
      [] view = "index" -> LET s == Stride(st, env) IN SubSeq(st, arg[1] * s + 1, (arg[1] + 1) * s)
      [] view = "tail" -> LET s == Stride(st, env) IN SubSeq(st, arg[1] * s + 1, Len(st))
      [] view = "apply_mask" ->          \* arg = the unmasked cells of the new mask (a subset of u)
           GatherU(NativeOf(st, env), arg, env.comp)
      [] view = "vy" -> LET sl == SlimOf(st, env) IN [k \in 1 .. Len(sl) \div 2 |-> sl[2*k-1]]
      [] view = "vx" -> LET sl == SlimOf(st, env) IN [k \in 1 .. Len(sl) \div 2 |-> sl[2*k]]
      [] view \in {"magnitudes", "amplitudes"} ->
           LET sl == SlimOf(st, env) IN [k \in 1 .. Len(sl) \div 2 |-> HypotV(sl[2*k-1], sl[2*k])]
      [] OTHER -> << >>

\* vectors kept by vectors_within_radius / annulus: by GRID position gp (integers), 2*d^2 against odd integer bounds
Dist2x2(g, cy, cx) == 2 * ((g[1] - cy) * (g[1] - cy) + (g[2] - cx) * (g[2] - cx))
KeptIdx(gp, lo, hi, cy, cx) == SelectSeq([k \in 1 .. Len(gp) |-> k],
                                         LAMBDA k : Dist2x2(gp[k], cy, cx) > lo /\ Dist2x2(gp[k], cy, cx) < hi)

-----------------------------------------------------------------------------
(* Layer 1c: the step function shared by the bounded machine and the trace specification.                           *)
(* S maps a slot name to [live, st, cached, memo]:  a, b the operands, r the last wrapped arithmetic result, c the   *)
(* last copy, o the object `a` was bound to before an in-place form re-bound the name.  `cached` / `memo` model a    *)
(* cached view held in the instance dictionary and the content it was computed from.                                *)
(* An action record has the fields a, x, op, kind, route, bv, keep, retain, same_id, how, gran, sel, vv, view, arg.         *)

Slots == {"a", "b", "r", "c", "o"}
Dead == [live |-> FALSE, st |-> << >>, cached |-> FALSE, memo |-> << >>]
Obj(st) == [live |-> TRUE, st |-> st, cached |-> FALSE, memo |-> << >>]

Reflected(act) == act.kind \in {"rscalar", "rnd", "rrow"}
Operand(S, act, A) ==
    CASE act.kind \in {"scalar", "rscalar", "row", "rrow"} -> Broadcast(act.bv, Len(A))
      [] act.kind \in {"nd", "rnd", "obj"} -> S["b"].st
      [] act.kind = "self" -> A
      [] OTHER -> << >>
BinResult(S, env, act) ==
    LET A == S[act.x].st
        B == Operand(S, act, A)
    IN IF Reflected(act) THEN Elementwise(act.op, B, A, env.cplx) ELSE Elementwise(act.op, A, B, env.cplx)

\* the result must be an instance of the operand's class (decorator `to_new_array`: "wrapped in a new instance of the class")
MustWrap(act) == /\ act.a \in {"Binary", "Unary"}
                 /\ act.route \in {"operator", "with_new_array"}
                 /\ act.op \in ArithOps \cup {"neg", "abs"}
                 /\ act.kind \notin {"rnd", "rrow"}          \* an ndarray on the left: numpy's own operator answers

CachedViews == {"cview", "amplitudes", "phases", "is_uniform"}

\* `drop`: does __setitem__ invalidate cached views?
StepOf(S, env, act, drop) ==
    CASE act.a \in {"Binary", "Unary"} ->
           LET res == IF act.a = "Binary" THEN BinResult(S, env, act) ELSE UnaryOf(act.op, S[act.x].st, env.cplx) IN
           \* the result becomes the object r when it is an instance of the class holding an array of the operand's shape
           [S |-> IF act.retain THEN [S EXCEPT !["r"] = Obj(res)] ELSE S,
            res |-> res, writes |-> IF act.retain THEN {"r"} ELSE {}, stale |-> FALSE]
      [] act.a = "InPlace" ->
           \* `a op= b`: the name a is bound to an object holding op(a, b); either the object itself was changed
           \* (identity kept) or a new object was made and the old one is untouched (slot o)
           LET res == BinResult(S, env, act) IN
           [S |-> IF act.same_id THEN [S EXCEPT !["a"].st = res, !["a"].cached = S["a"].cached /\ ~ drop]
                  ELSE [S EXCEPT !["a"] = Obj(res), !["o"] = S["a"]],
            res |-> res, writes |-> IF act.same_id THEN {"a"} ELSE {"a", "o"}, stale |-> FALSE]
      [] act.a = "Copy" ->
           \* copy / deepcopy / method copy never carry cached views (decided by C11); a pickle round trip restores the
           \* instance dictionary as it was
           [S |-> [S EXCEPT !["c"] = [live |-> TRUE, st |-> S[act.x].st,
                                       cached |-> act.how = "pickle" /\ S[act.x].cached,
                                       memo |-> IF act.how = "pickle" THEN S[act.x].memo ELSE << >>]],
            res |-> S[act.x].st, writes |-> {"c"}, stale |-> FALSE]
      [] act.a = "Edit" ->
           LET new == SetItem(S[act.x].st, env, act.gran, act.sel, act.vv) IN
           [S |-> [S EXCEPT ![act.x].st = new, ![act.x].cached = S[act.x].cached /\ ~ drop],
            res |-> new, writes |-> {act.x}, stale |-> FALSE]
      [] act.a = "Read" ->
           LET o == S[act.x]
               isc == act.view \in CachedViews IN
           [S |-> IF isc /\ ~ o.cached THEN [S EXCEPT ![act.x].cached = TRUE, ![act.x].memo = o.st] ELSE S,
            res |-> ViewOf(act.view, o.st, env, act.arg),
            writes |-> {},
            stale |-> isc /\ o.cached /\ o.memo # o.st]
      [] OTHER -> [S |-> S, res |-> << >>, writes |-> {}, stale |-> FALSE]

-----------------------------------------------------------------------------
(* Layer 2: the bounded machine.  Init chooses a frame, a mask, the storage form and the value patterns of a and b;  *)
(* every action sequence up to MaxLen is explored.  The machine works on a real single-component class; T is the     *)
(* SLIM TWIN: the same history performed on slim-stored operands with the same entries.                             *)

VARIABLES env, S, T, hist, last
vars == << env, S, T, hist, last >>

Lin(c, W) == c[1] * W + c[2]
Cells(H, W) == (0 .. H-1) \X (0 .. W-1)

\* value of the k-th unmasked cell (1-based), whose row-major linear index is lin
Pat(p, k, lin) ==
    CASE p = "ramp" -> IntV(lin + 1)                                      \* distinct tags per cell
      [] p = "signed0" -> IntV((IF k % 2 = 0 THEN -1 ELSE 1) * (k - 1))    \* 0, -1, 2, -3, ...
      [] p = "halves" -> Norm(2 * lin + 1, 1)                              \* odd multiples of 1/2
      [] p = "pow2s" -> Norm((IF k % 2 = 0 THEN -1 ELSE 1) * 2^(k % 3), k % 2)   \* signed powers of two (exact divisors)
      [] p = "small0" -> IntV((k - 1) % 4)                                 \* 0, 1, 2, 3: exponents, zero divisors
      [] OTHER -> One

SlimContent(p, u) == [k \in 1 .. Len(u) |-> Pat(p, k, u[k])]
EnvOf(sh, u, nat) == [cls |-> "Real", comp |-> 1, cplx |-> FALSE, nat |-> nat, h |-> sh[1], w |-> sh[2], u |-> u,
                      shape0 |-> IF nat THEN sh[1] ELSE Len(u)]
StoredOf(sl, e) == IF e.nat THEN Scatter(sl, e) ELSE sl
InitSlots(sa, sb) == [s \in Slots |-> IF s = "a" THEN Obj(sa) ELSE IF s = "b" THEN Obj(sb) ELSE Dead]

Init == \E sh \in Shapes : \E us \in (SUBSET (0 .. sh[1] * sh[2] - 1)) \ {{}} : \E nat \in Stores :
        \E pp \in Pats :
          LET u == SetToSortSeq(us, <)
              pa == pp[1]
              pb == pp[2]
              e == EnvOf(sh, u, nat)
              es == EnvOf(sh, u, FALSE)
          IN /\ env = e
             /\ S = InitSlots(StoredOf(SlimContent(pa, u), e), StoredOf(SlimContent(pb, u), e))
             /\ T = InitSlots(SlimContent(pa, u), SlimContent(pb, u))
             /\ hist = << [a |-> "Start", pa |-> pa, pb |-> pb, sa |-> SlimContent(pa, u), sb |-> SlimContent(pb, u)] >>
             /\ last = [a |-> "Start"]

NoAct == [a |-> "", x |-> "a", op |-> "", kind |-> "", route |-> "operator", bv |-> << >>, keep |-> FALSE, retain |-> FALSE,
          same_id |-> FALSE, how |-> "", keykind |-> "", gran |-> "row", sel |-> << >>, vv |-> << >>, view |-> "", arg |-> << >>]

SlimEnv == [env EXCEPT !.nat = FALSE, !.shape0 = Len(env.u)]
\* the action performed on the slim twin: keys of __setitem__ are translated cell by cell
TwinAct(act) ==
    IF act.a = "Edit" /\ env.nat
    THEN LET st == S[act.x].st
             G == IF act.gran = "row" THEN Stride(st, env) ELSE 1
             s == { act.sel[k] : k \in DOMAIN act.sel }
             hit == SelectSeq([k \in 1 .. Len(env.u) |-> k], LAMBDA k : (env.u[k] \div G) \in s)
         IN [act EXCEPT !.gran = "elem", !.sel = [k \in 1 .. Len(hit) |-> hit[k] - 1]]
    ELSE act

Do(act) ==
    /\ LET P == StepOf(S, env, act, SetItemDropsCaches)
           Q == StepOf(T, SlimEnv, TwinAct(act), SetItemDropsCaches)
           \* a copy that aliases the original's entries: an edit of either writes both
           al == IF CopySharesArray /\ act.a = "Edit" /\ act.x \in {"a", "c"} /\ S["c"].live /\ S["a"].live
                 THEN {"a", "c"} ELSE {}
           S1 == [s \in Slots |-> IF s \in al /\ s # act.x THEN [P.S[s] EXCEPT !.st = P.S[act.x].st] ELSE P.S[s]]
           \* what a Read reports: the cached value if one is held
           rep == IF act.a = "Read" /\ act.view \in CachedViews /\ S[act.x].cached
                  THEN ViewOf(act.view, S[act.x].memo, env, act.arg) ELSE P.res
       IN /\ S' = S1
          /\ T' = IF act.a = "Read" THEN T ELSE Q.S
          /\ last' = [a |-> act.a, x |-> act.x, res |-> rep, writes |-> P.writes \cup al, view |-> act.view, op |-> act.op,
                      changed |-> { s \in Slots : S1[s].st # S[s].st \/ S1[s].live # S[s].live }]
          /\ hist' = Append(hist, act)
          /\ (Len(hist) = MaxLen /\ << env.h, env.w >> \in DumpShapes) =>
               PrintT(ToJson([k |-> "inst", h |-> env.h, w |-> env.w, u |-> env.u, nat |-> env.nat, hist |-> hist']))
    /\ UNCHANGED env

Live(x) == S[x].live
SameShape(x) == Live(x) /\ Len(S[x].st) = Len(S["a"].st)
KeepOf(op, route, kind) == MustWrap([a |-> "Binary", op |-> op, route |-> route, kind |-> kind])
BvOf(kind, sc) == IF kind \in {"scalar", "rscalar"} THEN << sc >> ELSE << >>

Binary == \E x \in {"a", "r", "c"} :
            /\ SameShape(x)
            /\ \E op \in OpsBin : \E kind \in Kinds : \E route \in Routes :
                 /\ (route = "operator" \/ (kind \in {"scalar", "obj"} /\ op \in {"add", "mul", "div"}))
                 /\ \E sc \in (IF kind \in {"scalar", "rscalar"} THEN Scalars ELSE {Zero}) :   \* the scalar only matters for scalar kinds
                      Do([NoAct EXCEPT !.a = "Binary", !.x = x, !.op = op, !.kind = kind, !.route = route,
                                       !.bv = BvOf(kind, sc), !.keep = KeepOf(op, route, kind),
                                       !.retain = KeepOf(op, route, kind)])
Unary == \E x \in {"a", "r", "c"} :
            /\ SameShape(x)
            /\ \E op \in OpsUn :
                 Do([NoAct EXCEPT !.a = "Unary", !.x = x, !.op = op, !.kind = "",
                                  !.route = IF op \in {"neg", "abs"} THEN "operator" ELSE "ufunc",
                                  !.keep = op \in {"neg", "abs"}, !.retain = op \in {"neg", "abs"}])
InPlace == \E op \in OpsIn : \E kind \in KindsIn : \E sc \in (IF kind = "scalar" THEN Scalars ELSE {Zero}) :
            Do([NoAct EXCEPT !.a = "InPlace", !.x = "a", !.op = op, !.kind = kind, !.bv = BvOf(kind, sc)])
Copy == \E how \in Hows : Do([NoAct EXCEPT !.a = "Copy", !.x = "a", !.how = how])
\* keys of __setitem__: one index, a slice, a boolean array of the stored shape, a boolean array over the first axis,
\* an integer array over the first axis
KeySel(key, st) ==
    LET n0 == env.shape0 IN
    CASE key = "int" -> << n0 - 1 >>
      [] key = "slice" -> [k \in 1 .. (IF n0 > 1 THEN 2 ELSE 1) |-> k - 1]
      [] key = "boolfull" -> SelectSeq([k \in 1 .. Len(st) |-> k - 1], LAMBDA k : k % 2 = 0)
      [] key = "boolrow" -> SelectSeq([k \in 1 .. n0 |-> k - 1], LAMBDA k : k % 2 = 0)
      [] key = "intarr" -> << n0 - 1, 0 >>
      [] OTHER -> << >>
Edit == \E x \in EditSlots :
            /\ Live(x)
            /\ \E key \in Keys : \E sc \in Scalars :
                 Do([NoAct EXCEPT !.a = "Edit", !.x = x, !.keykind = key, !.gran = IF key = "boolfull" THEN "elem" ELSE "row",
                                  !.sel = KeySel(key, S[x].st), !.vv = << sc >>])
Read == \E x \in ReadSlots :
            /\ Live(x)
            /\ \E view \in Views :
                 /\ (view \in {"slim", "native", "cview", "sum", "max"} \/ x \in {"a", "c"})
                 /\ Do([NoAct EXCEPT !.a = "Read", !.x = x, !.view = view,
                                     !.arg = IF view \in {"index", "tail"} THEN << IF env.shape0 > 1 THEN 1 ELSE 0 >>
                                             ELSE IF view = "apply_mask" THEN Tail(env.u) ELSE << >>])

Next == Len(hist) <= MaxLen /\ (Binary \/ Unary \/ InPlace \/ Copy \/ Edit \/ Read)
Spec == Init /\ [][Next]_vars

-----------------------------------------------------------------------------
(* Layer 3: properties of the design, checked by TLC on every reachable state *)

\* arithmetic commutes with slim / native on the unmasked entries, whatever happens in the masked cells of
\* native-stored operands (0 op 0, 0/0 undefined there): nothing leaks, after any history
SlimNativeCommute ==
    \A s \in Slots : /\ S[s].live = T[s].live
                     /\ (S[s].live /\ Len(S[s].st) = StoredLen(env)) => MatchSeq(T[s].st, SlimOf(S[s].st, env))
\* masked cells of a native view are zero or undefined, never a defined non-zero value
NativeViewZeroOutsideMask ==
    \A s \in Slots : (S[s].live /\ Len(S[s].st) = StoredLen(env)) =>
        LET nv == NativeOf(S[s].st, env) IN
        \A p \in 1 .. Len(nv) : ((p-1) \in USet(env)) \/ nv[p] = Zero \/ IsAny(nv[p])
\* the result of an operator has the shape of its operand and is defined wherever no division by zero / inexact step occurred
ResultIsElementwise ==
    (last.a \in {"Binary", "Unary"} /\ last.op \notin CmpOps) => Len(last.res) = Len(S["a"].st)
\* no action changes an object it does not name as its target
OperandsUnchanged == last.a # "Start" => last.changed \subseteq last.writes
\* editing a copy leaves the original unchanged and vice versa
CopyIndependent == last.a = "Edit" => last.changed \subseteq {last.x}
\* a read reports a value computed from the object's own current entries
ReadsReportOwnContent ==
    last.a = "Read" => MatchSeq(ViewOf(last.view, S[last.x].st, env, hist[Len(hist)].arg), last.res)
\* slim is a left inverse of native on every object
SlimOfNative ==
    \A s \in Slots : (S[s].live /\ Len(S[s].st) = StoredLen(env)) =>
        LET nv == NativeOf(S[s].st, env) IN
        MatchSeq(SlimOf(S[s].st, env), GatherU(nv, env.u, 1))
=============================================================================
