--------------------------- MODULE Layout_Apalache ---------------------------
(***************************************************************************)
(* C19, unbounded part: for ALL natural interval quadruples with           *)
(* x0o < x1o (a valid region) and x0e < x1e (a valid window) the           *)
(* code-shaped case analysis of x0x1_after_extraction equals the           *)
(* definition [max(x0o,x0e) - x0e, min(x1o,x1e) - x0e) / absent.           *)
(* Checked by Apalache (SMT, no bound on the integers):                    *)
(*   apalache-mc check --length=0 --init=Init --inv=Inv Layout_Apalache.tla*)
(* The operators between the BEGIN/END markers are repeated verbatim from  *)
(* Layout.tla (the driver compares the two blocks textually), where TLC    *)
(* checks the same identity exhaustively on 0 .. IvMax and the exhaustive  *)
(* replay binds the code-shaped formulation to the real function.          *)
(***************************************************************************)
EXTENDS Integers

VARIABLES
  \* @type: Int;
  qx0o,
  \* @type: Int;
  qx1o,
  \* @type: Int;
  qx0e,
  \* @type: Int;
  qx1e

\* BEGIN shared-interval-operators (repeated verbatim in Layout_Apalache.tla, where the identity is proved for all naturals)
Max2(a, b) == IF a > b THEN a ELSE b
Min2(a, b) == IF a < b THEN a ELSE b
\* code-shaped formulation: the case analysis of x0x1_after_extraction (x1 may stay unbound)
CodeX0(x0o, x1o, x0e, x1e) == IF x0e >= x0o /\ x0e <= x1o THEN 0
                              ELSE IF x0e <= x0o THEN x0o - x0e
                              ELSE 0
CodeHasX1(x0o, x1o, x0e, x1e) == (x1e >= x0o /\ x1e <= x1o) \/ x1e > x1o
CodeX1(x0o, x1o, x0e, x1e) == IF x1e >= x0o /\ x1e <= x1o THEN x1e - x0e ELSE x1o - x0e
\* END shared-interval-operators

\* definition (Overlap1 of Layout.tla in scalar form)
DefLo == Max2(qx0o, qx0e) - qx0e
DefHi == Min2(qx1o, qx1e) - qx0e
DefAbsent == ~ (Max2(qx0o, qx0e) < Min2(qx1o, qx1e))

\* code (CodeOverlap1 of Layout.tla in scalar form)
C0 == CodeX0(qx0o, qx1o, qx0e, qx1e)
C1 == CodeX1(qx0o, qx1o, qx0e, qx1e)
CodeAbsent == ~ CodeHasX1(qx0o, qx1o, qx0e, qx1e) \/ C0 < 0 \/ C1 < 0 \/ C0 = C1

Init == /\ qx0o \in Nat /\ qx1o \in Nat /\ qx0e \in Nat /\ qx1e \in Nat
        /\ qx1o > qx0o /\ qx1e > qx0e
Next == qx0o' = qx0o /\ qx1o' = qx1o /\ qx0e' = qx0e /\ qx1e' = qx1e

Inv == /\ CodeAbsent <=> DefAbsent
       /\ ~ DefAbsent => (C0 = DefLo /\ C1 = DefHi)
=============================================================================
