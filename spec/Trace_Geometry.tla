--------------------------- MODULE Trace_Geometry ---------------------------
(***************************************************************************)
(* Validation of recorded executions of the real code against Geometry.tla *)
(* (C02).  One record per geometry / constructor call, all coordinates     *)
(* abstracted to integer half-ticks by the driver (alpha rejects values    *)
(* that are not on the lattice: they are counted in r.off and replaced by  *)
(* a sentinel).  Verdicts are total: every record is judged, a rejected    *)
(* record is printed with the names of the failing clauses, the signature  *)
(* of the failing input class and the value the specification wanted.      *)
(***************************************************************************)
EXTENDS Geometry, IOUtils

Trace == JsonDeserialize(IOEnv.TRACE_FILE)

VARIABLE i

Cl(n, b) == [n |-> n, ok |-> b]

IsPairs(s, n) == Len(s) = n /\ \A k \in DOMAIN s : Len(s[k]) = 2
GeoOf(r) == Geo(r.g.h, r.g.w, r.g.sy, r.g.sx, r.g.oy, r.g.ox)

\* ---- 2D geometry -------------------------------------------------------
\* r.qs     query coordinates (odd half-ticks inside the extent; the driver may have jittered the floats it passed
\*          by less than half a unit, the answer is constant on the open cell)
\* r.px     geometry.pixel_coordinates_2d_from(q)                 per query
\* r.cen    geometry.grid_pixel_centres_2d_from(grid of q)        per query
\* r.idx    geometry.grid_pixel_indexes_2d_from(grid of q)        per query
\* r.cells  pixels (i,j);  r.ctr = geometry.scaled_coordinates_2d_from((i,j));
\* r.cidx   = pixel_coordinates_2d_from(that centre);  r.cback = scaled_coordinates_2d_from(r.cidx)
\* r.u      unmasked pixels (ascending flattened indices) of the mask given to Grid2D.from_mask -> r.grid_mask;
\*          r.grid_uniform = Grid2D.uniform(shape, scales, origin);  r.grid_all_false = mask.derive_grid.all_false
\* r.cont_back  = grid_scaled_2d_from(grid_pixels_2d_from(q));  r.p4 continuous pixel coordinates times 4,
\*          r.p4_back = 4 * grid_pixels_2d_from(grid_scaled_2d_from(p))
ClausesG2(r) ==
    LET gg == GeoOf(r)
        nq == Len(r.qs)
        nc == Len(r.cells)
        all == [k \in 1 .. gg.h * gg.w |-> Centre(gg, RowMajor(gg)[k])]
    IN IF ~ ( /\ WellFormed(gg)
              /\ IsPairs(r.qs, nq) /\ \A k \in 1 .. nq : InExtent(gg, r.qs[k]) /\ r.qs[k][1] % 2 = 1 /\ r.qs[k][2] % 2 = 1
              /\ IsPairs(r.cells, nc) /\ \A k \in 1 .. nc : << r.cells[k][1], r.cells[k][2] >> \in Cells(gg)
              /\ \A k \in DOMAIN r.u : r.u[k] >= 0 /\ r.u[k] < gg.h * gg.w )
       THEN << Cl("malformed-input-record", FALSE) >>
       ELSE
       << Cl("no-exception", Len(r.raised) = 0),
          Cl("offlattice", r.off = 0),
          Cl("extent-is-union-of-squares", r.extent = Extent(gg)),
          Cl("index-cell-contains-point",
             /\ IsPairs(r.px, nq)
             /\ \A k \in 1 .. nq : << r.px[k][1], r.px[k][2] >> \in Cells(gg) /\ InSquare(gg, r.px[k], r.qs[k])),
          Cl("grid-index-cell-contains-point",
             /\ IsPairs(r.cen, nq)
             /\ \A k \in 1 .. nq : << r.cen[k][1], r.cen[k][2] >> \in Cells(gg) /\ InSquare(gg, r.cen[k], r.qs[k])),
          Cl("flat-index-is-i-times-w-plus-j",
             /\ Len(r.idx) = nq
             /\ \A k \in 1 .. nq : r.idx[k] = Flat(gg, IndexOf(gg, r.qs[k]))),
          Cl("centre-formula",
             /\ IsPairs(r.ctr, nc)
             /\ \A k \in 1 .. nc : << r.ctr[k][1], r.ctr[k][2] >> = Centre(gg, r.cells[k])),
          Cl("centre-then-index-is-identity",
             /\ IsPairs(r.cidx, nc)
             /\ \A k \in 1 .. nc : r.cidx[k][1] = r.cells[k][1] /\ r.cidx[k][2] = r.cells[k][2]),
          Cl("centre-index-centre-is-identity", r.cback = r.ctr),
          \* the pixel index handed over as a Python list / a numpy integer array
          Cl("centre-formula-integer-inputs",
             /\ IsPairs(r.ctr_list, nc) /\ IsPairs(r.ctr_npint, nc)
             /\ \A k \in 1 .. nc : /\ << r.ctr_list[k][1], r.ctr_list[k][2] >> = Centre(gg, r.cells[k])
                                   /\ << r.ctr_npint[k][1], r.ctr_npint[k][2] >> = Centre(gg, r.cells[k])),
          \* r.ip = grid_pixel_centres_2d_from(grid of the centres of r.cells), integer dtype as returned;
          \* r.ip_scaled_int = grid_scaled_2d_from(r.ip as returned), r.ip_back = grid_pixels_2d_from(of that);
          \* r.ip_scaled_float / r.ip_scaled_newint = grid_scaled_2d_from of the same whole numbers as floats / as a
          \* freshly built integer grid
          Cl("grid-centre-then-index-is-identity",
             /\ IsPairs(r.ip, nc)
             /\ \A k \in 1 .. nc : r.ip[k][1] = r.cells[k][1] /\ r.ip[k][2] = r.cells[k][2]),
          Cl("integer-pixels-scaled-pixels-is-identity", r.ip_back = r.ip),
          Cl("integer-and-float-pixel-coordinates-agree",
             /\ IsPairs(r.ip_scaled_int, nc)
             /\ r.ip_scaled_int = r.ip_scaled_float /\ r.ip_scaled_newint = r.ip_scaled_float),
          Cl("grid-from-mask-centres",
             /\ IsPairs(r.grid_mask, Len(r.u))
             /\ \A k \in DOMAIN r.u : << r.grid_mask[k][1], r.grid_mask[k][2] >> = Centre(gg, CellOfFlat(gg, r.u[k]))),
          Cl("grid-uniform-centres", r.grid_uniform = all),
          Cl("grid-all-false-centres", r.grid_all_false = all),
          Cl("scaled-pixels-scaled-is-identity", r.cont_back = r.qs),
          Cl("pixels-scaled-pixels-is-identity", r.p4_back = r.p4) >>

WantG2(r) ==
    LET gg == GeoOf(r) IN
    IF ~ WellFormed(gg) THEN << >>
    ELSE [ extent |-> Extent(gg),
           cells |-> [k \in DOMAIN r.qs |-> IF Len(r.qs[k]) = 2 THEN IndexOf(gg, r.qs[k]) ELSE << >>],
           centre00 |-> Centre(gg, <<0, 0>>) ]

\* ---- 1D ----------------------------------------------------------------
ClausesG1(r) ==
    IF ~ (r.w >= 1 /\ r.s > 0 /\ r.s % 4 = 0 /\ r.o % 2 = 0 /\ \A k \in DOMAIN r.u : r.u[k] >= 0 /\ r.u[k] < r.w)
    THEN << Cl("malformed-input-record", FALSE) >>
    ELSE << Cl("no-exception", Len(r.raised) = 0),
            Cl("offlattice", r.off = 0),
            Cl("extent-1d", r.extent = Extent1(r.w, r.s, r.o)),
            Cl("grid-1d-centres", r.grid = [k \in DOMAIN r.u |-> Centre1(r.w, r.s, r.o, r.u[k])]) >>
WantG1(r) == [ extent |-> Extent1(r.w, r.s, r.o), centre0 |-> Centre1(r.w, r.s, r.o, 0) ]

\* ---- shape-based constructors -----------------------------------------
\* r.par = [kind, cy, cx, r, e1, e2];  r.out = ascending flattened indices of the unmasked pixels of the returned mask
\* (<< -2 >> if the returned mask does not have the requested shape).  The origin handed to the constructor (r.g.oy,
\* r.g.ox) does not enter: pixel centres are measured relative to the mask origin.
ClausesShape(r) ==
    LET gg == GeoOf(r) IN
    IF ~ (WellFormed(gg) /\ ParOk(r.par))
    THEN << Cl("malformed-input-record", FALSE) >>
    ELSE << Cl("no-exception", Len(r.raised) = 0),
            Cl("shape-mask-is-radial-set",
               /\ \A k \in 1 .. Len(r.out) - 1 : r.out[k] < r.out[k+1]
               /\ ToSet(r.out) = SetLin(ShapeSet(gg, r.par), gg)) >>
WantShape(r) ==
    LET gg == GeoOf(r) IN
    IF WellFormed(gg) /\ ParOk(r.par) THEN SetToSortSeq(SetLin(ShapeSet(gg, r.par), gg), <) ELSE << >>

\* ---- dispatch ----------------------------------------------------------
Clauses(r) == CASE r.api = "g2" -> ClausesG2(r)
                [] r.api = "g1" -> ClausesG1(r)
                [] r.api = "shape" -> ClausesShape(r)
                \* a public constructor raised while the instance was being built from well-formed inputs
                [] r.api = "crash" -> << Cl("no-exception", FALSE) >>
                [] OTHER -> << Cl("unknown-api", FALSE) >>
Want(r) == CASE r.api = "g2" -> WantG2(r)
             [] r.api = "g1" -> WantG1(r)
             [] r.api = "shape" -> WantShape(r)
             [] OTHER -> << >>

\* signature of the failing input class: call family + aspect / anisotropy class of the frame
Aspect(h, w, sy, sx) == (IF h = w THEN "square" ELSE "nonsquare") \o (IF sy = sx THEN "-iso" ELSE "-aniso")
Sig(r) == CASE r.api = "g2" -> "geometry2d:" \o Aspect(r.g.h, r.g.w, r.g.sy, r.g.sx)
            [] r.api = "g1" -> "geometry1d"
            [] r.api = "crash" -> "crash:" \o r.call
            [] r.api = "shape" -> "mask:" \o r.par.kind \o ":" \o Aspect(r.g.h, r.g.w, r.g.sy, r.g.sx)
            [] OTHER -> r.api

Failed(r) == SelectSeq(Clauses(r), LAMBDA c : ~ c.ok)

TraceInit == /\ i = 1
             /\ mode = "trace" /\ g = Geo(1, 1, 4, 4, 0, 0) /\ par = << >> /\ phase = "trace" /\ obs = << >>

TraceNext ==
    /\ i <= Len(Trace)
    /\ LET r == Trace[i]
           f == Failed(r)
       IN IF f = << >> THEN TRUE
          ELSE PrintT(ToJson([k |-> "reject", i |-> i, id |-> r.id,
                              clauses |-> [j \in DOMAIN f |-> f[j].n],
                              sig |-> Sig(r), want |-> Want(r)]))
    /\ i' = i + 1
    /\ UNCHANGED vars

TraceSpec == TraceInit /\ [][TraceNext]_<< vars, i >>
TraceAccepted == TLCGet("stats").diameter - 1 = Len(Trace)
=============================================================================
