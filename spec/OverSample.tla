----------------------------- MODULE OverSample -----------------------------
(***************************************************************************)
(* Over-sampling of PyAutoArray (C09).                                     *)
(*                                                                         *)
(* Part A (single step): the sub-pixel partition of the unmasked pixels,   *)
(* the index table, the sub-pixel areas, binning, and the dispatch of the  *)
(* over-sampling decorator.                                                *)
(* Part B (multi step): the iterative scheme as a per-pixel machine over   *)
(* the binned values that the scheme can observe.                          *)
(*                                                                         *)
(* Coordinates live on a tick lattice: a frame H x W with pixel scales     *)
(* (sy, sx) and origin (oy, ox), all integers (ticks).  For a sub-size map *)
(* `sub` the scales are multiples of 4*lcm(sub), so every pixel edge, pixel*)
(* centre and sub-pixel centre is an integer.  y grows upwards (row 0 is   *)
(* the top row), x grows to the right.                                     *)
(*                                                                         *)
(* Layer 1 takes the geometry G = [h,w,sy,sx,oy,ox] as a parameter, so the *)
(* trace specification reuses it on records that carry their own geometry. *)
(***************************************************************************)
EXTENDS Integers, Sequences, FiniteSets, TLC, Json, SequencesExt, FiniteSetsExt

CONSTANTS
    Families,   \* A: set of <<H, W, S, sel, GS>>: frame H x W, every mask of it, sub-size maps over the set S selected by
                \*    sel: "all" = every per-pixel map, "uniform" = one size for all pixels, "ambiguous" = every
                \*    non-uniform per-pixel map whose number of sub-pixels equals that of a uniform map (TotalLooksUniform);
                \*    geometries GS \subseteq Geoms
    Geoms,      \* A: set of <<my, mx, oy, ox>>: scales are 4*lcm(sub)*my, 4*lcm(sub)*mx ticks, origin (oy, ox) ticks
    Coefs,      \* A: integer range of the coefficients of the affine functions in the theorems
    MaxPix,     \* B: pixels 1..MaxPix
    Schedules,  \* B: set of schedules (sequences of pairwise distinct sub sizes >= 2)
    Values,     \* B: the binned values a user function may produce (small integers incl. 0 and negatives)
    FAs,        \* B: fractional accuracies <<num, den>>
    RAs         \* B: absolute-difference tolerances, NoTol = not set

NoTol == -1
Unset == -99

-----------------------------------------------------------------------------
(* Layer 1: meaning *)

Abs(x) == IF x < 0 THEN -x ELSE x
Sq(n) == n * n
Smaller(a, b) == IF a <= b THEN a ELSE b
Larger(a, b) == IF a <= b THEN b ELSE a
SumSeq(s) == FoldLeft(LAMBDA a, b : a + b, 0, s)
RECURSIVE Gcd(_, _)
Gcd(a, b) == IF b = 0 THEN a ELSE Gcd(b, a % b)
Lcm(a, b) == (a * b) \div Gcd(a, b)
LcmSeq(s) == FoldLeft(Lcm, 1, s)
Rat(n, d) == LET g == Gcd(Abs(n), d) IN << n \div g, d \div g >>      \* reduced rational n/d, d > 0

Cells(H, W) == (0 .. H-1) \X (0 .. W-1)
CellOf(k, W) == << k \div W, k % W >>
RowMajor(H, W) == [k \in 1 .. H*W |-> CellOf(k-1, W)]
\* slim order: the unmasked cells, top row first, left to right
SlimSeq(U, H, W) == SelectSeq(RowMajor(H, W), LAMBDA c : c \in U)

\* the lattice precondition under which everything below is an integer
OnLattice(G, sub) ==
    LET L == LcmSeq(sub) IN G.sy > 0 /\ G.sx > 0 /\ G.sy % (4 * L) = 0 /\ G.sx % (4 * L) = 0

\* pixel centres: the frame is centred on the origin
CentreY(i, G) == G.oy + (G.h - 1 - 2 * i) * (G.sy \div 2)
CentreX(j, G) == G.ox + (2 * j - (G.w - 1)) * (G.sx \div 2)
Centre(c, G) == << CentreY(c[1], G), CentreX(c[2], G) >>
Centres(U, G) == LET ss == SlimSeq(U, G.h, G.w) IN [k \in 1 .. Len(ss) |-> Centre(ss[k], G)]

\* Pixel c is cut into n x n equal rectangles of height sy/n and width sx/n.  The rectangle in partition row a
\* (0 = top) and partition column b (0 = left) has its centre half a rectangle below the upper / right of the left edge.
SubCentre(c, n, a, b, G) ==
    << CentreY(c[1], G) + (G.sy \div 2) - (2 * a + 1) * (G.sy \div (2 * n)),
       CentreX(c[2], G) - (G.sx \div 2) + (2 * b + 1) * (G.sx \div (2 * n)) >>
\* ... listed top-to-bottom, and left-to-right inside a partition row
SubCentres(c, n, G) == [m \in 1 .. n * n |-> SubCentre(c, n, (m-1) \div n, (m-1) % n, G)]

\* the over-sampled grid: pixel after pixel in slim order, sub[k] is the sub size of slim pixel k
SubGrid(U, sub, G) ==
    LET ss == SlimSeq(U, G.h, G.w)
    IN FlattenSeq([k \in 1 .. Len(ss) |-> SubCentres(ss[k], sub[k], G)])
\* (0-based) slim index of the pixel that owns each sub-pixel
SlimForSubSlim(sub) == FlattenSeq([k \in 1 .. Len(sub) |-> [m \in 1 .. Sq(sub[k]) |-> k - 1]])
\* area of each sub-pixel
Areas(sub, G) ==
    FlattenSeq([k \in 1 .. Len(sub) |-> [m \in 1 .. Sq(sub[k]) |-> (G.sy \div sub[k]) * (G.sx \div sub[k])]])
Total(sub) == SumSeq([k \in 1 .. Len(sub) |-> Sq(sub[k])])

\* Binning: the value of pixel k is the arithmetic mean of ITS OWN sub-values, i.e. of the block of Sq(sub[k]) entries
\* that starts after the blocks of the pixels before it.  BinNum is the numerator over the denominator Sq(sub[k]).
Off(sub, k) == SumSeq([j \in 1 .. k-1 |-> Sq(sub[j])])
BinNum(vals, sub) ==
    [k \in 1 .. Len(sub) |-> LET o == Off(sub, k) IN SumSeq([m \in 1 .. Sq(sub[k]) |-> vals[o + m]])]
Bin(vals, sub) == LET bn == BinNum(vals, sub) IN [k \in 1 .. Len(sub) |-> Rat(bn[k], Sq(sub[k]))]

\* User functions of the lattice point (the family the harness draws from; fn = [kind, c]).
F(fn, y, x) ==
    LET c == fn.c IN
    CASE fn.kind = "affine" -> c[1] * y + c[2] * x + c[3]
      [] fn.kind = "quad"   -> c[1] * y * y + c[2] * y * x + c[3] * x + c[4]
      [] fn.kind = "abs"    -> Abs(c[1] * y + c[2] * x + c[3]) - c[4]                  \* zeros and sign changes
      [] fn.kind = "step"   -> IF c[1] * y + c[2] * x + c[3] > 0 THEN c[4] ELSE c[5]   \* discontinuous
      [] fn.kind = "mod"    -> ((c[1] * y + c[2] * x + c[3]) % c[4]) - c[5]            \* oscillating, c[4] > 0
      \* integer- and boolean-typed profiles: the mean of k ones among n*n sub-values is k/(n*n)
      [] fn.kind = "ind"    -> IF c[1] * y + c[2] * x + c[3] > 0 THEN 1 ELSE 0          \* indicator of a half plane
      [] fn.kind = "disc"   -> IF c[1] * Sq(y - c[3]) + c[2] * Sq(x - c[4]) < c[5] THEN 1 ELSE 0   \* top-hat
      [] fn.kind = "floor"  -> (c[1] * y + c[2] * x + c[3]) \div c[4]                   \* staircase, c[4] > 0
Over(fn, pts) == [t \in 1 .. Len(pts) |-> F(fn, pts[t][1], pts[t][2])]

\* The decorator: plain evaluation at the pixel centres when every sub size is one, else the binned evaluation on the
\* over-sampled grid.  Returned as numerators over Sq(sub[k]).
AllOne(sub) == \A k \in 1 .. Len(sub) : sub[k] = 1
DecoratedNum(fn, U, sub, G) ==
    IF AllOne(sub) THEN Over(fn, Centres(U, G))
    ELSE BinNum(Over(fn, SubGrid(U, sub, G)), sub)
\* the binned evaluation of fn with one sub size n for all pixels (a level of the iterative scheme)
LevelNum(fn, U, n, G) ==
    LET N == Cardinality(U) IN BinNum(Over(fn, SubGrid(U, [k \in 1 .. N |-> n], G)), [k \in 1 .. N |-> n])

\* ---- the same tables, built the way the implementation builds them: one pass over all cells in row-major order
\* ---- with a running slim index, coordinates from the "centre of the frame in pixel units" formula
CodeSubCentre(c, n, a, b, G) ==
    LET yS == c[1] * G.sy - (G.h - 1) * (G.sy \div 2) - G.oy      \* (row - central row) * sy, downwards positive
        xS == c[2] * G.sx - (G.w - 1) * (G.sx \div 2) + G.ox
        yh == G.sy \div (2 * n)
        xh == G.sx \div (2 * n)
    IN << -(yS - (G.sy \div 2) + a * 2 * yh + yh), xS - (G.sx \div 2) + b * 2 * xh + xh >>
LoopStep(acc, c, U, sub, G) ==
    IF c \notin U THEN acc
    ELSE LET n == sub[acc.index + 1]
         IN [index |-> acc.index + 1,
             grid  |-> acc.grid \o [m \in 1 .. n * n |-> CodeSubCentre(c, n, (m-1) \div n, (m-1) % n, G)],
             sfs   |-> acc.sfs \o [m \in 1 .. n * n |-> acc.index]]
LoopTables(U, sub, G) ==
    FoldLeft(LAMBDA acc, c : LoopStep(acc, c, U, sub, G), [index |-> 0, grid |-> << >>, sfs |-> << >>], RowMajor(G.h, G.w))

-----------------------------------------------------------------------------
(* Layer 1, Part B: the stopping rule of the iterative scheme *)

\* Agreement of the value `cur` of a level with the value `prev` of the previous level: the ratio of the smaller to the
\* larger of the two, defined only when prev > 0 (then the larger is positive), is at least fa = <<num,den>>, and the
\* absolute difference is within the tolerance ra when one is set.
Agree(prev, cur, fa, ra) ==
    /\ prev > 0
    /\ Smaller(prev, cur) * fa[2] >= fa[1] * Larger(prev, cur)
    /\ (ra # NoTol => Abs(prev - cur) <= ra)

\* vp = << value at the pixel centre (sub size 1), value at schedule entry 1, ..., value at schedule entry L >>.
\* Level k (1..L) is compared with level k-1.  `base` says whether the plain evaluation at sub size 1 counts as the
\* previous level of the first schedule entry (the documented scheme) or the first entry has no previous level.
AgreeingLevels(vp, fa, ra, base) ==
    { k \in 1 .. Len(vp) - 1 : (k > 1 \/ base) /\ Agree(vp[k], vp[k+1], fa, ra) }
StopLevel(vp, fa, ra, base) ==
    LET A == AgreeingLevels(vp, fa, ra, base) IN IF A = {} THEN Len(vp) - 1 ELSE Min(A)
ResultOf(vp, fa, ra, base) == vp[StopLevel(vp, fa, ra, base) + 1]
\* the pixels the scheme has to evaluate at level k: those without an agreeing level before k
Unresolved(V, k, fa, ra, base) == { p \in 1 .. Len(V) : StopLevel(V[p], fa, ra, base) >= k }

-----------------------------------------------------------------------------
(* Layer 2: the bounded machines *)

VARIABLES inst, phase, obs,                        \* Part A
          cfg, v, level, resolved, result, evald   \* Part B
varsA == << inst, phase, obs >>
varsB == << cfg, v, level, resolved, result, evald >>
vars == << inst, phase, obs, cfg, v, level, resolved, result, evald >>

IdleA == inst = << >> /\ phase = "idle" /\ obs = << >>
IdleB == cfg = << >> /\ v = << >> /\ level = -2 /\ resolved = {} /\ result = << >> /\ evald = << >>

\* ---- Part A: Init picks a frame, a mask, a sub-size map and a geometry; Observe computes what a user can read
\* Non-uniform maps whose total number of sub-pixels is n * s^2 for some size s: the length of the over-sampled array does
\* not tell them from a uniform map, yet every pixel must still be binned over its own block.
IsUniform(sub) == \A k \in 1 .. Len(sub) : sub[k] = sub[1]
TotalLooksUniform(sub) == ~ IsUniform(sub) /\ \E s \in 1 .. 8 : Total(sub) = Len(sub) * Sq(s)
SubMaps(n, S, sel) ==
    CASE sel = "uniform" -> { [k \in 1 .. n |-> s] : s \in S }
      [] sel = "ambiguous" -> { sm \in [1 .. n -> S] : TotalLooksUniform(sm) }
      [] OTHER -> [1 .. n -> S]

InitA ==
    /\ \E f \in Families : \E g \in f[5] \cap Geoms :
         \E u \in (SUBSET Cells(f[1], f[2])) \ {{}} :
           \E sm \in SubMaps(Cardinality(u), f[3], f[4]) :
              inst = [h |-> f[1], w |-> f[2], u |-> u, sub |-> sm,
                      sy |-> 4 * LcmSeq(sm) * g[1], sx |-> 4 * LcmSeq(sm) * g[2], oy |-> g[3], ox |-> g[4]]
    /\ phase = "inst" /\ obs = << >>
    /\ IdleB

ObserveA ==
    /\ phase = "inst"
    /\ phase' = "observed"
    /\ obs' = [grid  |-> SubGrid(inst.u, inst.sub, inst),
               sfs   |-> SlimForSubSlim(inst.sub),
               areas |-> Areas(inst.sub, inst),
               loop  |-> LoopTables(inst.u, inst.sub, inst)]
    /\ PrintT(ToJson([k |-> "inst", h |-> inst.h, w |-> inst.w,
                      u |-> LET ss == SlimSeq(inst.u, inst.h, inst.w) IN [j \in 1 .. Len(ss) |-> ss[j][1] * inst.w + ss[j][2]],
                      sub |-> inst.sub, sy |-> inst.sy, sx |-> inst.sx, oy |-> inst.oy, ox |-> inst.ox]))
    /\ UNCHANGED << inst, cfg, v, level, resolved, result, evald >>

SpecA == InitA /\ [][ObserveA]_vars

\* ---- Part B: the iterative scheme.  The user function is abstracted to the binned values the scheme sees: each
\* ---- evaluation of an unresolved pixel draws its value nondeterministically from Values.
Pix == 1 .. cfg.np
LL == Len(cfg.sched)

InitB ==
    /\ \E n \in 1 .. MaxPix, s \in Schedules, a \in FAs, t \in RAs : cfg = [np |-> n, sched |-> s, fa |-> a, ra |-> t]
    /\ v = [p \in Pix |-> << >>]
    /\ level = -1 /\ resolved = {} /\ result = [p \in Pix |-> Unset] /\ evald = << >>
    /\ IdleA

\* the plain evaluation at the pixel centres (sub size 1) of every pixel
Base ==
    /\ level = -1
    /\ \E vals \in [Pix -> Values] : v' = [p \in Pix |-> << vals[p] >>]
    /\ level' = 0
    /\ evald' = << { p \in Pix : TRUE } >>
    /\ UNCHANGED << cfg, resolved, result, inst, phase, obs >>

\* schedule entry k: exactly the unresolved pixels are evaluated; a pixel is resolved when its new value agrees with
\* its value of the previous level; at the last entry everything left takes the value of the last entry
Level(k) ==
    /\ level = k - 1
    /\ k \in 1 .. LL
    /\ Pix \ resolved # {}
    /\ LET todo == Pix \ resolved IN
       \E vals \in [todo -> Values] :
          LET agreed == { p \in todo : Agree(v[p][k], vals[p], cfg.fa, cfg.ra) }
              fin == IF k = LL THEN todo ELSE agreed
          IN /\ v' = [p \in Pix |-> IF p \in todo THEN Append(v[p], vals[p]) ELSE v[p]]
             /\ resolved' = resolved \cup fin
             /\ result' = [p \in Pix |-> IF p \in fin THEN vals[p] ELSE result[p]]
             /\ evald' = Append(evald, todo)
             /\ level' = k
    /\ UNCHANGED << cfg, inst, phase, obs >>

NextB == Base \/ \E k \in 1 .. 8 : Level(k)
SpecB == InitB /\ [][NextB]_vars

-----------------------------------------------------------------------------
(* Layer 3: properties *)

\* ---- Part A (checked on every enumerated instance)
Seen == phase = "observed"
NPix == Cardinality(inst.u)
PixSub(k) == inst.sub[k]
PixCell(k) == SlimSeq(inst.u, inst.h, inst.w)[k]
Block(k) == SubSeq(obs.grid, Off(inst.sub, k) + 1, Off(inst.sub, k) + Sq(PixSub(k)))

InstOnLattice == OnLattice(inst, inst.sub)
CountIsSumOfSquares == Seen => Len(obs.grid) = Total(inst.sub) /\ Len(obs.sfs) = Total(inst.sub) /\ Len(obs.areas) = Total(inst.sub)

\* every pixel owns a contiguous block, and the index table says so
OwnBlocks ==
    Seen => \A k \in 1 .. NPix : \A m \in 1 .. Sq(PixSub(k)) : obs.sfs[Off(inst.sub, k) + m] = k - 1

\* the block of a pixel is a tiling of the pixel by n x n equal rectangles: every sub-centre is the centre of a
\* rectangle (sy/n) x (sx/n) inside the pixel, the rectangles are pairwise disjoint, and together they have the pixel's area
Tiling ==
    Seen => \A k \in 1 .. NPix :
              LET n == PixSub(k)
                  b == Block(k)
                  c == Centre(PixCell(k), inst)
                  hy == inst.sy \div (2 * n)
                  hx == inst.sx \div (2 * n)
              IN /\ \A m \in 1 .. n * n :
                       /\ b[m][1] + hy <= c[1] + inst.sy \div 2 /\ b[m][1] - hy >= c[1] - inst.sy \div 2
                       /\ b[m][2] + hx <= c[2] + inst.sx \div 2 /\ b[m][2] - hx >= c[2] - inst.sx \div 2
                 /\ \A m1, m2 \in 1 .. n * n :
                       m1 < m2 => Abs(b[m1][1] - b[m2][1]) >= 2 * hy \/ Abs(b[m1][2] - b[m2][2]) >= 2 * hx
                 /\ n * n * (2 * hy) * (2 * hx) = inst.sy * inst.sx

\* order inside a block: top-to-bottom, and left-to-right inside a partition row
OrderInBlock ==
    Seen => \A k \in 1 .. NPix :
              LET n == PixSub(k)
                  b == Block(k)
              IN \A m \in 1 .. n * n - 1 :
                    IF m % n # 0 THEN b[m+1][1] = b[m][1] /\ b[m+1][2] > b[m][2]
                    ELSE b[m+1][1] < b[m][1] /\ b[m+1][2] = b[1][2]

\* the mean of an affine function of position over the sub-centres of a pixel is its value at the pixel centre
AffineReproduced ==
    Seen => \A a \in Coefs, b \in Coefs, c \in Coefs :
              LET fn == [kind |-> "affine", c |-> << a, b, c >>]
                  bn == BinNum(Over(fn, obs.grid), inst.sub)
                  cs == Centres(inst.u, inst)
              IN \A k \in 1 .. NPix : bn[k] = Sq(PixSub(k)) * F(fn, cs[k][1], cs[k][2])
ConstantsReproduced ==
    Seen => \A c \in Coefs :
              Bin([t \in 1 .. Len(obs.grid) |-> c], inst.sub) = [k \in 1 .. NPix |-> << c, 1 >>]
AreasSumToUnmaskedArea == Seen => SumSeq(obs.areas) = NPix * inst.sy * inst.sx

\* On a map whose total looks uniform, binning by equal blocks of Sq(sub[1]) entries is NOT the per-pixel mean: it
\* differs on position tags (every sub-value distinct), although it reproduces constants.
EqualBlocksAreNotOwnBlocks ==
    Seen /\ TotalLooksUniform(inst.sub) /\ Total(inst.sub) = NPix * Sq(inst.sub[1]) =>
        LET tags == [t \in 1 .. Total(inst.sub) |-> t]
            uni == [k \in 1 .. NPix |-> inst.sub[1]]
        IN /\ \E k \in 1 .. NPix : BinNum(tags, inst.sub)[k] * Sq(inst.sub[1]) # BinNum(tags, uni)[k] * Sq(inst.sub[k])
           /\ Bin([t \in 1 .. Total(inst.sub) |-> 3], uni) = Bin([t \in 1 .. Total(inst.sub) |-> 3], inst.sub)

\* the two ways of building the tables agree
CodeFormulationAgrees == Seen => obs.loop.grid = obs.grid /\ obs.loop.sfs = obs.sfs /\ obs.loop.index = NPix

\* the two branches of the decorator coincide where both apply (sub size one everywhere)
DispatchConsistent ==
    Seen /\ AllOne(inst.sub) =>
        /\ obs.grid = Centres(inst.u, inst)
        /\ \A fn \in { [kind |-> "abs", c |-> << 1, -1, 2, 3 >>], [kind |-> "quad", c |-> << 1, 1, -1, 2 >>] } :
              BinNum(Over(fn, obs.grid), inst.sub) = Over(fn, Centres(inst.u, inst))

\* ---- Part B
Started == level >= 0
DoneB == Started /\ resolved = Pix

TypeOKB ==
    level >= -1 =>
        /\ level \in -1 .. LL
        /\ resolved \subseteq Pix
        /\ \A p \in Pix : Len(v[p]) <= level + 1 /\ \A k \in 1 .. Len(v[p]) : v[p][k] \in Values
        /\ Len(evald) = level + 1

\* Whatever the user function would have produced at the levels that were never evaluated (pad), the machine's
\* result is the declarative one: the value at the first agreeing level, else at the last level.
Padded(vp, w) == vp \o [k \in 1 .. (LL + 1 - Len(vp)) |-> w]
ResultIsFirstAgreeingLevel ==
    Started =>
      \A p \in resolved : \A w \in Values :
         /\ result[p] = ResultOf(Padded(v[p], w), cfg.fa, cfg.ra, TRUE)
         /\ Len(v[p]) - 1 = StopLevel(Padded(v[p], w), cfg.fa, cfg.ra, TRUE)
UnresolvedHaveNoAgreeingLevel ==
    Started =>
      \A p \in Pix \ resolved :
         /\ result[p] = Unset
         /\ Len(v[p]) = level + 1
         /\ AgreeingLevels(v[p], cfg.fa, cfg.ra, TRUE) = {}
\* the pixels evaluated at level k are exactly those the declarative rule leaves unresolved before k
EvaluatedAreTheUnresolved ==
    DoneB =>
      LET V == [p \in Pix |-> Padded(v[p], 0)]
      IN /\ \A k \in 1 .. Len(evald) - 1 : evald[k + 1] = Unresolved(V, k, cfg.fa, cfg.ra, TRUE)
         /\ \A k \in Len(evald) .. LL : Unresolved(V, k, cfg.fa, cfg.ra, TRUE) = {}
\* a resolved pixel is never evaluated again and keeps its value
ResolvedNeverReevaluated ==
    [][level >= 0 => \A p \in resolved : v'[p] = v[p] /\ result'[p] = result[p] /\ p \in resolved']_vars
=============================================================================
