----------------------------- MODULE Trace_Dft -----------------------------
(***************************************************************************)
(* Validation of recorded executions of the real transformer / inversion   *)
(* code against Dft.tla (C13).  One record per call:                       *)
(*   tables  cosine / sine tables of a preloading transformer              *)
(*   vis     image -> visibilities                                         *)
(*   image   visibilities -> image (adjoint)                               *)
(*   tmm     mapping matrix -> transformed mapping matrix                  *)
(*   dvec    data vector from a given complex matrix (utility function)    *)
(*   inv     data vector and curvature matrix of an inversion object       *)
(* Common fields: id, api, via ("class" | "util" | "inversion"), pre,      *)
(* h, w, u (unmasked linear indices), org, b (baseline multipliers),       *)
(* raised, off (some returned value was not within 1e-9 of the lattice),   *)
(* shape_ok (the returned container had the documented shape).  All values *)
(* are integers: alpha has divided by the power-of-two scales chosen by    *)
(* gamma.  Verdicts are total.                                             *)
(***************************************************************************)
EXTENDS Dft, IOUtils

Trace == JsonDeserialize(IOEnv.TRACE_FILE)

VARIABLE i

Un(r) == { CellOf(r.u[k], r.w) : k \in DOMAIN r.u }
Org(r) == << r.org[1], r.org[2] >>
Cen(r) == Centres(Un(r), r.h, r.w, Org(r))
Bl(r) == [k \in DOMAIN r.b |-> << r.b[k][1], r.b[k][2] >>]

Cl(n, b) == [n |-> n, ok |-> b]

\* the call returned normally a well-formed, on-lattice value
Sound(r) == ~ r.raised /\ r.shape_ok /\ ~ r.off

Pre(r) ==
    << Cl("input-on-lattice", OnLattice(Cen(r), Bl(r))),
       Cl("no-exception", ~ r.raised),
       Cl("documented-shape", r.raised \/ r.shape_ok),
       Cl("values-on-lattice", r.raised \/ ~ r.off) >>

PosPart(M) == [p \in DOMAIN M |-> [j \in DOMAIN M[p] |-> IF M[p][j] > 0 THEN M[p][j] ELSE 0]]

Expected(r) ==
    LET c == Cen(r)
        b == Bl(r)
    IN CASE r.api = "tables" -> [re |-> PreRe(c, b), im |-> PreIm(c, b)]
         [] r.api = "vis" -> [out |-> Vis(r.img, c, b)]
         [] r.api = "image" -> [out |-> Adjoint(r.v, c, b),
                                native |-> AdjointNative(r.v, Un(r), r.h, r.w, Org(r), b)]
         [] r.api = "tmm" -> [out |-> TransformMatrix(r.m, c, b)]
         [] r.api = "dvec" -> [out |-> DataVector(r.t, r.v, Weights(r.se, r.emax))]
         [] r.api = "inv" -> LET t == TransformMatrix(r.m, c, b)
                                 wt == Weights(r.se, r.emax)
                             IN [d |-> DataVector(t, r.v, wt), f |-> Curvature(t, wt)]
         [] OTHER -> << >>

Clauses(r) ==
    LET e == Expected(r) IN
    Pre(r) \o
    (CASE r.api = "tables" ->
            << Cl("cosine-table-is-real-part-of-phase", Sound(r) => r.re = e.re),
               Cl("sine-table-is-imaginary-part-of-phase", Sound(r) => r.im = e.im) >>
       [] r.api = "vis" ->
            << Cl("visibilities-are-the-direct-sum", Sound(r) => r.out = e.out) >>
       [] r.api = "image" ->
            << Cl("image-is-real-part-of-conjugate-transpose", Sound(r) => r.out = e.out),
               Cl("image-native-zero-where-masked", (Sound(r) /\ r.via = "class") => r.native = e.native) >>
       [] r.api = "tmm" ->
            << Cl("transformed-matrix-is-operator-on-each-column", Sound(r) => r.out = e.out) >>
       [] r.api = "dvec" ->
            << Cl("data-vector-is-weighted-re-plus-im-product", Sound(r) => r.out = e.out) >>
       [] r.api = "inv" ->
            << Cl("data-vector-is-weighted-re-plus-im-product", Sound(r) => r.d = e.d),
               Cl("curvature-is-weighted-re-plus-im-gram", Sound(r) => r.f = e.f) >>
       [] OTHER -> << Cl("unknown-api", FALSE) >>)

Want(r) == Expected(r)

\* signature of the failing input class / call site, computed from the record (matches known findings)
Site(r) == r.api \o ":" \o r.via \o (IF r.pre THEN ":preload" ELSE ":direct")
Sig(r) ==
    LET c == Cen(r)
        b == Bl(r)
    IN CASE r.api = "tmm" /\ Sound(r) /\ HasNegative(r.m)
              /\ r.out = TransformMatrix(PosPart(r.m), c, b)
              -> "NegativeMappingEntriesDropped:transform_mapping_matrix"
         [] r.api = "inv" /\ Sound(r) /\ HasNegative(r.m)
              /\ LET t == TransformMatrix(PosPart(r.m), c, b)
                     wt == Weights(r.se, r.emax)
                 IN r.d = DataVector(t, r.v, wt) /\ r.f = Curvature(t, wt)
              -> "NegativeMappingEntriesDropped:inversion"
         [] r.api = "vis" /\ r.raised /\ r.stored = "native" /\ r.pre
              -> "NativeStoredImageRaises:" \o r.via \o ":preload"
         [] OTHER -> Site(r)

Failed(r) == SelectSeq(Clauses(r), LAMBDA c : ~ c.ok)

TraceInit == /\ i = 1
             /\ shape = << 1, 1 >> /\ U = {} /\ org = << 0, 0 >> /\ B = << >>
             /\ phase = "trace" /\ inp = << >> /\ obs = << >>

TraceNext ==
    /\ i <= Len(Trace)
    /\ LET r == Trace[i]
           f == Failed(r)
       IN IF f = << >> THEN TRUE
          ELSE PrintT(ToJson([k |-> "reject", i |-> i, id |-> r.id,
                              clauses |-> [j \in DOMAIN f |-> f[j].n],
                              sig |-> Sig(r), want |-> Want(r)]))
    /\ i' = i + 1
    /\ UNCHANGED vars

TraceSpec == TraceInit /\ [][TraceNext]_<< vars, i >>
TraceAccepted == TLCGet("stats").diameter - 1 = Len(Trace)
=============================================================================
