------------------------------- MODULE Mapper -------------------------------
(***************************************************************************)
(* C06: mapping matrices conserve flux and encode the claimed              *)
(* interpolation; the sparse "unique mappings" encode the same matrix;     *)
(* neighbour lists are the mesh adjacency.                                 *)
(*                                                                         *)
(* Exact domain.  Source-plane positions and mesh vertices are integer     *)
(* points <<y, x>> of a tick lattice (the lattice image of "any smooth     *)
(* distortion plus jitter").  An image pixel i owns sub[i]^2 sub-pixels,   *)
(* listed pixel after pixel (the sub-slim order).  Interpolation weights   *)
(* are rationals wn/d; a row i of the mapping matrix is carried times its  *)
(* denominator  DRow(i) = sub[i]^2 * lcm{ d(q) : q sub-pixel of i }.       *)
(* Source pixels are numbered from 0 as in the library.                    *)
(*                                                                         *)
(* Layer 1 (meaning)    rectangular cells from the bounding box of the     *)
(*                      positions, barycentric weights, validity of a      *)
(*                      reported Delaunay triangulation, adjacency.        *)
(* Second formulation   the matrix accumulated sub-pixel by sub-pixel, the *)
(*                      unique-mapping encoder with its first-occurrence   *)
(*                      table, the corner/edge/centre neighbour table.     *)
(* Layer 2 (machines)   Spec    : rectangular mappers, neighbour graphs    *)
(*                      DelSpec : all candidate triangulations of small    *)
(*                                vertex sets (what "valid" means)         *)
(* Layer 3 (properties) the invariants listed at the end.                  *)
(***************************************************************************)
EXTENDS Integers, Sequences, FiniteSets, TLC, Json, IOUtils, FiniteSetsExt, SequencesExt

CONSTANTS ExhFamilies,      \* exhaustive rectangular families: << sub-size sequence, <<my,mx>> >>
          ExhL,             \* their positions range over (0..ExhL)^2
          NeighbourShapes,  \* <<my,mx>> whose neighbour graph is enumerated
          DelSizes,         \* DelSpec: numbers of vertices
          DelL,             \* DelSpec: vertices range over (0..DelL)^2
          DelE              \* DelSpec: probes sit at DelE^-1 .. 256/DelE of a tick from edges and vertices (DelE = 2^16)

\* seeded instance family (JSON array of records kind/id/sub/pos/my/mx) written by the driver
Insts == JsonDeserialize(IOEnv.INST_FILE)

SumOver(S, f(_)) == FoldSet(LAMBDA x, acc : acc + f(x), 0, S)
Sq(x) == x * x
AbsV(x) == IF x < 0 THEN -x ELSE x
Sign(x) == IF x > 0 THEN 1 ELSE IF x < 0 THEN -1 ELSE 0
RECURSIVE Gcd(_, _)
Gcd(a, b) == IF b = 0 THEN a ELSE Gcd(b, a % b)
Lcm(a, b) == (a \div Gcd(a, b)) * b
LcmOver(S, f(_)) == FoldSet(LAMBDA x, acc : Lcm(acc, f(x)), 1, S)

-----------------------------------------------------------------------------
(* Layer 1: meaning *)

\* ---- sub-pixels of an image pixel (sub-slim order) ------------------------
RECURSIVE StartOf(_, _)
StartOf(sub, i) == IF i = 1 THEN 0 ELSE StartOf(sub, i-1) + Sq(sub[i-1])
NSub(sub) == StartOf(sub, Len(sub) + 1)
SubsOf(sub, i) == (StartOf(sub, i) + 1) .. (StartOf(sub, i) + Sq(sub[i]))
Owner(sub, q) == CHOOSE i \in 1 .. Len(sub) : q \in SubsOf(sub, i)

\* ---- rectangular mesh overlaid on the positions ---------------------------
\* The mesh of shape my x mx covers the bounding box of the positions; row 0 is the top (largest y),
\* column 0 the left (smallest x).  A point belongs to the cell whose half-open extent contains it;
\* the bottom and right extreme points belong to the last row / column.
BBox(pos) == [ y0 |-> Min({pos[q][1] : q \in DOMAIN pos}), y1 |-> Max({pos[q][1] : q \in DOMAIN pos}),
               x0 |-> Min({pos[q][2] : q \in DOMAIN pos}), x1 |-> Max({pos[q][2] : q \in DOMAIN pos}) ]
BoxOk(bb) == bb.y1 > bb.y0 /\ bb.x1 > bb.x0
RowOf(y, bb, my) == IF y = bb.y0 THEN my - 1 ELSE ((bb.y1 - y) * my) \div (bb.y1 - bb.y0)
ColOf(x, bb, mx) == IF x = bb.x1 THEN mx - 1 ELSE ((x - bb.x0) * mx) \div (bb.x1 - bb.x0)
CellOf(p, bb, my, mx) == RowOf(p[1], bb, my) * mx + ColOf(p[2], bb, mx)
\* a point exactly on an interior cell boundary has no cell of its own (excluded from the inputs)
OnBoundary(p, bb, my, mx) ==
    \/ p[1] # bb.y0 /\ p[1] # bb.y1 /\ ((bb.y1 - p[1]) * my) % (bb.y1 - bb.y0) = 0
    \/ p[2] # bb.x0 /\ p[2] # bb.x1 /\ ((p[2] - bb.x0) * mx) % (bb.x1 - bb.x0) = 0
RectInputOk(pos, my, mx) ==
    LET bb == BBox(pos) IN BoxOk(bb) /\ \A q \in DOMAIN pos : ~ OnBoundary(pos[q], bb, my, mx)

\* ---- interpolation tables -------------------------------------------------
\* tab[q] = [pix |-> <<source pixels>>, wn |-> <<numerators>>, d |-> denominator]: sub-pixel q gives weight
\* wn[k]/d to source pixel pix[k].
RectTable(pos, my, mx) ==
    LET bb == BBox(pos) IN [q \in DOMAIN pos |-> [pix |-> << CellOf(pos[q], bb, my, mx) >>, wn |-> << 1 >>, d |-> 1]]

RowLcm(tab, sub, i) == LcmOver(SubsOf(sub, i), LAMBDA q : tab[q].d)
DRow(tab, sub, i) == Sq(sub[i]) * RowLcm(tab, sub, i)
\* weight numerator that sub-pixel q gives to source pixel c, in the units of its row (row lcm L)
WeightIn(tab, q, c, L) ==
    SumOver({k \in DOMAIN tab[q].pix : tab[q].pix[k] = c}, LAMBDA k : tab[q].wn[k]) * (L \div tab[q].d)
\* THE DEFINITION (statement): entry (i,c) = sum over the sub-pixels of i of 1/sub_i^2 times the weight of c
Entry(tab, sub, i, c) ==
    LET L == RowLcm(tab, sub, i) IN SumOver(SubsOf(sub, i), LAMBDA q : WeightIn(tab, q, c, L))
MatrixOf(tab, sub, P) == [i \in 1 .. Len(sub) |-> [c \in 1 .. P |-> Entry(tab, sub, i, c - 1)]]

\* ---- triangles on the lattice ----------------------------------------------
\* twice the signed area of (a,b,c); points are <<y,x>>, only products of signs are ever used
Orient(a, b, c) == (b[1] - a[1]) * (c[2] - a[2]) - (b[2] - a[2]) * (c[1] - a[1])
Area2(a, b, c) == AbsV(Orient(a, b, c))
\* in-circle determinant: its sign times the sign of Orient(a,b,c) is +1 iff d lies strictly inside the
\* circle through a, b, c
InCircle(a, b, c, d) ==
    LET ay == a[1] - d[1]  ax == a[2] - d[2]
        by == b[1] - d[1]  bx == b[2] - d[2]
        cy == c[1] - d[1]  cx == c[2] - d[2]
    IN  (Sq(ay) + Sq(ax)) * (by * cx - bx * cy)
      - (Sq(by) + Sq(bx)) * (ay * cx - ax * cy)
      + (Sq(cy) + Sq(cx)) * (ay * bx - ax * by)
StrictlyInCircle(a, b, c, d) == Sign(InCircle(a, b, c, d)) * Sign(Orient(a, b, c)) > 0

\* vertices V: sequence of points, numbered from 0; a simplex t: sequence of three vertex numbers
Vx(V, k) == V[k + 1]
VIdx(V) == 0 .. Len(V) - 1
IsTriangle(V, t) ==
    /\ Len(t) = 3 /\ \A k \in 1 .. 3 : t[k] \in VIdx(V)
    /\ t[1] # t[2] /\ t[1] # t[3] /\ t[2] # t[3]
    /\ Orient(Vx(V, t[1]), Vx(V, t[2]), Vx(V, t[3])) # 0
TriSet(t) == {t[1], t[2], t[3]}

\* A QUERY POINT q = <<y, x, dy, dx, E>> is the point (y + dy/E, x + dx/E): a lattice point plus an exact dyadic
\* offset (E a power of two), so that positions at 2^-8 .. 2^-16 of a tick from an edge are still decided by integer
\* determinants, without any tolerance.  A plain lattice point is <<y, x, 0, 0, 1>>.
Lat(p) == << p[1], p[2], 0, 0, 1 >>
\* E times twice the signed area of (a, b, q)   (Orient is linear in its last argument)
OrientQ(a, b, q) ==
    Orient(a, b, << q[1], q[2] >>) * q[5] + ((b[1] - a[1]) * q[4] - (b[2] - a[2]) * q[3])
\* q in the closed triangle t
Inside(V, t, q) ==
    LET a == Vx(V, t[1]) b == Vx(V, t[2]) c == Vx(V, t[3]) s == Sign(Orient(a, b, c))
    IN Sign(OrientQ(a, b, q)) * s >= 0 /\ Sign(OrientQ(b, c, q)) * s >= 0 /\ Sign(OrientQ(c, a, q)) * s >= 0
StrictlyInside(V, t, q) ==
    LET a == Vx(V, t[1]) b == Vx(V, t[2]) c == Vx(V, t[3]) s == Sign(Orient(a, b, c))
    IN Sign(OrientQ(a, b, q)) * s > 0 /\ Sign(OrientQ(b, c, q)) * s > 0 /\ Sign(OrientQ(c, a, q)) * s > 0
\* barycentric coordinates as area ratios: vertex k gets Area(q, the other two vertices) / Area(t);
\* numerators and denominator are both carried times E
BaryNum(V, t, q) ==
    LET a == Vx(V, t[1]) b == Vx(V, t[2]) c == Vx(V, t[3])
    IN << AbsV(OrientQ(b, c, q)), AbsV(OrientQ(c, a, q)), AbsV(OrientQ(a, b, q)) >>
BaryArea(V, t) == Area2(Vx(V, t[1]), Vx(V, t[2]), Vx(V, t[3]))
BaryDen(V, t, q) == BaryArea(V, t) * q[5]
Dist2(a, b) == Sq(a[1] - b[1]) + Sq(a[2] - b[2])
\* E times the squared distance from v to q, less the term |offset|^2/E common to all v
DistKey(v, q) == Dist2(v, << q[1], q[2] >>) * q[5] - 2 * ((v[1] - q[1]) * q[3] + (v[2] - q[2]) * q[4])
IsNearest(V, k, q) == k \in VIdx(V) /\ \A j \in VIdx(V) : DistKey(Vx(V, k), q) <= DistKey(Vx(V, j), q)

\* ---- what a valid Delaunay answer is ----------------------------------------
\* T: a set of simplices reported for the vertices V.  The specification does not construct a triangulation.
TrianglesOfVertices(V, T) ==
    /\ T # {} /\ \A t \in T : IsTriangle(V, t)
    /\ \A s, t \in T : s # t => TriSet(s) # TriSet(t)
    /\ \A k \in VIdx(V) : \E t \in T : k \in TriSet(t)
EmptyCircumcircles(V, T) ==
    \A t \in T : \A k \in VIdx(V) \ TriSet(t) :
        ~ StrictlyInCircle(Vx(V, t[1]), Vx(V, t[2]), Vx(V, t[3]), Vx(V, k))
EdgesOf(t) == { {t[1], t[2]}, {t[2], t[3]}, {t[1], t[3]} }
OppositeOf(t, e) == CHOOSE k \in TriSet(t) : k \notin e
\* the line through edge e has every vertex on one closed side
HullEdge(V, e) ==
    LET a == CHOOSE k \in e : TRUE  b == CHOOSE k \in e : k # a
    IN ~ ( /\ \E u \in VIdx(V) : Orient(Vx(V, a), Vx(V, b), Vx(V, u)) > 0
           /\ \E w \in VIdx(V) : Orient(Vx(V, a), Vx(V, b), Vx(V, w)) < 0 )
\* every edge is either on the hull and used once, or shared by exactly two simplices lying on opposite sides
TilesHull(V, T) ==
    \A t \in T : \A e \in EdgesOf(t) :
        LET a == CHOOSE k \in e : TRUE  b == CHOOSE k \in e : k # a
            others == {s \in T : TriSet(s) # TriSet(t) /\ e \subseteq TriSet(s)}
        IN IF HullEdge(V, e) THEN others = {}
           ELSE /\ Cardinality(others) = 1
                /\ \A s \in others :
                     Sign(Orient(Vx(V, a), Vx(V, b), Vx(V, OppositeOf(t, e))))
                       * Sign(Orient(Vx(V, a), Vx(V, b), Vx(V, OppositeOf(s, e)))) < 0
ValidSimplices(V, T) == TrianglesOfVertices(V, T) /\ EmptyCircumcircles(V, T) /\ TilesHull(V, T)

\* the textbook definition, used only to state what ValidSimplices characterises
AllTriples(V) == { <<a, b, c>> : a, b, c \in VIdx(V) }
SortedTriples(V) == { t \in AllTriples(V) : t[1] < t[2] /\ t[2] < t[3] }
DelaunayTriples(V) ==
    { t \in SortedTriples(V) :
        /\ Orient(Vx(V, t[1]), Vx(V, t[2]), Vx(V, t[3])) # 0
        /\ \A k \in VIdx(V) \ TriSet(t) : ~ StrictlyInCircle(Vx(V, t[1]), Vx(V, t[2]), Vx(V, t[3]), Vx(V, k)) }
NoThreeCollinear(V) == \A t \in SortedTriples(V) : Orient(Vx(V, t[1]), Vx(V, t[2]), Vx(V, t[3])) # 0
NoFourCocircular(V) ==
    \A t \in SortedTriples(V) : \A k \in VIdx(V) \ TriSet(t) :
        InCircle(Vx(V, t[1]), Vx(V, t[2]), Vx(V, t[3]), Vx(V, k)) # 0
GeneralPosition(V) == NoThreeCollinear(V) /\ NoFourCocircular(V)
\* p in the convex hull of V, said without any triangulation
InHull(V, q) ==
    \A a, b \in VIdx(V) :
        (a # b /\ HullEdge(V, {a, b})) =>
            \A u \in VIdx(V) : Sign(OrientQ(Vx(V, a), Vx(V, b), q)) * Sign(Orient(Vx(V, a), Vx(V, b), Vx(V, u))) >= 0
\* q on the line through a hull edge (there inside / outside is a matter of floating-point tolerance)
OnHullLine(V, q) ==
    \E a, b \in VIdx(V) : a # b /\ HullEdge(V, {a, b}) /\ OrientQ(Vx(V, a), Vx(V, b), q) = 0

\* ---- adjacency ----------------------------------------------------------------
Adj4(a, my, mx) ==
    { b \in 0 .. my * mx - 1 : AbsV((a \div mx) - (b \div mx)) + AbsV((a % mx) - (b % mx)) = 1 }
SimplexAdj(T, a) == UNION { TriSet(t) : t \in {s \in T : a \in TriSet(s)} } \ {a}

-----------------------------------------------------------------------------
(* Second formulation: structured like the implementation *)

\* dense matrix accumulated sub-pixel by sub-pixel through the owner (slim) index of every sub-pixel
RECURSIVE AccumulateFrom(_, _, _, _, _)
AccumulateFrom(M, tab, sub, q, k) ==
    IF q > Len(tab) THEN M
    ELSE IF k > Len(tab[q].pix) THEN AccumulateFrom(M, tab, sub, q + 1, 1)
    ELSE LET i == Owner(sub, q)
             c == tab[q].pix[k] + 1
             add == tab[q].wn[k] * (RowLcm(tab, sub, i) \div tab[q].d)
         IN AccumulateFrom([M EXCEPT ![i][c] = @ + add], tab, sub, q, k + 1)
Accumulated(tab, sub, P) ==
    AccumulateFrom([i \in 1 .. Len(sub) |-> [c \in 1 .. P |-> 0]], tab, sub, 1, 1)

\* unique mappings of one image pixel: walk its sub-pixels in order; a first-occurrence table (slot) says
\* where a source pixel already sits in the list; repeated source pixels add their weight to that entry
RECURSIVE UniqueFrom(_, _, _, _, _, _, _)
UniqueFrom(acc, slot, tab, L, q, qend, k) ==
    IF q > qend THEN acc
    ELSE IF k > Len(tab[q].pix) THEN UniqueFrom(acc, slot, tab, L, q + 1, qend, 1)
    ELSE LET c == tab[q].pix[k]
             add == tab[q].wn[k] * (L \div tab[q].d)
         IN IF slot[c + 1] > 0
            THEN UniqueFrom([acc EXCEPT !.w[slot[c + 1]] = @ + add], slot, tab, L, q, qend, k + 1)
            ELSE UniqueFrom([pix |-> Append(acc.pix, c), w |-> Append(acc.w, add)],
                            [slot EXCEPT ![c + 1] = Len(acc.pix) + 1], tab, L, q, qend, k + 1)
UniqueOf(tab, sub, P) ==
    [i \in 1 .. Len(sub) |->
        UniqueFrom([pix |-> << >>, w |-> << >>], [c \in 1 .. P |-> 0], tab, RowLcm(tab, sub, i),
                   StartOf(sub, i) + 1, StartOf(sub, i) + Sq(sub[i]), 1)]
\* the matrix a unique-mapping triple stands for
DenseOfUnique(U, P) ==
    [i \in DOMAIN U |-> [c \in 1 .. P |->
        SumOver({j \in DOMAIN U[i].pix : U[i].pix[j] = c - 1}, LAMBDA j : U[i].w[j])]]
NoRepeats(s) == \A a, b \in DOMAIN s : a # b => s[a] # s[b]

\* neighbour table of a rectangular mesh by position class: corners, the four edges, the interior
RectNeighbourTable(my, mx) ==
    LET P == my * mx IN
    [a \in 0 .. P - 1 |->
        LET r == a \div mx  c == a % mx IN
        CASE r = 0 /\ c = 0 -> << 1, mx >>
          [] r = 0 /\ c = mx - 1 -> << mx - 2, 2 * mx - 1 >>
          [] r = my - 1 /\ c = 0 -> << P - 2 * mx, P - mx + 1 >>
          [] r = my - 1 /\ c = mx - 1 -> << P - mx - 1, P - 2 >>
          [] r = 0 -> << a - 1, a + 1, a + mx >>
          [] c = 0 -> << a - mx, a + 1, a + mx >>
          [] c = mx - 1 -> << a - mx, a - 1, a + mx >>
          [] r = my - 1 -> << a - mx, a - 1, a + 1 >>
          [] OTHER -> << a - mx, a - 1, a + 1, a + mx >> ]

-----------------------------------------------------------------------------
(* Layer 2: the bounded machine of rectangular mappers (Spec) *)

VARIABLES inp,     \* the input: [kind, id, sub, pos, my, mx]
          phase,   \* "given" -> "weighted" -> "dense" -> "unique" -> "done"  (kind "nbr": "given" -> "done")
          tab,     \* interpolation table (pix_sub_weights)
          mat,     \* mapping matrix times the row denominators
          uniq,    \* unique mappings
          nbr      \* neighbour table
vars == << inp, phase, tab, mat, uniq, nbr >>

Lattice(L) == (0 .. L) \X (0 .. L)

Init ==
    /\ \/ \E k \in DOMAIN Insts : inp = Insts[k]
       \/ \E fam \in ExhFamilies : \E p \in [1 .. NSub(fam[1]) -> Lattice(ExhL)] :
            /\ RectInputOk(p, fam[2][1], fam[2][2])
            /\ inp = [kind |-> "rect", id |-> 0, sub |-> fam[1], pos |-> p, my |-> fam[2][1], mx |-> fam[2][2]]
       \/ \E sh \in NeighbourShapes :
            inp = [kind |-> "nbr", id |-> 0, sub |-> << >>, pos |-> << >>, my |-> sh[1], mx |-> sh[2]]
    /\ phase = "given" /\ tab = << >> /\ mat = << >> /\ uniq = << >> /\ nbr = << >>

PP == inp.my * inp.mx

\* The reads of one mapper are pure and cached, so one order of the four reads stands for all of them.
\* mapper.pix_sub_weights (the mesh is overlaid on the positions first)
SubWeights ==
    /\ phase = "given" /\ inp.kind = "rect"
    /\ LET t == RectTable(inp.pos, inp.my, inp.mx) IN
         /\ tab' = t
         /\ PrintT(ToJson([k |-> "inst", inp |-> inp,
                           cells |-> [q \in DOMAIN t |-> t[q].pix[1]],
                           m |-> MatrixOf(t, inp.sub, PP)]))
    /\ phase' = "weighted"
    /\ UNCHANGED << inp, mat, uniq, nbr >>
\* mapper.mapping_matrix
MappingMatrix ==
    /\ phase = "weighted"
    /\ mat' = Accumulated(tab, inp.sub, PP)
    /\ phase' = "dense"
    /\ UNCHANGED << inp, tab, uniq, nbr >>
\* mapper.unique_mappings
UniqueMappings ==
    /\ phase = "dense"
    /\ uniq' = UniqueOf(tab, inp.sub, PP)
    /\ phase' = "unique"
    /\ UNCHANGED << inp, tab, mat, nbr >>
\* mapper.neighbors
Neighbours ==
    /\ \/ phase = "unique" \/ (phase = "given" /\ inp.kind = "nbr")
    /\ nbr' = RectNeighbourTable(inp.my, inp.mx)
    /\ phase' = "done"
    /\ UNCHANGED << inp, tab, mat, uniq >>

\* mapper.pixel_signals_from(signal_scale): another read of the same mapper (it looks at the weights and at the adapt
\* image).  It may come before or between the reads above and publishes nothing: every judged variable stays as it is.
PixelSignals ==
    /\ inp.kind = "rect" /\ phase # "done"
    /\ UNCHANGED vars

Next == SubWeights \/ MappingMatrix \/ UniqueMappings \/ Neighbours \/ PixelSignals
Spec == Init /\ [][Next]_vars

-----------------------------------------------------------------------------
(* Layer 3: properties of the rectangular machine (each is checked in the state that produced its subject) *)

NPix == Len(inp.sub)

InputsOffBoundaries == (phase = "given" /\ inp.kind = "rect") => RectInputOk(inp.pos, inp.my, inp.mx)
\* every position has a cell of the mesh; the extreme points sit in the first / last rows and columns; a point lies in
\* the closed extent of its cell
CellsCoverTheBox ==
    phase = "weighted" => LET bb == BBox(inp.pos) IN
        \A q \in DOMAIN inp.pos :
            LET p == inp.pos[q] r == RowOf(p[1], bb, inp.my) c == ColOf(p[2], bb, inp.mx) IN
            /\ r \in 0 .. inp.my - 1 /\ c \in 0 .. inp.mx - 1
            /\ tab[q].pix[1] = r * inp.mx + c
            /\ (p[1] = bb.y1 => r = 0) /\ (p[1] = bb.y0 => r = inp.my - 1)
            /\ (p[2] = bb.x0 => c = 0) /\ (p[2] = bb.x1 => c = inp.mx - 1)
            /\ r * (bb.y1 - bb.y0) <= (bb.y1 - p[1]) * inp.my /\ (bb.y1 - p[1]) * inp.my <= (r + 1) * (bb.y1 - bb.y0)
            /\ c * (bb.x1 - bb.x0) <= (p[2] - bb.x0) * inp.mx /\ (p[2] - bb.x0) * inp.mx <= (c + 1) * (bb.x1 - bb.x0)
\* SCALE AND SHIFT: the table is the same when every coordinate is multiplied by s and moved by d (the tick length and the
\* origin of the lattice are not inputs of anything the mapper publishes)
Moved(p, s, d) == << p[1] * s + d[1], p[2] * s + d[2] >>
CellsScaleAndShiftFree ==
    phase = "weighted" =>
        \A s \in {2, 3, 1024} : \A d \in {<< 0, 0 >>, << -4096, 1000 >>} :
            RectTable([q \in DOMAIN inp.pos |-> Moved(inp.pos[q], s, d)], inp.my, inp.mx) = tab
RowsNonNegative == phase = "dense" => \A i \in 1 .. NPix : \A c \in 1 .. PP : mat[i][c] >= 0
RowsSumToOne == phase = "dense" => \A i \in 1 .. NPix : SumOver(1 .. PP, LAMBDA c : mat[i][c]) = DRow(tab, inp.sub, i)
\* the accumulated matrix is the defined one: entry (i,c) counts the sub-pixels of i whose cell is c
EntryFormula ==
    phase = "dense" =>
        /\ mat = MatrixOf(tab, inp.sub, PP)
        /\ LET bb == BBox(inp.pos) IN
           \A i \in 1 .. NPix : \A c \in 0 .. PP - 1 :
              mat[i][c + 1] = Cardinality({q \in SubsOf(inp.sub, i) : CellOf(inp.pos[q], bb, inp.my, inp.mx) = c})
UniqueEncodesDense ==
    phase = "unique" =>
        /\ DenseOfUnique(uniq, PP) = mat
        /\ \A i \in 1 .. NPix : NoRepeats(uniq[i].pix) /\ Len(uniq[i].pix) = Len(uniq[i].w)
        /\ \A i \in 1 .. NPix : \A j \in DOMAIN uniq[i].w : uniq[i].w[j] > 0
NeighboursSymmetric ==
    phase = "done" => \A a, b \in 0 .. PP - 1 : (b \in ToSet(nbr[a])) <=> (a \in ToSet(nbr[b]))
RectNeighboursAre4Connectivity ==
    phase = "done" => \A a \in 0 .. PP - 1 : ToSet(nbr[a]) = Adj4(a, inp.my, inp.mx) /\ NoRepeats(nbr[a])

-----------------------------------------------------------------------------
(* Layer 2': the machine of candidate triangulations (DelSpec).  Init picks a vertex set without three   *)
(* collinear points and ANY set of simplices over it; Triangulate judges it.  The invariants say what    *)
(* the validity predicates used on recorded executions characterise.                                     *)

\* (all predicates are invariant under translation, so only vertex sets touching both axes are taken; a triangulation
\*  of n points has at most 2n-5 triangles, so simplex sets with more than 2n-4 members add nothing)
DelInit ==
    /\ \E n \in DelSizes : \E S \in kSubset(n, Lattice(DelL)) :
          LET V == SetToSortSeq(S, LAMBDA a, b : a[1] < b[1] \/ (a[1] = b[1] /\ a[2] < b[2])) IN
          /\ 0 \in {p[1] : p \in S} /\ 0 \in {p[2] : p \in S}
          /\ NoThreeCollinear(V)
          /\ \E T \in SUBSET SortedTriples(V) :
                /\ Cardinality(T) <= 2 * n - 4
                /\ inp = [kind |-> "del", id |-> 0, V |-> V, T |-> T]
    /\ phase = "given" /\ tab = << >> /\ mat = << >> /\ uniq = << >> /\ nbr = << >>

Triangulate ==
    /\ phase = "given" /\ inp.kind = "del"
    /\ phase' = "judged"
    /\ tab' = [valid |-> ValidSimplices(inp.V, inp.T), delaunay |-> DelaunayTriples(inp.V)]
    /\ UNCHANGED << inp, mat, uniq, nbr >>

\* Probes: query points a hair away from the simplex edges and from the vertices.  For an edge (a,b): its midpoint
\* shifted by +-g/DelE times the integer normal (g = 256, 16, 1, i.e. 2^-8, 2^-12, 2^-16 of the normal), and the
\* midpoint itself; for a vertex: the eight offsets (+-1/DelE, +-1/DelE).
EdgeProbe(V, e, sd, g) ==
    LET a == Vx(V, e[1]) b == Vx(V, e[2]) IN
    << a[1], a[2], (b[1] - a[1]) * (DelE \div 2) - sd * g * (b[2] - a[2]),
                   (b[2] - a[2]) * (DelE \div 2) + sd * g * (b[1] - a[1]), DelE >>
SimplexEdges(V, T) == { e \in VIdx(V) \X VIdx(V) : e[1] < e[2] /\ \E t \in T : {e[1], e[2]} \subseteq TriSet(t) }
EdgeProbes(V, T) == { EdgeProbe(V, e, sg[1], sg[2]) : e \in SimplexEdges(V, T), sg \in {-1, 0, 1} \X {1, 16, 256} }
VertexProbes(V) ==
    { << Vx(V, k)[1], Vx(V, k)[2], d[1], d[2], DelE >> : k \in VIdx(V), d \in ({-1, 0, 1} \X {-1, 0, 1}) \ {<<0, 0>>} }
Queries(V, T) == { Lat(p) : p \in Lattice(DelL) } \cup EdgeProbes(V, T) \cup VertexProbes(V)

\* what the specification wants for a query point under an accepted answer: the weight of every vertex (over den), or the
\* set of nearest vertices for a point outside the hull
WantFor(V, T, q) ==
    IF \E t \in T : Inside(V, t, q)
    THEN LET t == CHOOSE t \in T : Inside(V, t, q)  w == BaryNum(V, t, q) IN
         [q |-> q, inside |-> TRUE, den |-> BaryDen(V, t, q),
          w |-> [k \in 1 .. Len(V) |-> SumOver({j \in 1 .. 3 : t[j] = k - 1}, LAMBDA j : w[j])], near |-> << >>]
    ELSE [q |-> q, inside |-> FALSE, den |-> 1, w |-> << >>,
          near |-> SetToSeq({k \in VIdx(V) : IsNearest(V, k, q)})]
\* an accepted answer in general position is handed to the real Delaunay mapper together with its probes
Probe ==
    /\ phase = "judged" /\ tab.valid /\ GeneralPosition(inp.V)
    /\ phase' = "probed"
    /\ LET H == TLCEval({e \in SimplexEdges(inp.V, inp.T) : HullEdge(inp.V, {e[1], e[2]})})
           P == TLCEval({q \in EdgeProbes(inp.V, inp.T) \cup VertexProbes(inp.V) :
                           \A e \in H : OrientQ(Vx(inp.V, e[1]), Vx(inp.V, e[2]), q) # 0})
       IN PrintT(ToJson([k |-> "del", V |-> inp.V, T |-> SetToSeq(inp.T),
                         want |-> SetToSeq({WantFor(inp.V, inp.T, q) : q \in P})]))
    /\ UNCHANGED << inp, tab, mat, uniq, nbr >>

DelSpec == DelInit /\ [][Triangulate \/ Probe]_vars

Judged == phase = "judged"
\* in general position the validity predicates accept exactly the Delaunay triangulation
ValidityCharacterisesDelaunay ==
    (Judged /\ GeneralPosition(inp.V)) => (tab.valid <=> inp.T = tab.delaunay)
\* with co-circular vertices every accepted answer is made of empty-circle triangles ...
ValidityIsSound == (Judged /\ tab.valid) => inp.T \subseteq tab.delaunay
\* ... and some answer is accepted for every vertex set (asked once per vertex set, in the state with no simplices)
SomeAnswerIsValid ==
    (Judged /\ inp.T = {}) => \E T \in SUBSET tab.delaunay : ValidSimplices(inp.V, T)
\* an accepted answer covers exactly the hull, without overlap -- for lattice points and for points a hair off the edges
ValidTilesExactly ==
    (Judged /\ tab.valid) =>
        \A q \in Queries(inp.V, inp.T) :
            /\ (\E t \in inp.T : Inside(inp.V, t, q)) <=> InHull(inp.V, q)
            /\ Cardinality({t \in inp.T : StrictlyInside(inp.V, t, q)}) <= 1
\* barycentric weights are non-negative and sum to one exactly on the closed triangle; the interpolation does not
\* depend on which of several containing triangles is taken (a vertex absent from a triangle has weight 0)
BarycentricWellDefined ==
    (Judged /\ tab.valid) =>
        \A q \in Queries(inp.V, inp.T) : \A t \in inp.T :
            LET w == BaryNum(inp.V, t, q) IN
            /\ (Inside(inp.V, t, q) <=> w[1] + w[2] + w[3] = BaryDen(inp.V, t, q))
            /\ (Inside(inp.V, t, q) =>
                  \A s \in inp.T : Inside(inp.V, s, q) =>
                     LET ws == BaryNum(inp.V, s, q) IN
                     \A k \in VIdx(inp.V) :
                        SumOver({j \in 1 .. 3 : t[j] = k}, LAMBDA j : w[j]) * BaryArea(inp.V, s)
                          = SumOver({j \in 1 .. 3 : s[j] = k}, LAMBDA j : ws[j]) * BaryArea(inp.V, t))
\* the two probes mirrored in an edge never share a simplex, and across a hull edge exactly one of them is in the
\* hull: a point location with a tolerance (which cannot tell them apart) must give a wrong answer for one of them
ProbesSeparateTheSides ==
    (Judged /\ tab.valid) =>
        \A e \in SimplexEdges(inp.V, inp.T) : \A g \in {1, 16, 256} :
            LET qp == EdgeProbe(inp.V, e, 1, g)  qm == EdgeProbe(inp.V, e, -1, g) IN
            /\ ~ \E t \in inp.T : Inside(inp.V, t, qp) /\ Inside(inp.V, t, qm)
            /\ HullEdge(inp.V, {e[1], e[2]}) => (InHull(inp.V, qp) # InHull(inp.V, qm))
            /\ ~ HullEdge(inp.V, {e[1], e[2]}) => (InHull(inp.V, qp) /\ InHull(inp.V, qm))
\* SCALE AND SHIFT: validity, containment and the weights are the same when every coordinate (vertices and query point,
\* its offset included) is multiplied by s and moved by d: areas scale by s^2 above and below the fraction bar
MovedQ(q, s, d) == << q[1] * s + d[1], q[2] * s + d[2], q[3] * s, q[4] * s, q[5] >>
DelaunayScaleAndShiftFree ==
    Judged =>
        /\ ValidSimplices([k \in DOMAIN inp.V |-> Moved(inp.V[k], 2, << -7, 5 >>)], inp.T) = tab.valid
        /\ tab.valid =>
              \A sd \in { << 2, << -7, 5 >> >> } :
                  LET s == sd[1]  d == sd[2]
                      W == TLCEval([k \in DOMAIN inp.V |-> Moved(inp.V[k], s, d)]) IN
                  \A q \in Queries(inp.V, inp.T) : \A t \in inp.T :
                      /\ Inside(W, t, MovedQ(q, s, d)) = Inside(inp.V, t, q)
                      /\ BaryNum(W, t, MovedQ(q, s, d)) = [j \in 1 .. 3 |-> s * s * BaryNum(inp.V, t, q)[j]]
                      /\ BaryDen(W, t, MovedQ(q, s, d)) = s * s * BaryDen(inp.V, t, q)
                      /\ \A k \in VIdx(inp.V) : IsNearest(W, k, MovedQ(q, s, d)) = IsNearest(inp.V, k, q)
\* the adjacency read off the simplices is symmetric and gives every vertex at least two neighbours
SimplexAdjacencySymmetric ==
    (Judged /\ tab.valid) =>
        \A a, b \in VIdx(inp.V) :
            /\ (b \in SimplexAdj(inp.T, a)) <=> (a \in SimplexAdj(inp.T, b))
            /\ Cardinality(SimplexAdj(inp.T, a)) >= 2
=============================================================================
