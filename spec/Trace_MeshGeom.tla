--------------------------- MODULE Trace_MeshGeom ---------------------------
(***************************************************************************)
(* Validation of recorded executions of the real mesh-geometry API against *)
(* MeshGeom.tla (X09).  One record per exercised mesh / call; coordinates  *)
(* are integers (value / tick; alpha rejects anything off the lattice with *)
(* the sentinel OFF).  Vertices are numbered from 0 in the records.        *)
(*                                                                         *)
(*  api "overlay"  Mesh2DRectangular.overlay_grid(shape, grid, buffer):    *)
(*       my, mx, pts (the grid), b (buffer; bdef: the default 1e-8 was     *)
(*       used, judged as 0), cen (centres, y * 2my, x * 2mx), ps (pixel    *)
(*       scales * my, * mx), org2 (origin * 2), shape, pixels, ext         *)
(*       (geometry.extent), raised                                         *)
(*  api "rnbr"     neighbors / edge_pixel_list of a rectangular mesh (or   *)
(*       mesh_util directly): my, mx, nbr, sizes, edge, hist, raised       *)
(*  api "rinterp"  Mesh2DRectangular.interpolated_array_from of values     *)
(*       a*y + b*x + c: my, mx, pts, b, lin, Q (extent in QUARTER ticks,   *)
(*       (x0,x1,y0,y1); extdef: the default extent was used), H, W, G,     *)
(*       out (H x W, value * G rounded; NaN = NANV), oshape, ps            *)
(*  api "tri"      Mesh2DDelaunay / Mesh2DVoronoi(V): cls, V, parts,       *)
(*       nbr, sizes, edge, F, areas (area * F rounded), aq (the area as a  *)
(*       reduced fraction where alpha could identify one), unb (cells as   *)
(*       -1), mag (areas_for_magnification * F), pixels, org2, ext,        *)
(*       hist, raised                                                      *)
(*  api "split"    split_cross: cls, V, F, sent (= F / tick^2, the -1 of   *)
(*       unbounded cells in lattice units), s4 ((2h)^2 * F rounded, h the  *)
(*       offset of the cross of vertex k; -2 when not a positive real),    *)
(*       sdir (the four offsets / h), hist, raised                         *)
(*  api "tinterp"  interpolated_array_from of a triangulation mesh: cls,   *)
(*       V, vals, Q / extdef, H, W, G, out, oshape, ps, raised             *)
(*  api "triarea"  mesh_util.delaunay_triangle_area_from: pts, out2        *)
(*                                                                         *)
(* Rounding.  A recorded o = round(x * G) satisfies |o - x G| <= 1/2 + eta *)
(* (eta: float noise, < 1e-6).  For x = num/den exactly:                   *)
(*       |o den - G num| <= den/2 + eta den  <  (den + 2)/2                *)
(* For an area bracketed as Lo <= a F < Hi the recorded round(a F) lies in *)
(* [Lo - 1, Hi + 1].  No epsilon is guessed.                               *)
(* Verdicts are total: every record is judged; a rejected record is        *)
(* printed with its failing clauses, signature and the wanted value.       *)
(***************************************************************************)
EXTENDS MeshGeom, IOUtils

Trace == JsonDeserialize(IOEnv.TRACE_FILE)

VARIABLE i

Cl(n, b) == [n |-> n, ok |-> b]
OFF == 99999999
NANV == 2000000000
LIM == 400000000
InRange(x) == x > -LIM /\ x < LIM
IsPair(p) == Len(p) = 2
IsPairs(s) == \A q \in DOMAIN s : Len(s[q]) = 2
Pt(p) == << p[1], p[2] >>
PtsOf(s) == TLCEval([q \in DOMAIN s |-> Pt(s[q])])
Prefix(s, n) == SubSeq(s, 1, n)
Minus1(S) == {k - 1 : k \in S}
SetToSorted(S) == SortSeq(SetToSeq(S), LAMBDA a, b : a < b)

-----------------------------------------------------------------------------
\* ---- rectangular --------------------------------------------------------------
OverlayWellFormed(r) ==
    /\ r.my >= 1 /\ r.mx >= 1 /\ Len(r.pts) >= 1 /\ IsPairs(r.pts) /\ r.b >= 0
    /\ OverlayOk(BBoxOf(PtsOf(r.pts)), r.b)
ClausesOverlay(r) ==
    IF ~ OverlayWellFormed(r) THEN << Cl("record-well-formed", FALSE) >>
    ELSE IF r.raised # "" THEN << Cl("no-exception", FALSE) >>
    ELSE LET bb == BBoxOf(PtsOf(r.pts)) IN
    << Cl("cell-centres-row-major-from-the-top-left-inside-the-buffered-box",
          Len(r.cen) = r.my * r.mx /\ IsPairs(r.cen) /\ PtsOf(r.cen) = Centres2(r.my, r.mx, bb, r.b)),
       Cl("pixel-scales-are-extent-over-shape", r.ps = << OvH(bb, r.b), OvW(bb, r.b) >>),
       Cl("origin-is-the-centre-of-the-box", r.org2 = Origin2(bb)),
       Cl("shape-native-and-pixel-count", r.shape = << r.my, r.mx >> /\ r.pixels = r.my * r.mx),
       Cl("geometry-extent-is-the-buffered-box", r.ext = ExtentOf(bb, r.b)) >>
WantOverlay(r) ==
    IF OverlayWellFormed(r) THEN LET bb == BBoxOf(PtsOf(r.pts)) IN
        [cen |-> Centres2(r.my, r.mx, bb, r.b), ps |-> << OvH(bb, r.b), OvW(bb, r.b) >>, org2 |-> Origin2(bb),
         ext |-> ExtentOf(bb, r.b)]
    ELSE << >>

RowEntries(r, k) == SeqToSet(Prefix(r.nbr[k + 1], r.sizes[k + 1]))
RNbrShapeOk(r) ==
    /\ Len(r.nbr) = r.my * r.mx /\ Len(r.sizes) = r.my * r.mx
    /\ \A k \in DOMAIN r.nbr : Len(r.nbr[k]) = 4 /\ r.sizes[k] \in 0 .. 4
ClausesRNbr(r) ==
    IF r.raised # "" THEN << Cl("no-exception", FALSE) >>
    ELSE IF ~ RNbrShapeOk(r) THEN << Cl("table-has-one-row-of-four-per-cell", FALSE) >>
    ELSE
    << Cl("rows-are-the-4-adjacent-cells-up-left-right-down-padded-with-minus-one",
          \A k \in 0 .. r.my * r.mx - 1 : r.nbr[k + 1] = PadTo(NbrRow(k, r.my, r.mx), 4)),
       Cl("sizes-count-the-neighbours",
          \A k \in 0 .. r.my * r.mx - 1 : r.sizes[k + 1] = Len(NbrRow(k, r.my, r.mx))),
       Cl("table-symmetric",
          \A a \in 0 .. r.my * r.mx - 1 : \A b \in RowEntries(r, a) :
              b \in 0 .. r.my * r.mx - 1 /\ a \in RowEntries(r, b)),
       Cl("edge-list-is-the-frame-boundary-each-cell-once",
          SeqToSet(r.edge) = FrameCells(r.my, r.mx) /\ NoDup(r.edge)),
       Cl("history-reads-agree", r.hist = << >>) >>
WantRNbr(r) == [nbr |-> [j \in 1 .. r.my * r.mx |-> PadTo(NbrRow(j - 1, r.my, r.mx), 4)],
                edge |-> SetToSorted(FrameCells(r.my, r.mx))]

\* extent in quarter ticks: given, or the default geometry.extent_square of the extent e = (x0,x1,y0,y1) in ticks
SquareQ(e) ==
    LET hl == 2 * MaxI(e[4] - e[3], e[2] - e[1]) IN
    << 2 * (e[1] + e[2]) - hl, 2 * (e[1] + e[2]) + hl, 2 * (e[3] + e[4]) - hl, 2 * (e[3] + e[4]) + hl >>
InterpShapeOk(r) ==
    /\ r.H >= 2 /\ r.W >= 2 /\ r.G >= 1
    /\ r.oshape = << r.H, r.W >>
    /\ Len(r.out) = r.H /\ \A a \in DOMAIN r.out : Len(r.out[a]) = r.W
RInterpWellFormed(r) ==
    /\ r.my >= 2 /\ r.mx >= 2 /\ Len(r.pts) >= 1 /\ IsPairs(r.pts) /\ Len(r.lin) = 3
    /\ OverlayOk(BBoxOf(PtsOf(r.pts)), r.b) /\ (r.extdef \/ Len(r.Q) = 4)
ClausesRInterp(r) ==
    IF ~ RInterpWellFormed(r) THEN << Cl("record-well-formed", FALSE) >>
    ELSE IF r.raised # "" THEN << Cl("no-exception", FALSE) >>
    ELSE IF ~ InterpShapeOk(r) THEN << Cl("output-has-the-requested-shape", FALSE) >>
    ELSE
    LET bb == BBoxOf(PtsOf(r.pts))
        Q == IF r.extdef THEN SquareQ(ExtentOf(bb, r.b)) ELSE r.Q
        sy == 4 * (r.H - 1)  sx == 4 * (r.W - 1)
        top == Centre2(0, r.my, r.mx, bb, r.b)                          \* largest y, smallest x
        bot == Centre2(r.my * r.mx - 1, r.my, r.mx, bb, r.b)            \* smallest y, largest x
        Inside(p) == /\ p[1] * 2 * r.my > bot[1] * sy /\ p[1] * 2 * r.my < top[1] * sy
                     /\ p[2] * 2 * r.mx > top[2] * sx /\ p[2] * 2 * r.mx < bot[2] * sx
        Num(p) == r.lin[1] * p[1] * sx + r.lin[2] * p[2] * sy + r.lin[3] * sy * sx
        den == sy * sx
        Good(o, p) == InRange(o) /\ 2 * AbsV(o * den - r.G * Num(p)) <= den + 2
    IN
    << Cl("pixel-scales-are-the-spacing-of-the-output-points", r.ps = << Q[4] - Q[3], Q[2] - Q[1] >>),
       Cl("inside-the-hull-of-the-cell-centres-the-linear-function-is-reproduced",
          \A a \in 0 .. r.H - 1 : \A c \in 0 .. r.W - 1 :
              LET p == OutPoint(Q, r.H, r.W, a, c) IN Inside(p) => Good(r.out[a + 1][c + 1], p)) >>

-----------------------------------------------------------------------------
\* ---- triangulations -----------------------------------------------------------
TriWellFormed(r) == Len(r.V) >= 3 /\ IsPairs(r.V)
Has(r, part) == part \in SeqToSet(r.parts)
TriRowOk(r, n) ==
    /\ Len(r.nbr) = n /\ Len(r.sizes) = n
    /\ \A k \in 1 .. n : r.sizes[k] >= 0 /\ r.sizes[k] <= Len(r.nbr[k])
TableSymmetric(r, n) ==
    \A a \in 0 .. n - 1 : \A b \in RowEntries(r, a) : b \in 0 .. n - 1 /\ a \in RowEntries(r, b)
\* area * F of the bounded cell k, bracketed
AreasAgree(V, T, hull, areas, F) ==
    \A k \in Idx(V) \ hull :
        LET ks == CellKites(V, T, k) IN
        InRange(areas[k]) /\ areas[k] >= AreaLoF(ks, F) - 1 /\ areas[k] <= AreaHiF(ks, F) + 1

\* where the exact denominator is small the float has been identified with a fraction (alpha: limit_denominator(10^4),
\* residual 1e-9): it must be the shoelace rational itself
ExactAreasAgree(V, T, hull, aq) ==
    \A k \in Idx(V) \ hull :
        LET ks == CellKites(V, T, k) IN
        ExactFits(ks) => LET a == AreaExact(ks) IN (a[2] <= 10000 => (Len(aq[k]) = 2 /\ aq[k][1] = a[1] /\ aq[k][2] = a[2]))

ClausesTri(r) ==
    IF ~ TriWellFormed(r) THEN << Cl("record-well-formed", FALSE) >>
    ELSE LET V == PtsOf(r.V)  n == Len(r.V) IN
    IF ~ GeneralPosition(V) THEN << Cl("input-in-general-position", FALSE) >>
    ELSE IF r.raised # "" /\ ~ (n = 3 /\ r.raised = "MeshException:voronoi") THEN << Cl("no-exception", FALSE) >>
    ELSE
    LET T == DelTriangles(V)
        adj == AdjOf(V, TriangleSides(T))
        hull == HullVertices(V)
        maxdeg == Max({Cardinality(adj[k]) : k \in Idx(V)})
    IN
      (IF Has(r, "nbr") THEN
         IF ~ TriRowOk(r, n) THEN << Cl("table-has-one-row-per-vertex", FALSE) >>
         ELSE
         << Cl("neighbour-rows-are-the-empty-circle-adjacency-each-once",
               \A k \in 1 .. n : RowEntries(r, k - 1) = Minus1(adj[k]) /\ NoDup(Prefix(r.nbr[k], r.sizes[k]))),
            Cl("sizes-count-the-neighbours-rows-padded-with-minus-one",
               \A k \in 1 .. n : /\ r.sizes[k] = Cardinality(adj[k]) /\ Len(r.nbr[k]) = maxdeg
                                 /\ \A q \in DOMAIN r.nbr[k] : q > r.sizes[k] => r.nbr[k][q] = -1),
            Cl("table-symmetric", TableSymmetric(r, n)) >>
       ELSE << Cl("neighbours-available", n = 3 /\ r.cls = "Mesh2DVoronoi") >>)
   \o (IF Has(r, "edge") THEN
         << Cl("edge-list-is-the-unbounded-cells-each-once", SeqToSet(r.edge) = Minus1(hull) /\ NoDup(r.edge)) >>
       ELSE << Cl("voronoi-quantities-available-from-four-vertices", n = 3) >>)
   \o (IF Has(r, "areas") THEN
         IF Len(r.areas) # n \/ Len(r.mag) # n THEN << Cl("one-area-per-vertex", FALSE) >>
         ELSE
         << Cl("unbounded-cells-carry-minus-one", SeqToSet(r.unb) = Minus1(hull)),
            Cl("bounded-cell-areas-are-the-shoelace-areas", AreasAgree(V, T, hull, r.areas, r.F)),
            Cl("bounded-cell-areas-are-the-exact-shoelace-rationals", Len(r.aq) = n /\ ExactAreasAgree(V, T, hull, r.aq)),
            Cl("magnification-areas-are-the-areas-with-zero-for-unbounded-cells",
               /\ \A k \in hull : r.mag[k] = 0
               /\ (r.cls = "Mesh2DVoronoi" => AreasAgree(V, T, hull, r.mag, r.F))) >>
       ELSE << >>)
   \o << Cl("pixels-origin-extent",
            LET bb == BBoxOf(V) IN r.pixels = n /\ r.org2 = << 0, 0 >> /\ r.ext = ExtentOf(bb, 0)),
         Cl("history-reads-agree", r.hist = << >>) >>
WantTri(r) ==
    IF TriWellFormed(r) /\ GeneralPosition(PtsOf(r.V)) THEN
        LET V == PtsOf(r.V)  T == DelTriangles(V)  adj == AdjOf(V, TriangleSides(T)) IN
        [nbr |-> [k \in Idx(V) |-> SetToSorted(Minus1(adj[k]))], edge |-> SetToSorted(Minus1(HullVertices(V))),
         areas_lo |-> [k \in Idx(V) |-> IF k \in HullVertices(V) THEN -1 ELSE AreaLoF(CellKites(V, T, k), r.F)]]
    ELSE << >>

\* ---- split cross ---------------------------------------------------------------
CrossDirs == {<< 1, 0 >>, << -1, 0 >>, << 0, 1 >>, << 0, -1 >>}
DirsOf(d) == {<< d[1], d[2] >>, << d[3], d[4] >>, << d[5], d[6] >>, << d[7], d[8] >>}
\* lower / upper brackets of (area * F) per vertex, unbounded cells as the sentinel -sent
SplitBrackets(V, T, hull, F, sent) ==
    [lo |-> [k \in Idx(V) |-> IF k \in hull THEN -sent ELSE AreaLoF(CellKites(V, T, k), F)],
     hi |-> [k \in Idx(V) |-> IF k \in hull THEN -sent ELSE AreaHiF(CellKites(V, T, k), F)]]
SplitCaps(r) ==
    LET V == PtsOf(r.V)  T == DelTriangles(V)  hull == HullVertices(V)
        br == TLCEval(SplitBrackets(V, T, hull, r.F, r.sent))
    IN [br |-> br, hull |-> hull, lo10 |-> PercentileCap10(br.lo), hi10 |-> PercentileCap10(br.hi)]
ClausesSplit(r) ==
    IF ~ (TriWellFormed(r) /\ Len(r.V) >= 4 /\ r.F >= 1 /\ r.sent >= 1) THEN << Cl("record-well-formed", FALSE) >>
    ELSE IF ~ GeneralPosition(PtsOf(r.V)) THEN << Cl("input-in-general-position", FALSE) >>
    ELSE IF r.raised # "" THEN << Cl("no-exception", FALSE) >>
    ELSE IF Len(r.s4) # Len(r.V) \/ Len(r.sdir) # Len(r.V) \/ (\E k \in DOMAIN r.sdir : Len(r.sdir[k]) # 8)
         THEN << Cl("four-cross-points-per-vertex", FALSE) >>
    ELSE
    LET sc == SplitCaps(r)  n == Len(r.V) IN
    IF sc.hull = 1 .. n THEN << Cl("history-reads-agree", r.hist = << >>) >>     \* no bounded cell: no area, nothing documented
    ELSE
    << Cl("offsets-are-real-and-positive", \A k \in 1 .. n : r.s4[k] > 0 /\ InRange(r.s4[k])),
       Cl("cross-points-are-the-vertex-plus-minus-the-offset-along-y-and-along-x",
          \A k \in 1 .. n : DirsOf(r.sdir[k]) = CrossDirs),
       Cl("offset-is-half-the-root-of-the-cell-area-capped-at-the-90th-percentile",
          sc.lo10 > 0 =>
            \A k \in 1 .. n :
               LET lo10 == IF k \in sc.hull THEN sc.lo10 ELSE MinI(10 * sc.br.lo[k], sc.lo10)
                   hi10 == IF k \in sc.hull THEN sc.hi10 ELSE MinI(10 * sc.br.hi[k], sc.hi10)
               IN InRange(r.s4[k]) /\ 10 * r.s4[k] >= lo10 - 6 /\ 10 * r.s4[k] <= hi10 + 6),
       Cl("history-reads-agree", r.hist = << >>) >>
WantSplit(r) ==
    IF TriWellFormed(r) /\ Len(r.V) >= 4 /\ GeneralPosition(PtsOf(r.V)) /\ r.F >= 1 /\ r.sent >= 1 THEN
        LET sc == SplitCaps(r) IN [cap_lo10 |-> sc.lo10, cap_hi10 |-> sc.hi10, area_lo |-> sc.br.lo]
    ELSE << >>

\* ---- interpolation on a triangulation ------------------------------------------------
TInterpWellFormed(r) ==
    /\ TriWellFormed(r) /\ Len(r.vals) = Len(r.V) /\ (r.extdef \/ Len(r.Q) = 4)
ExtentSymmetric(r, Q) == Q[1] = Q[3] /\ Q[2] = Q[4] /\ r.H = r.W
ClausesTInterp(r) ==
    IF ~ TInterpWellFormed(r) THEN << Cl("record-well-formed", FALSE) >>
    ELSE IF ~ GeneralPosition(PtsOf(r.V)) THEN << Cl("input-in-general-position", FALSE) >>
    ELSE IF r.raised = "MeshException:voronoi" /\ Len(r.V) = 3 /\ r.cls = "Mesh2DVoronoi" THEN << >>   \* qhull needs four points
    ELSE IF r.raised # "" THEN << Cl("no-exception", FALSE) >>
    ELSE
    LET V == PtsOf(r.V)
        Q == IF r.extdef THEN SquareQ(ExtentOf(BBoxOf(V), 0)) ELSE r.Q
    IN
    IF ~ InterpShapeOk(r) THEN << Cl("output-has-the-requested-shape", FALSE) >>
    ELSE
    LET sy == 4 * (r.H - 1)  sx == 4 * (r.W - 1)
        Ws == ScaleV(V, sy, sx)
        T == DelTriangles(V)
        HE == HullEdges(V)
        Bary(o, t, p) == LET den == BaryDen(Ws, t) IN
                         InRange(o) /\ 2 * AbsV(o * den - r.G * BaryNum(Ws, r.vals, t, p)) <= den + 2
        Near(o, p) == \E k \in NearestVertices(Ws, p, sy, sx) : AbsV(o - r.G * r.vals[k]) <= 1
        PointOk(o, p) ==
            LET cont == {t \in T : InClosedTriangle(Ws, t, p)}
                onb == OnHullBoundary(Ws, HE, p)
            IN IF cont # {} /\ ~ onb THEN Bary(o, CHOOSE t \in cont : TRUE, p)
               ELSE IF r.cls # "Mesh2DDelaunay" THEN TRUE          \* griddata: nothing documented outside the hull
               ELSE IF cont # {} THEN Bary(o, CHOOSE t \in cont : TRUE, p) \/ Near(o, p)
               ELSE Near(o, p)
    IN
    << Cl("pixel-scales-are-the-spacing-of-the-output-points", r.ps = << Q[4] - Q[3], Q[2] - Q[1] >>),
       Cl("barycentric-in-the-empty-circle-triangle-nearest-vertex-outside-the-hull",
          \A a \in 0 .. r.H - 1 : \A c \in 0 .. r.W - 1 :
              PointOk(r.out[a + 1][c + 1], OutPoint(Q, r.H, r.W, a, c))) >>

ClausesTriArea(r) ==
    IF ~ (Len(r.pts) = 3 /\ IsPairs(r.pts)) THEN << Cl("record-well-formed", FALSE) >>
    ELSE << Cl("twice-the-area-is-the-absolute-orientation-determinant",
               r.out2 = Area2(Pt(r.pts[1]), Pt(r.pts[2]), Pt(r.pts[3]))) >>

-----------------------------------------------------------------------------
\* ---- signatures of the failing call site / input class (used to match known findings) ----
Sig(r) ==
    CASE r.api = "rnbr" -> "rectangular_neighbors:" \o (IF r.my = 1 \/ r.mx = 1 THEN "single-row-or-column" ELSE "at-least-2x2")
      [] r.api = "split" ->
            "split_cross:" \o r.cls \o
            (IF TriWellFormed(r) /\ Len(r.V) >= 4 /\ r.F >= 1 /\ r.sent >= 1 /\ GeneralPosition(PtsOf(r.V))
             THEN (IF SplitCaps(r).hull = 1 .. Len(r.V) THEN ":no-bounded-cell"
                   ELSE IF SplitCaps(r).lo10 <= 0 THEN ":percentile-cap-not-positive" ELSE ":cap-positive") ELSE ":malformed")
      [] r.api = "tinterp" ->
            r.cls \o ".interpolated_array_from:" \o
            (IF TInterpWellFormed(r) /\ ~ r.extdef /\ ExtentSymmetric(r, r.Q) THEN "extent-and-shape-symmetric-in-y-and-x"
             ELSE "extent-or-shape-not-symmetric-in-y-and-x")
      [] r.api = "tri" -> "tri:" \o r.cls
      [] OTHER -> r.api

Clauses(r) == CASE r.api = "overlay" -> ClausesOverlay(r)
                [] r.api = "rnbr" -> ClausesRNbr(r)
                [] r.api = "rinterp" -> ClausesRInterp(r)
                [] r.api = "tri" -> ClausesTri(r)
                [] r.api = "split" -> ClausesSplit(r)
                [] r.api = "tinterp" -> ClausesTInterp(r)
                [] r.api = "triarea" -> ClausesTriArea(r)
                [] OTHER -> << Cl("unknown-api", FALSE) >>
Want(r) == CASE r.api = "overlay" -> WantOverlay(r)
             [] r.api = "rnbr" -> WantRNbr(r)
             [] r.api = "tri" -> WantTri(r)
             [] r.api = "split" -> WantSplit(r)
             [] OTHER -> << >>
Failed(r) == SelectSeq(Clauses(r), LAMBDA c : ~ c.ok)

TraceInit == i = 1 /\ mesh = << >> /\ tab = << >>

TraceNext ==
    /\ i <= Len(Trace)
    /\ LET r == Trace[i]
           f == Failed(r)
       IN IF f = << >> THEN TRUE
          ELSE PrintT(ToJson([k |-> "reject", i |-> i, id |-> r.id,
                              clauses |-> [j \in DOMAIN f |-> f[j].n],
                              sig |-> Sig(r), want |-> Want(r)]))
    /\ i' = i + 1
    /\ UNCHANGED vars

TraceSpec == TraceInit /\ [][TraceNext]_<< vars, i >>
TraceAccepted == TLCGet("stats").diameter - 1 = Len(Trace)
=============================================================================
