------------------------- MODULE Trace_Translation -------------------------
(***************************************************************************)
(* Validation of recorded PAIRS of executions (same inputs at origin o and *)
(* at origin o + d) against the covariance relation of Translation.tla.    *)
(* A record carries, in ticks, the translation d and the element-wise      *)
(* difference delta = result(o+d) - result(o) (alpha rejects off-lattice   *)
(* differences with the sentinel 999999), the difference of the origins of *)
(* returned structures, and whether both executions returned the same      *)
(* shape / raised.                                                         *)
(***************************************************************************)
EXTENDS Translation, IOUtils

Trace == JsonDeserialize(IOEnv.TRACE_FILE)
VARIABLE i

Cl(nm, ok) == IF ok THEN << >> ELSE << nm >>

Clauses(r) ==
  IF r.raised0 # r.raised1 THEN << "same-outcome-at-both-origins" >>
  ELSE IF r.raised0 THEN << >>       \* both raise (e.g. footprint leaves the frame): origin independent
  ELSE IF ~ r.same_shape THEN << "same-shape-at-both-origins" >>
  ELSE CASE r.kind = "coord" ->
              Cl("coordinates-translate-by-d", \A k \in DOMAIN r.delta : r.delta[k] = << r.dy, r.dx >>)
              \o Cl("origin-of-result-translates-by-d", r.has_origin => r.origin_delta = << r.dy, r.dx >>)
         [] r.kind = "extent" ->
              Cl("extent-translates-by-d", r.delta = << << r.dx, r.dx >>, << r.dy, r.dy >> >>)
         [] r.kind = "invariant" ->
              Cl("index-count-weight-matrix-results-unchanged", \A k \in DOMAIN r.delta : r.delta[k] = 0)
              \o Cl("origin-of-result-translates-by-d", r.has_origin => r.origin_delta = << r.dy, r.dx >>)
         [] OTHER -> << "unknown-kind" >>

\* signature = the entry point and how the relation fails
Sig(r) == r.entry \o
          (IF r.raised0 \/ r.raised1 \/ ~ r.same_shape \/ r.kind # "coord" THEN ""
           ELSE IF \A k \in DOMAIN r.delta : r.delta[k] = << 0, 0 >> THEN ":origin-ignored"
           ELSE IF (\E k \in DOMAIN r.delta : r.delta[k][1] = 999999 \/ r.delta[k][2] = 999999) /\ r.max_dev <= 6
                THEN ":translated-only-approximately"    \* every point within 6 ticks (3/4 of the 8-tick pixel of the probe) of the exact shift
           ELSE ":wrong-shift")

TraceInit == /\ i = 1 /\ phase = "trace" /\ obs0 = << >> /\ obs1 = << >>
             /\ frame = [shape |-> <<1, 1>>, sy |-> 4, sx |-> 4, oy |-> 0, ox |-> 0, dy |-> 0, dx |-> 0, n |-> 1]
TraceNext ==
  /\ i <= Len(Trace)
  /\ LET r == Trace[i] f == Clauses(r) IN
       IF f = << >> THEN TRUE
       ELSE PrintT(ToJson([k |-> "reject", i |-> i, id |-> r.id, clauses |-> f, sig |-> Sig(r), want |-> << r.dy, r.dx >>]))
  /\ i' = i + 1
  /\ UNCHANGED vars
TraceSpec == TraceInit /\ [][TraceNext]_<< vars, i >>
TraceAccepted == TLCGet("stats").diameter - 1 = Len(Trace)
=============================================================================
