--------------------------- MODULE Trace_NormalEq ---------------------------
(***************************************************************************)
(* Validation of recorded inversions against NormalEq.tla.  A record is    *)
(* one inversion (one formalism) on one dataset: the instance in the       *)
(* integer units of NormalEq.tla with the mapping matrices AS REPORTED BY  *)
(* THE IMPLEMENTATION, plus the abstracted operated mapping matrix, data   *)
(* vector and curvature matrix ("run" records), or the fixed-point         *)
(* reconstructions / mapped data of the two formalisms ("pair" records).   *)
(***************************************************************************)
EXTENDS NormalEq

Trace == JsonDeserialize(IOEnv.TRACE_FILE)
VARIABLE i

Abs(x) == IF x < 0 THEN -x ELSE x
Cl(nm, ok) == IF ok THEN << >> ELSE << nm >>

IsMatrix(m, rows, cols) == Len(m) = rows /\ \A a \in 1 .. rows : Len(m[a]) = cols

RunClauses(r) ==
  IF r.raised THEN << "no-exception" >>
  ELSE LET T == Total(r)
           b == BMat(r)
       IN IF ~ (IsMatrix(r.Bm, r.n, T) /\ Len(r.D) = T /\ IsMatrix(r.F, T, T)) THEN << "malformed-result" >>
          ELSE Cl("operated-mapping-matrix-is-columnwise-blur", r.Bm = b)
               \o Cl("data-vector-is-Bt-Ninv-d", r.D = DVec(r, b))
               \o Cl("curvature-matrix-is-Bt-Ninv-B-plus-diagonal-term", r.F = FMat(r, b))
               \o Cl("curvature-matrix-symmetric", \A a, c \in 1 .. T : r.F[a][c] = r.F[c][a])

\* the two formalisms give the same reconstruction and mapped reconstructed data to numerical precision
PairClauses(r) ==
  IF r.raised THEN << "no-exception" >>
  ELSE Cl("same-reconstruction", Len(r.sig_m) = Len(r.sig_w) /\ \A k \in DOMAIN r.sig_m : Abs(r.sig_m[k] - r.sig_w[k]) <= r.tol)
       \o Cl("same-mapped-reconstructed-data", Len(r.map_m) = Len(r.map_w) /\ \A k \in DOMAIN r.map_m : Abs(r.map_m[k] - r.map_w[k]) <= r.tol)

\* Delaunay (interpolating) mappers: the mapping matrix has irrational-free but instance-dependent denominators, so D and F
\* are compared BETWEEN the formalisms in fixed point (the mapping formalism is the definition B'WB evaluated directly)
IsVec(v, n) == Len(v) = n
DFClauses(r) ==
  IF r.raised THEN << "no-exception" >>
  ELSE Cl("same-data-vector", Len(r.D_m) = Len(r.D_w) /\ \A k \in DOMAIN r.D_m : Abs(r.D_m[k] - r.D_w[k]) <= r.tol)
       \o Cl("same-curvature-matrix",
              Len(r.F_m) = Len(r.F_w) /\ \A a \in DOMAIN r.F_m : Len(r.F_m[a]) = Len(r.F_w[a])
                 /\ \A c \in DOMAIN r.F_m[a] : Abs(r.F_m[a][c] - r.F_w[a][c]) <= r.tol)
       \o Cl("curvature-matrix-symmetric", \A a \in DOMAIN r.F_w : \A c \in DOMAIN r.F_w : Abs(r.F_w[a][c] - r.F_w[c][a]) <= r.tol)
       \o PairClauses(r)

Clauses(r) == IF r.api = "run" THEN RunClauses(r) ELSE IF r.api = "pair" THEN PairClauses(r)
              ELSE IF r.api = "pairdf" THEN DFClauses(r) ELSE << "unknown-api" >>

\* signature: formalism and the input classes that matter for it
HasNeg(m) == \E a \in DOMAIN m : \E c \in DOMAIN m[a] : m[a][c] < 0
Sig(r) == r.formalism
          \o (IF r.kh # r.kw THEN ":KernelNotSquare" ELSE "")
          \o (IF HasNeg(r.K) THEN ":SignedKernel" ELSE "")
          \o (IF \E o \in DOMAIN r.objs : HasNeg(r.objs[o].M) THEN ":SignedMappingMatrix" ELSE "")

Want(r) == IF r.api = "run" /\ ~ r.raised
           THEN LET b == BMat(r) IN [D |-> DVec(r, b), F |-> FMat(r, b)]
           ELSE << >>

TraceInit == i = 1 /\ inst = 1 /\ phase = "trace" /\ B = << >> /\ D = << >> /\ F = << >>
TraceNext ==
  /\ i <= Len(Trace)
  /\ LET r == Trace[i] f == Clauses(r) IN
       IF f = << >> THEN TRUE
       ELSE PrintT(ToJson([k |-> "reject", i |-> i, id |-> r.id, clauses |-> f, sig |-> Sig(r), want |-> Want(r)]))
  /\ i' = i + 1
  /\ UNCHANGED vars
TraceSpec == TraceInit /\ [][TraceNext]_<< vars, i >>
TraceAccepted == TLCGet("stats").diameter - 1 = Len(Trace)
=============================================================================
