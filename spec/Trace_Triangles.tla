-------------------------- MODULE Trace_Triangles --------------------------
(***************************************************************************)
(* Validation of recorded executions of the real triangle classes          *)
(* (CoordinateArrayTriangles, ArrayTriangles, shapes) against the meaning  *)
(* layer of Triangles.tla.  One record per public call; every record is    *)
(* judged (total verdicts) with named clauses.                             *)
(*                                                                         *)
(* Record fields (all coordinates are integers in the fine units of the    *)
(* record's instance, produced by a rejecting abstraction: `off` counts    *)
(* the values that were not within the stated tolerance of the lattice):   *)
(*   p, id, api, rep ("coord" | "array"), src ("coords" | "limits" |       *)
(*   "free" | "distorted"), lat (equilateral lattice instance), off,       *)
(*   exact (nbr: all vertex arithmetic of the instance is exact)           *)
(*   construct: c, fl, w, xo, yo, tris, tris_arr, tris_vi, n, area2,       *)
(*              mv, mi (given vertices / 0-based index triples, or empty)  *)
(*   dt: representation of the vertex array given (f64, i64, i32, f32)    *)
(*   up / nbr / sel: pre, post, post_arr, n_pre, n_post, area2_pre,        *)
(*                   area2_post, idx (0-based, sel only)                   *)
(*   contain: tris, shapes, reported (0-based index lists, one per shape)  *)
(***************************************************************************)
EXTENDS Triangles, IOUtils

Trace == JsonDeserialize(IOEnv.TRACE_FILE)

VARIABLE i

Cl(n, b) == [n |-> n, ok |-> b]

IsPoint(p) == Len(p) = 2
IsTriSeq(T) == \A k \in DOMAIN T : Len(T[k]) = 3 /\ \A j \in 1 .. 3 : IsPoint(T[k][j])
Plus1(s) == [k \in DOMAIN s |-> s[k] + 1]

\* the reported `.area` (as twice the area in fine units; -2 = not an integer within tolerance) and len()
Measures(n, a2, T) == n = Len(T) /\ a2 = TotalArea2(T)

ShapeOK(s) == CASE s.kind \in {"point"} -> Len(s.p) = 2
                [] s.kind = "circle" -> Len(s.p) = 3
                [] s.kind = "square" -> Len(s.p) = 4
                [] s.kind \in {"polygon", "triangle"} -> Len(s.vs) >= 3 /\ \A k \in DOMAIN s.vs : IsPoint(s.vs[k])
                [] OTHER -> FALSE

Clauses(r) ==
    CASE r.api = "construct" ->
           IF ~ (IsTriSeq(r.tris) /\ IsTriSeq(r.tris_arr) /\ IsTriSeq(r.tris_vi)) THEN << Cl("well-formed", FALSE) >>
           ELSE
           << Cl("on-lattice", r.off = 0),
              \* integer-coordinate representation: triangle k is the lattice triangle of coordinate k
              Cl("coordinate-form-is-lattice-triangle",
                 r.rep = "coord" => Geo(r.tris) = Geo(TrisOf(r.c, r.fl, r.w, r.xo, r.yo))),
              \* vertex-array representation built from given vertices mv and (0-based) index triples mi, directly,
              \* through with_vertices or through for_indexes: its triangles are the given vertices at the given indices
              Cl("array-form-is-the-given-vertices-at-the-given-indices",
                 r.mi # << >> => /\ \A k \in DOMAIN r.mi : Len(r.mi[k]) = 3 /\ \A j \in 1 .. 3 : r.mi[k][j] + 1 \in DOMAIN r.mv
                                /\ SameBag(r.tris, FromVI(r.mv, [k \in DOMAIN r.mi |-> Plus1(r.mi[k])]))),
              Cl("representations-agree", SameBag(r.tris, r.tris_arr) /\ SameBag(r.tris, r.tris_vi)),
              Cl("len-and-area-are-geometric", Measures(r.n, r.area2, r.tris)) >>
      [] r.api = "up" ->
           IF ~ (IsTriSeq(r.pre) /\ IsTriSeq(r.post) /\ IsTriSeq(r.post_arr)) THEN << Cl("well-formed", FALSE) >>
           ELSE
           << Cl("on-lattice", r.off = 0),
              Cl("count-quadruples", r.n_post = 4 * r.n_pre /\ Len(r.post) = 4 * Len(r.pre)),
              Cl("area-conserved", r.area2_post = r.area2_pre /\ TotalArea2(r.post) = TotalArea2(r.pre)),
              Cl("four-quarter-triangles-tile-each-parent-and-keep-its-vertices", UpSampled(r.pre, r.post)),
              Cl("representations-agree", SameBag(r.post, r.post_arr)),
              Cl("len-and-area-are-geometric",
                 Measures(r.n_pre, r.area2_pre, r.pre) /\ Measures(r.n_post, r.area2_post, r.post)) >>
      [] r.api = "nbr" ->
           IF ~ (IsTriSeq(r.pre) /\ IsTriSeq(r.post) /\ IsTriSeq(r.post_arr)) THEN << Cl("well-formed", FALSE) >>
           ELSE
           << Cl("on-lattice", r.off = 0),
              \* on an equilateral lattice instance the neighbour across an edge (half-turn about its midpoint) is the
              \* mirror image in that edge; on an irregular vertex array only the half-turn is meaningful
              Cl("lattice-input-is-equilateral-and-reflection-is-mirror-image",
                 r.lat => \A k \in DOMAIN r.pre : /\ Equilateral(r.pre[k])
                                                   /\ \A j \in 1 .. 3 : IsEdgeReflection(Across(r.pre[k], j), r.pre[k], j)),
              Cl("input-triangles-non-degenerate", \A k \in DOMAIN r.pre : Area2(r.pre[k]) > 0),
              Cl("originals-and-three-edge-reflections-and-nothing-else", Neighbourhood(r.pre, r.post)),
              \* count: with exact arithmetic (r.exact) every neighbour triangle appears once
              Cl("every-neighbour-once", r.exact => NoNeighbourTwice(r.pre, r.post)),
              Cl("representations-agree", SameBag(r.post, r.post_arr)),
              Cl("len-and-area-are-geometric", Measures(r.n_post, r.area2_post, r.post)) >>
      [] r.api = "sel" ->
           IF ~ (IsTriSeq(r.pre) /\ IsTriSeq(r.post) /\ IsTriSeq(r.post_arr)) THEN << Cl("well-formed", FALSE) >>
           ELSE
           << Cl("on-lattice", r.off = 0),
              Cl("selected-triangles-geometrically-identical", Selection(r.pre, Plus1(r.idx), r.post)),
              Cl("representations-agree", SameBag(r.post, r.post_arr)),
              Cl("len-and-area-are-geometric", Measures(r.n_post, r.area2_post, r.post)) >>
      [] r.api = "contain" ->
           IF ~ (IsTriSeq(r.tris) /\ Len(r.reported) = Len(r.shapes) /\ \A q \in DOMAIN r.shapes : ShapeOK(r.shapes[q]))
           THEN << Cl("well-formed", FALSE) >>
           ELSE
           << Cl("on-lattice", r.off = 0),
              Cl("reference-point-inside-implies-reported",
                 \A q \in DOMAIN r.shapes : ContainsOK(r.shapes[q], r.tris, ToSet(Plus1(r.reported[q])))) >>
      [] OTHER -> << Cl("unknown-api", FALSE) >>

Want(r) ==
    CASE r.api = "construct" -> IF r.rep = "coord" THEN TrisOf(r.c, r.fl, r.w, r.xo, r.yo) ELSE << >>
      [] r.api = "up" -> IF IsTriSeq(r.pre) /\ \A k \in DOMAIN r.pre : Halvable(r.pre[k])
                         THEN [n |-> 4 * Len(r.pre), area2 |-> TotalArea2(r.pre), e_g |-> ChildrenAll(r.pre)]
                         ELSE [n |-> 4 * Len(r.pre)]
      [] r.api = "nbr" -> IF IsTriSeq(r.pre) THEN [n |-> Cardinality(NbrSet(r.pre)), missing |-> NbrSet(r.pre) \ ToSet(Geo(r.post)),
                                                   extra |-> ToSet(Geo(r.post)) \ NbrSet(r.pre)]
                          ELSE << >>
      [] r.api = "sel" -> IF IsTriSeq(r.pre) /\ \A k \in DOMAIN r.idx : r.idx[k] + 1 \in DOMAIN r.pre
                          THEN Selected(r.pre, Plus1(r.idx)) ELSE << >>
      [] r.api = "contain" -> IF IsTriSeq(r.tris) /\ \A q \in DOMAIN r.shapes : ShapeOK(r.shapes[q])
                              THEN [q \in DOMAIN r.shapes |-> { k - 1 : k \in MustReport(r.shapes[q], r.tris) }]
                              ELSE << >>
      [] OTHER -> << >>

\* signature of the failing call site and input class (used to match known findings)
\* (r.dt: representation of the vertex array given to the implementation: f64, i64, i32, f32)
Sig(r) == r.api \o "/" \o r.rep \o "/" \o r.src \o (IF r.dt = "f64" THEN "" ELSE "/" \o r.dt)

Failed(r) == SelectSeq(Clauses(r), LAMBDA c : ~ c.ok)

TraceInit == /\ i = 1
             /\ coords = << >> /\ flipped = FALSE /\ level = 0 /\ yoff = 0
             /\ last = "trace" /\ prev = << >> /\ path = << >> /\ init = << >> /\ free = << >>

TraceNext ==
    /\ i <= Len(Trace)
    /\ LET r == Trace[i]
           f == Failed(r)
       IN IF f = << >> THEN TRUE
          ELSE PrintT(ToJson([k |-> "reject", i |-> i, id |-> r.id,
                              clauses |-> [j \in DOMAIN f |-> f[j].n],
                              sig |-> Sig(r), want |-> Want(r)]))
    /\ i' = i + 1
    /\ UNCHANGED vars

TraceSpec == TraceInit /\ [][TraceNext]_<< vars, i >>
TraceAccepted == TLCGet("stats").diameter - 1 = Len(Trace)
=============================================================================
