----------------------------- MODULE ZoomHistory -----------------------------
(***************************************************************************)
(* C14, histories: "zooming around a mask returns a window containing      *)
(* every unmasked pixel with its value" must hold for the mask AS IT IS    *)
(* when the zoom is made, whatever was done with the mask object before.   *)
(*                                                                         *)
(* A Mask2D object lives on: it is zoomed around (through an Array2D built *)
(* on it), edited in place (mask[y,x] = False / True), its zoom region is  *)
(* read, it is zoomed around again.  This module adds that history to      *)
(* Resize.tla (whose zoom operators it reuses): a machine over ONE mask    *)
(* object, the rule an implementation must obey if it remembers the zoom   *)
(* region (forget it on every edit), and the fold operator with which      *)
(* Trace_Resize judges every zoom of a recorded history against the mask   *)
(* current at that time.                                                   *)
(***************************************************************************)
EXTENDS Resize

CONSTANTS HistFrames,   \* <<H,W,depth>>: frames whose every mask starts histories of `depth` steps on one mask object
          HistBuffers,  \* buffers of the zooms inside a history
          HistReads     \* BOOLEAN: histories may also just read the zoom region (mask.zoom_shape_native)

-----------------------------------------------------------------------------
(* Layer 1: meaning *)

\* A step is  [op |-> "zoom", b |-> buffer]  /  [op |-> "edit", cell |-> linear index, val |-> 0 (unmask) or 1 (mask)]  /
\* [op |-> "read"]  (all steps carry all four fields so that a log is a homogeneous sequence).
HStep(op, cell, val, b) == [op |-> op, cell |-> cell, val |-> val, b |-> b]
ApplyEdit(cur, e, W) == IF e.val = 0 THEN cur \cup {CellOf(e.cell, W)} ELSE cur \ {CellOf(e.cell, W)}
\* the unmasked set after the first k steps of a history that started from U0
RECURSIVE MaskAfter(_, _, _, _)
MaskAfter(U0, steps, k, W) ==
    IF k = 0 THEN U0
    ELSE LET m == MaskAfter(U0, steps, k - 1, W)
         IN IF steps[k].op = "edit" THEN ApplyEdit(m, steps[k], W) ELSE m
\* what a zoom at step k of a history must be: a valid zoom window (Resize!ValidZoom) of the mask just before that step
ValidZoomAtStep(src, H, W, U0, steps, k, H2, W2, b) ==
    ValidZoom(src, H, W, MaskAfter(U0, steps, k - 1, W), H2, W2, b)

-----------------------------------------------------------------------------
(* Layer 2: the history machine  Zoom / EditMask / Zoom ...  on one mask object.                              *)
(* It reuses the variables of Resize.tla:                                                                    *)
(*   inst       frame h x w, the mask u the object starts with, the number of steps (field b)                *)
(*   obs.cur    the unmasked set of the mask object now                                                      *)
(*   obs.cache  the zoom region the object remembers (NoRegion if none).  An implementation MAY remember it, *)
(*              provided every in-place edit forgets it -- HistoryCacheIsCoherent is that design rule        *)
(*   obs.log    the steps so far;  obs.win / obs.shape  the window returned by the last step if it was a zoom*)

HistInst(s, u) ==
    [Blank EXCEPT !.kind = "history", !.h = s[1], !.w = s[2], !.u = u, !.b = s[3]]
NoRegion == << >>
RegionNow(o) == IF o.cache = NoRegion THEN CodeZoomRegion(o.cur) ELSE o.cache

HInit == /\ \E s \in HistFrames : \E u \in (SUBSET Cells(s[1], s[2])) \ {{}} : inst = HistInst(s, u)
         /\ phase = "history"
         /\ obs = [cur |-> inst.u, cache |-> NoRegion, log |-> << >>, win |-> << >>, shape |-> << 0, 0 >>]

\* Array2D(values, mask).zoomed_around_mask(buffer=b) with the mask object as it is now; always possible as last step
HZoom ==
    /\ Len(obs.log) < inst.b
    /\ \E b \in HistBuffers :
          LET r == RegionNow(obs)
              shp == << r[2] - r[1] + 2*b, r[4] - r[3] + 2*b >>
              log2 == Append(obs.log, HStep("zoom", 0, 0, b))
          IN /\ obs' = [obs EXCEPT !.cache = r, !.log = log2, !.shape = shp,
                                   !.win = WindowSrc(inst.h, inst.w, obs.cur, shp[1], shp[2], r[1] - b, r[3] - b)]
             \* complete histories (they contain every shorter one as a prefix) are handed to the replayer
             /\ (Len(log2) = inst.b) =>
                    PrintT(ToJson([k |-> "hist", h |-> inst.h, w |-> inst.w,
                                   u |-> LinSeq(inst.u, inst.h, inst.w), steps |-> log2]))
    /\ UNCHANGED << inst, phase >>

\* mask.zoom_shape_native: reads (and may remember) the region, returns no window
HRead ==
    /\ HistReads
    /\ Len(obs.log) < inst.b - 1
    /\ obs' = [obs EXCEPT !.cache = RegionNow(obs), !.log = Append(obs.log, HStep("read", 0, 0, 0)), !.win = << >>]
    /\ UNCHANGED << inst, phase >>

\* mask[y, x] = False / True in place (the mask must stay non-empty); whatever was remembered is forgotten
HEdit ==
    /\ Len(obs.log) < inst.b - 1
    /\ \E c \in Cells(inst.h, inst.w) :
          LET e == HStep("edit", Lin(c, inst.w), IF c \in obs.cur THEN 1 ELSE 0, 0)
              new == ApplyEdit(obs.cur, e, inst.w)
          IN /\ new # {}
             /\ obs' = [obs EXCEPT !.cur = new, !.cache = NoRegion, !.log = Append(obs.log, e), !.win = << >>]
    /\ UNCHANGED << inst, phase >>

HNext == HZoom \/ HRead \/ HEdit
HSpec == HInit /\ [][HNext]_vars

-----------------------------------------------------------------------------
(* Layer 3: properties *)

\* the machine's current mask is the fold of the logged edits (the operator the trace specification uses)
HistoryMaskIsTheFoldOfItsEdits ==
    obs.cur = MaskAfter(inst.u, obs.log, Len(obs.log), inst.w)
\* a remembered region is always the region of the CURRENT mask (true because every edit forgets it)
HistoryCacheIsCoherent ==
    obs.cache # NoRegion => obs.cache = CodeZoomRegion(obs.cur)
\* every zoom of every history is a valid zoom window of the mask current at that time
EveryZoomOfAHistoryShowsTheCurrentMask ==
    obs.win # << >> =>
        LET n == Len(obs.log)
        IN /\ obs.log[n].op = "zoom"
           /\ ValidZoom(obs.win, inst.h, inst.w, obs.cur, obs.shape[1], obs.shape[2], obs.log[n].b)
           /\ ValidZoomAtStep(obs.win, inst.h, inst.w, inst.u, obs.log, n, obs.shape[1], obs.shape[2], obs.log[n].b)
\* the mask never becomes empty
HistoryMaskNeverEmpty == obs.cur # {}
=============================================================================
