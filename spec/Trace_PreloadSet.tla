--------------------------- MODULE Trace_PreloadSet ---------------------------
(***************************************************************************)
(* Validation of recorded calls on real aa.Preloads objects against        *)
(* PreloadSet.tla.  Every record carries the abstract fits of the call,    *)
(* the alpha-abstraction of all slots before and after it ("none", "z",    *)
(* "true"/"false", <id><shape>[x<count>], or "?" for anything else), the   *)
(* slots a NEW object shows after the same single call, the parsed info    *)
(* lines and whether the call raised.  Records of kind                     *)
(*   new    a Preloads object was constructed                              *)
(*   set    one set_X(fit_0, fit_1) call                                   *)
(*   check  one check_via_fit call (d4 = difference of the figures of      *)
(*          merit in quarters of the configured threshold)                 *)
(*   use    a third REAL fit used the slots (outputs compared with a fit   *)
(*          without preloads)                                              *)
(* are judged one by one; the judgement is total and names its clauses.    *)
(***************************************************************************)
EXTENDS PreloadSet, IOUtils

Trace == JsonDeserialize(IOEnv.TRACE_FILE)
VARIABLE i

Cl(nm, ok) == IF ok THEN << >> ELSE << nm >>
Has(r, keys) == keys \subseteq DOMAIN r
SlotRec(m) == AllSlotSet \subseteq DOMAIN m
FitOk(f) == /\ Has(f, { "inv", "nm", "nf", "sh", "c" })
            /\ f.inv \in BOOLEAN /\ f.nm \in 0 .. 9 /\ f.nf \in 0 .. 9 /\ f.sh \in 0 .. 9
            /\ Quantities \subseteq DOMAIN f.c
Tag(r) == IF Has(r, { "src", "tag" }) /\ r.src = "real" THEN ":" \o r.tag ELSE ""

-----------------------------------------------------------------------------
(* set_X *)

WellFormedSet(r) == /\ Has(r, { "x", "f0", "f1", "pre", "post", "fresh", "raised", "info", "cont", "near" })
                    /\ r.x \in SetterSet
                    /\ FitOk(r.f0) /\ FitOk(r.f1)
                    /\ SlotRec(r.pre) /\ SlotRec(r.post)
                    /\ ToSet(SlotsOf(r.x)) \subseteq DOMAIN r.fresh

\* the kind of pair, named from the make-up of the two fits (used in signatures of raised calls)
PairClass(x, f0, f1) ==
  IF ~ f0.inv THEN "first-fit-without-inversion"
  ELSE IF x # "O" /\ x # "C" /\ f0.nm = 0 THEN "first-fit-without-mapper"
  ELSE IF x = "W" /\ f0.sh # f1.sh THEN "shapes-differ"          \* the noise maps are all that this setter compares
  ELSE IF ~ f1.inv THEN "second-fit-without-inversion"
  ELSE IF x = "C" /\ f0.nm = 0 THEN "first-fit-without-mapper"
  ELSE IF x # "O" /\ f1.nm = 0 THEN "second-fit-without-mapper"
  ELSE IF x = "L" /\ f0.nf = 0 THEN "first-fit-without-linear-func"
  ELSE IF x = "L" /\ f1.nf = 0 THEN "second-fit-without-linear-func"
  ELSE IF f0.sh # f1.sh THEN "shapes-differ"
  ELSE IF f0.nm # f1.nm \/ f0.nf # f1.nf THEN "object-counts-differ"
  ELSE "same-make-up"

\* per-slot verdicts of the called setter's own slots
Unrecognised(r, s) == r.post[s] = "?"
\* the flag says "use the w-tilde formalism": True with a filled slot; False (or undecided, None) with an empty one
FlagBad(r, s) == s = "use_w_tilde" /\ (IF r.post["w_tilde"] # None THEN r.post[s] # "true" ELSE r.post[s] \notin { "false", None })
Unagreed(r, s) == s # "use_w_tilde" /\ r.post[s] # None /\ ~ Agreed(s, r.f0, r.f1)
WrongValue(r, s) == s # "use_w_tilde" /\ r.post[s] # None /\ r.post[s] # Val(r.f0, s)
NotFilled(r, s) == ~ r.raised /\ s \in MustFill(r.x, r.f0, r.f1) /\ r.post[s] # Val(r.f0, s)
HistoryDependent(r, s) == r.post[s] # r.fresh[s]
SlotBad(r, s) == Unrecognised(r, s) \/ FlagBad(r, s) \/ Unagreed(r, s) \/ WrongValue(r, s) \/ NotFilled(r, s)
                 \/ HistoryDependent(r, s)
SlotClass(r, s) ==
  IF Unrecognised(r, s) THEN "unrecognised"
  ELSE IF FlagBad(r, s) THEN "flag"
  ELSE IF r.post[s] # None /\ HistoryDependent(r, s) /\ r.post[s] = r.pre[s] THEN "stale"
  ELSE IF Unagreed(r, s) THEN "unagreed-" \o (IF Val(r.f0, s) = None THEN "absent-in-first-fit"
                                              ELSE IF Val(r.f1, s) = None THEN "absent-in-second-fit" ELSE "differs")
  ELSE IF WrongValue(r, s) THEN "wrong-value"
  ELSE IF NotFilled(r, s) THEN "not-filled"
  ELSE "history-dependent"

Touched(r) == SelectSeq(AllSlots, LAMBDA s : s \notin ToSet(SlotsOf(r.x)) /\ r.post[s] # r.pre[s])
InfoOk(r) == r.info = InfoOf(r.post)
Continuous(r) == r.cont => \A s \in AllSlotSet : r.pre[s] = slots[s]

\* one finding per offending slot (so that a known finding about one slot never hides a new one about another)
Item(r, what, cls, tagged) == [ sig |-> Name(r.x) \o ":" \o what \o (IF tagged THEN Tag(r) ELSE ""), clauses |-> cls ]
SlotItem(r, s) ==
  Item(r, s \o ":" \o SlotClass(r, s),
       Cl("slot-values-recognised", ~ Unrecognised(r, s))
       \o Cl("use-w-tilde-flag-consistent", ~ FlagBad(r, s))
       \o Cl("slot-only-if-agreed", ~ Unagreed(r, s))
       \o Cl("no-stale-slot", ~ WrongValue(r, s))
       \o Cl("filled-when-documented", ~ NotFilled(r, s))
       \o Cl("same-as-single-call-on-new-object", ~ HistoryDependent(r, s)), FALSE)
SetItems(r) ==
  LET bad == SelectSeq(SlotsOf(r.x), LAMBDA s : SlotBad(r, s))
      unrec == SelectSeq(OtherSlots, LAMBDA s : r.post[s] = "?")
  IN (IF r.raised THEN << Item(r, "raises:" \o PairClass(r.x, r.f0, r.f1), << "no-exception" >>, TRUE) >> ELSE << >>)
     \o [ k \in DOMAIN bad |-> SlotItem(r, bad[k]) ]
     \o [ k \in DOMAIN Touched(r) |-> Item(r, Touched(r)[k] \o ":touched", << "other-slots-untouched" >>, FALSE) ]
     \o [ k \in DOMAIN unrec |-> Item(r, unrec[k] \o ":unrecognised", << "slot-values-recognised" >>, FALSE) ]
     \o (IF InfoOk(r) THEN << >> ELSE << Item(r, "info:mismatch", << "info-lists-filled-slots" >>, FALSE) >>)
     \o (IF Continuous(r) THEN << >> ELSE << Item(r, "harness:continuity", << "pre-state-is-previous-post-state" >>, FALSE) >>)
     \o (IF ~ r.near THEN << >> ELSE << Item(r, "harness:near-equal-quantities", << "quantities-equal-or-well-separated" >>, FALSE) >>)

SetWant(r) == [ allowed |-> [ s \in ToSet(SlotsOf(r.x)) |->
                               IF s = "use_w_tilde" THEN "true iff w_tilde is filled"
                               ELSE IF Agreed(s, r.f0, r.f1) THEN "none or " \o Val(r.f0, s) ELSE "none" ],
                must_fill |-> MustFill(r.x, r.f0, r.f1) ]

-----------------------------------------------------------------------------
(* constructor *)
WellFormedNew(r) == Has(r, { "prefill", "post", "info" }) /\ SlotRec(r.post) /\ r.prefill \in { "none", "z" }
NewClauses(r) == Cl("constructor-holds-what-it-was-given", \A s \in AllSlotSet : r.post[s] = Fresh(r.prefill)[s])
                 \o Cl("info-lists-filled-slots", r.info = InfoOf(r.post))
NewSig(r) == "Preloads:" \o (IF r.info # InfoOf(r.post) THEN "info:mismatch" ELSE "constructor")

-----------------------------------------------------------------------------
(* check_via_fit *)
WellFormedCheck(r) == /\ Has(r, { "c", "raised", "exc", "pre", "post", "near" })
                      /\ Has(r.c, { "fomexc", "d4", "dvbig", "crmbig" })
                      /\ r.c.d4 \in -1000 .. 1000
                      /\ SlotRec(r.pre) /\ SlotRec(r.post)
CheckClauses(r) ==
  Cl("difference-well-separated-from-threshold", ~ r.near)
  \o Cl("raises-exactly-when-beyond-threshold", r.near \/ (r.raised = CheckMustRaise(r.c)))
  \o Cl("raises-PreloadsException", r.raised => r.exc = "PreloadsException")
  \o Cl("slots-untouched", \A s \in AllSlotSet : r.post[s] = r.pre[s])
CheckSig(r) ==
  "check_via_fit:"
  \o (IF r.c.fomexc THEN "figure-of-merit-raises"
      ELSE IF r.c.d4 > 4 \/ r.c.d4 < -4 THEN "beyond-threshold"
      ELSE IF r.c.d4 = 4 \/ r.c.d4 = -4 THEN "at-threshold" ELSE "within-threshold")
  \o ":" \o (IF r.raised THEN "raised-" \o r.exc ELSE "silent") \o Tag(r)

-----------------------------------------------------------------------------
(* a third real fit uses the slots that the seven setters left after one pair *)
OutNames == << "figure_of_merit", "reconstruction", "data_vector", "curvature_reg_matrix", "mapped_reconstructed_data" >>
WellFormedUse(r) == /\ Has(r, { "f0", "f1", "f2", "post", "out", "raised" })
                    /\ FitOk(r.f0) /\ FitOk(r.f1) /\ FitOk(r.f2) /\ SlotRec(r.post)
                    /\ ToSet(OutNames) \subseteq DOMAIN r.out
SoundlyFilled(r) == \A s \in ToSet(OwnSlots) \ { "use_w_tilde" } :
                       r.post[s] # None => (Agreed(s, r.f0, r.f1) /\ r.post[s] = Val(r.f0, s))
Shares(r) == \A x \in SetterSet : SharesAgreed(r.f2, x, r.f0, r.f1)
Differing(r) == SelectSeq(OutNames, LAMBDA o : r.out[o] # "same")
UseClauses(r) ==
  Cl("no-exception", ~ r.raised)
  \o Cl("third-fit-shares-the-agreed-quantities", Shares(r))
  \o Cl("using-agreed-slots-is-invisible", (SoundlyFilled(r) /\ Shares(r) /\ ~ r.raised) => Differing(r) = << >>)
UseSig(r) == "use:" \o (IF r.raised THEN "raises" ELSE IF ~ Shares(r) THEN "harness-third-fit" ELSE "outputs-differ") \o Tag(r)

-----------------------------------------------------------------------------
One(sig, cls) == << [ sig |-> sig, clauses |-> cls ] >>
Judge(r) ==
  LET kind == IF Has(r, { "a" }) THEN r.a ELSE "?"
      wf == CASE kind = "set" -> WellFormedSet(r) [] kind = "new" -> WellFormedNew(r)
              [] kind = "check" -> WellFormedCheck(r) [] kind = "use" -> WellFormedUse(r) [] OTHER -> FALSE
      items == IF ~ wf THEN One("harness:malformed-record", << "record-well-formed" >>)
               ELSE CASE kind = "set" -> SetItems(r)
                      [] kind = "new" -> IF NewClauses(r) = << >> THEN << >> ELSE One(NewSig(r), NewClauses(r))
                      [] kind = "check" -> IF CheckClauses(r) = << >> THEN << >> ELSE One(CheckSig(r), CheckClauses(r))
                      [] OTHER -> IF UseClauses(r) = << >> THEN << >> ELSE One(UseSig(r), UseClauses(r))
      want == IF wf /\ kind = "set" THEN SetWant(r) ELSE [ allowed |-> "see clauses" ]
  IN \A k \in DOMAIN items :
        PrintT(ToJson([ k |-> "reject", i |-> i, id |-> (IF Has(r, { "id" }) THEN r.id ELSE -1), clauses |-> items[k].clauses,
                        sig |-> items[k].sig, want |-> want ]))

TraceInit == /\ i = 1
             /\ slots = Fresh("none")
             /\ lastp = [ x \in SetterSet |-> NoPair ]
             /\ pre0 = "none" /\ ncalls = 0 /\ vis = FALSE /\ exc = FALSE /\ hist = << >>

TraceNext ==
  /\ i <= Len(Trace)
  /\ LET r == Trace[i] IN
       /\ Judge(r)
       /\ slots' = IF Has(r, { "post" }) /\ SlotRec(r.post) THEN [ s \in AllSlotSet |-> r.post[s] ] ELSE slots
  /\ i' = i + 1
  /\ UNCHANGED << lastp, pre0, ncalls, vis, exc, hist >>

TraceSpec == TraceInit /\ [][TraceNext]_<< vars, i >>
TraceAccepted == TLCGet("stats").diameter - 1 = Len(Trace)
=============================================================================
