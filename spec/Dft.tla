-------------------------------- MODULE Dft --------------------------------
(***************************************************************************)
(* The direct Fourier transform of PyAutoArray's interferometer module     *)
(* (C13), on the quarter-turn lattice.                                     *)
(*                                                                         *)
(* Statement modelled:                                                     *)
(*   V_k = sum_p I_p exp(-2 pi i (x_p u_k + y_p v_k)),                      *)
(*   (y_p, x_p) the unmasked pixel centres, in slim (row-major) order;     *)
(*   the transformed mapping matrix is this operator applied to every      *)
(*   column of a real matrix of ANY sign; the image returned from          *)
(*   visibilities is the real part of the conjugate-transpose operator;    *)
(*   D and F are the noise-weighted real-plus-imaginary Gram products.     *)
(*                                                                         *)
(* Exact domain.  Pixel centres are measured in HALF pixels (y2, x2), a     *)
(* baseline is a pair of integer multipliers <<au, av>> of 1/(4 pixel)     *)
(* (in wavelengths), so that the phase x u + y v equals                    *)
(* (x2 au + y2 av)/8 turns.  An instance is ON THE LATTICE when            *)
(* x2 au + y2 av is even for every pixel and baseline; the phase factor is *)
(* then (-i)^n with n = (x2 au + y2 av)/2 and every quantity below is a     *)
(* Gaussian integer <<re, im>>.                                            *)
(***************************************************************************)
EXTENDS Integers, Sequences, FiniteSets, TLC, Json

CONSTANTS Shapes,    \* set of <<H,W>> explored by the bounded machine
          Origins,   \* set of mask origins <<oy2, ox2>> in half pixels
          Mult,      \* set of baseline multipliers
          MaxB,      \* baseline sequences of length 1..MaxB
          MaskMode,  \* "all" | "ends" | "few" | "two": which masks of the shapes with more than 3 cells
          Rich       \* BOOLEAN: larger input families per transformer

-----------------------------------------------------------------------------
(* Layer 1: meaning *)

\* ---- Gaussian integers ----------------------------------------------------
GZero == << 0, 0 >>
GOne == << 1, 0 >>
MinusI == << 0, -1 >>
GAdd(a, b) == << a[1] + b[1], a[2] + b[2] >>
GMul(a, b) == << a[1] * b[1] - a[2] * b[2], a[1] * b[2] + a[2] * b[1] >>
GConj(a) == << a[1], -a[2] >>
GScale(n, a) == << n * a[1], n * a[2] >>
GNeg(a) == << -a[1], -a[2] >>

RECURSIVE GPowNat(_, _)
GPowNat(a, n) == IF n = 0 THEN GOne ELSE GMul(a, GPowNat(a, n - 1))
\* exp(-2 pi i n / 4) = (-i)^n for any integer n: cosine and sine of n quarter turns clockwise
\* (period 4; % is the non-negative remainder).  PhaseIsPowerOfMinusI below ties the table to the powers.
CosQ(n) == CASE n % 4 = 0 -> 1 [] n % 4 = 2 -> -1 [] OTHER -> 0    \* cos(-2 pi n/4)
SinQ(n) == CASE n % 4 = 1 -> -1 [] n % 4 = 3 -> 1 [] OTHER -> 0    \* sin(-2 pi n/4)
Phase(n) == << CosQ(n), SinQ(n) >>

ISum(s0) == LET s == TLCEval(s0)
               f[k \in 0 .. Len(s)] == IF k = 0 THEN 0 ELSE f[k - 1] + s[k] IN f[Len(s)]
GSum(s0) == LET s == TLCEval(s0)
               f[k \in 0 .. Len(s)] == IF k = 0 THEN GZero ELSE GAdd(f[k - 1], s[k]) IN f[Len(s)]

\* ---- pixel centres --------------------------------------------------------
Cells(H, W) == (0 .. H - 1) \X (0 .. W - 1)
Lin(c, W) == c[1] * W + c[2]
CellOf(k, W) == << k \div W, k % W >>
RowMajor(H, W) == [k \in 1 .. H * W |-> CellOf(k - 1, W)]
SlimSeq(U, H, W) == SelectSeq(RowMajor(H, W), LAMBDA c : c \in U)

\* centre of cell <<i,j>> in half pixels: y grows upwards, x to the right, the frame centre sits at the origin
Centre(c, H, W, org) == << (H - 1) - 2 * c[1] + org[1], 2 * c[2] - (W - 1) + org[2] >>
Centres(U, H, W, org) ==
    LET s == SlimSeq(U, H, W) IN TLCEval([p \in 1 .. Len(s) |-> Centre(s[p], H, W, org)])

\* u pairs with x, v pairs with y:  8 (x u + y v) in turns = 2 n
TwiceN(c, b) == c[2] * b[1] + c[1] * b[2]
OnLattice(C, B) == \A p \in DOMAIN C : \A k \in DOMAIN B : TwiceN(C[p], B[k]) % 2 = 0
N(c, b) == TwiceN(c, b) \div 2

\* ---- the operator ---------------------------------------------------------
VisAt(img, C, b) == GSum([p \in 1 .. Len(C) |-> GScale(img[p], Phase(N(C[p], b)))])
Vis(img, C, B) == TLCEval([k \in 1 .. Len(B) |-> VisAt(img, C, B[k])])

Column(M, j) == TLCEval([p \in 1 .. Len(M) |-> M[p][j]])
NCols(M) == Len(M[1])
TransformMatrix(M, C, B) ==
    TLCEval([k \in 1 .. Len(B) |-> [j \in 1 .. NCols(M) |-> VisAt(Column(M, j), C, B[k])]])

\* real part of the conjugate transpose applied to V
Adjoint(V, C, B) ==
    TLCEval([p \in 1 .. Len(C) |-> ISum([k \in 1 .. Len(B) |-> GMul(GConj(Phase(N(C[p], B[k]))), V[k])[1]])])
\* the same image laid out on the frame (masked cells hold 0)
AdjointNative(V, U, H, W, org, B) ==
    LET a == Adjoint(V, Centres(U, H, W, org), B)
    IN [k \in 1 .. H * W |->
          IF CellOf(k - 1, W) \in U
          THEN a[1 + Cardinality({d \in U : Lin(d, W) < k - 1})] ELSE 0]

\* ---- normal equations -----------------------------------------------------
\* noise sigma_k = 2^e_re + i 2^e_im; weights are S / sigma^2 with S = 4^emax
RECURSIVE Pow4(_)
Pow4(e) == IF e <= 0 THEN 1 ELSE 4 * Pow4(e - 1)
Weights(se, emax) == TLCEval([k \in 1 .. Len(se) |-> << Pow4(emax - se[k][1]), Pow4(emax - se[k][2]) >>])

DataVector(T, V, Wt) ==
    [j \in 1 .. Len(T[1]) |->
        ISum([k \in 1 .. Len(T) |-> V[k][1] * T[k][j][1] * Wt[k][1] + V[k][2] * T[k][j][2] * Wt[k][2]])]
Curvature(T, Wt) ==
    [i \in 1 .. Len(T[1]) |-> [j \in 1 .. Len(T[1]) |->
        ISum([k \in 1 .. Len(T) |-> T[k][i][1] * T[k][j][1] * Wt[k][1] + T[k][i][2] * T[k][j][2] * Wt[k][2]])]]

-----------------------------------------------------------------------------
(* Second formulation, structured like the code: cosine / sine tables per   *)
(* (pixel, baseline), real and imaginary accumulators, and a mapping-matrix *)
(* transform that visits only the entries passing a sparsity test.          *)

PreRe(C, B) == TLCEval([p \in 1 .. Len(C) |-> [k \in 1 .. Len(B) |-> CosQ(N(C[p], B[k]))]])
PreIm(C, B) == TLCEval([p \in 1 .. Len(C) |-> [k \in 1 .. Len(B) |-> SinQ(N(C[p], B[k]))]])

VisPre(img, re, im) ==
    [k \in 1 .. Len(re[1]) |->
        << ISum([p \in 1 .. Len(re) |-> img[p] * re[p][k]]), ISum([p \in 1 .. Len(im) |-> img[p] * im[p][k]]) >>]

NonZero(v) == v # 0
Positive(v) == v > 0
TransformSparse(M, re, im, Keep(_)) ==
    [k \in 1 .. Len(re[1]) |-> [j \in 1 .. NCols(M) |->
        << ISum([p \in 1 .. Len(M) |-> IF Keep(M[p][j]) THEN M[p][j] * re[p][k] ELSE 0]),
           ISum([p \in 1 .. Len(M) |-> IF Keep(M[p][j]) THEN M[p][j] * im[p][k] ELSE 0]) >>]]

\* adjoint as in the code:  Re V cos(+2 pi phi) - Im V sin(+2 pi phi)
AdjointTables(V, re, im) ==
    [p \in 1 .. Len(re) |-> ISum([k \in 1 .. Len(V) |-> V[k][1] * re[p][k] - V[k][2] * (-im[p][k])])]

HasNegative(M) == \E p \in DOMAIN M : \E j \in DOMAIN M[p] : M[p][j] < 0

-----------------------------------------------------------------------------
(* Layer 2: the bounded machine.  Init builds a transformer (mask, origin,   *)
(* baselines); every public call is one atomic step on a chosen input.       *)

VARIABLES shape, U, org, B, phase, inp, obs
vars == << shape, U, org, B, phase, inp, obs >>

HH == shape[1]
WW == shape[2]
CC == Centres(U, HH, WW, org)
PP == Cardinality(U)
KK == Len(B)

MaskFamily(H, W) ==
    LET all == Cells(H, W)
        first == << 0, 0 >>
        last == << H - 1, W - 1 >>
        mid == CellOf((H * W) \div 2, W)
    IN IF MaskMode = "all" \/ H * W <= 3 THEN (SUBSET all) \ {{}}
       ELSE IF MaskMode = "ends"
            THEN {u \in SUBSET all : Cardinality(u) \in {1, 2, H * W - 1, H * W}}
            ELSE IF MaskMode = "two" THEN {all \ {first}, {mid, last}}
            ELSE {all, all \ {first}, all \ {mid}, {first}, {last}, {first, last}, {mid, last}}

BaselineSeqs == UNION {[1 .. n -> Mult \X Mult] : n \in 1 .. MaxB}

\* input families (values in -2..2, both signs, zeros)
Ramp(P) == [p \in 1 .. P |-> ((2 * p) % 5) - 2]
Unit(P, q, c) == TLCEval([p \in 1 .. P |-> IF p = q THEN c ELSE 0])
Images(P) ==
    IF P = 1 \/ (Rich /\ P = 2) THEN [1 .. P -> -2 .. 2]
    ELSE {Unit(P, q, IF q % 2 = 0 THEN -2 ELSE 1) : q \in 1 .. P}
         \cup (IF Rich THEN {Unit(P, q, IF q % 2 = 0 THEN 1 ELSE -2) : q \in 1 .. P} ELSE {})
         \cup (IF Rich THEN {[p \in 1 .. P |-> -1], [p \in 1 .. P |-> 2]} ELSE {})
         \cup {Ramp(P), [p \in 1 .. P |-> IF p % 2 = 0 THEN -1 ELSE 2]}
VisFamily(K) ==
    {[k \in 1 .. K |-> IF k = q THEN g ELSE GZero] : q \in 1 .. K, g \in {<< 1, 0 >>, << 0, 1 >>}}
    \cup {[k \in 1 .. K |-> << 1, -2 >>], [k \in 1 .. K |-> IF k % 2 = 1 THEN << -1, 1 >> ELSE << 2, 0 >>]}
Mat(cols) == [p \in 1 .. Len(cols[1]) |-> [j \in 1 .. Len(cols) |-> cols[j][p]]]
Cols(P) == {Unit(P, 1, 1), Unit(P, P, -2), [p \in 1 .. P |-> 1], Ramp(P)}
MatFamily(P) ==
    IF Rich THEN {Mat(<< c >>) : c \in Cols(P)} \cup {Mat(<< c, d >>) : c \in Cols(P), d \in Cols(P)}
    ELSE {Mat(<< Ramp(P) >>), Mat(<< [p \in 1 .. P |-> 1], Unit(P, 1, 1) >>),
          Mat(<< Ramp(P), Unit(P, P, -2) >>), Mat(<< Unit(P, P, -2), [p \in 1 .. P |-> 1] >>)}
NormalMats(P) == {Mat(<< [p \in 1 .. P |-> 1], Unit(P, 1, 1) >>), Mat(<< Ramp(P), Unit(P, P, -2) >>)}
NormalVis(K) == {[k \in 1 .. K |-> << 1, -2 >>], [k \in 1 .. K |-> IF k % 2 = 1 THEN << -1, 1 >> ELSE << 2, 0 >>]}
NoiseFamily(K) == {[k \in 1 .. K |-> << 0, 0 >>], [k \in 1 .. K |-> << (k % 3) - 1, ((k + 1) % 3) - 1 >>]}
EMax == 1

Init == /\ shape \in Shapes
        /\ U \in MaskFamily(shape[1], shape[2])
        /\ org \in Origins
        /\ B \in {b \in BaselineSeqs : OnLattice(Centres(U, shape[1], shape[2], org), b)}
        /\ phase = "built"
        /\ inp = << >>
        /\ obs = << >>

Dump(act, input) ==
    LET s == SlimSeq(U, HH, WW)
    IN PrintT(ToJson([k |-> "inst", act |-> act, h |-> HH, w |-> WW,
                      u |-> [q \in 1 .. Len(s) |-> Lin(s[q], WW)],
                      org |-> org, b |-> B, inp |-> input]))

Forward == /\ phase = "built"
           /\ LET c == CC
                  re == PreRe(c, B)
                  im == PreIm(c, B)
              IN \E img \in Images(PP) :
                   /\ inp' = [img |-> img]
                   /\ obs' = [direct |-> Vis(img, c, B), preload |-> VisPre(img, re, im)]
                   /\ Dump("vis", [img |-> img])
           /\ phase' = "vis"
           /\ UNCHANGED << shape, U, org, B >>

Back == /\ phase = "built"
        /\ LET c == CC
               re == PreRe(c, B)
               im == PreIm(c, B)
           IN \E v \in VisFamily(KK) :
                /\ inp' = [v |-> v]
                /\ obs' = [image |-> Adjoint(v, c, B), tables |-> AdjointTables(v, re, im)]
                /\ Dump("image", [v |-> v])
        /\ phase' = "image"
        /\ UNCHANGED << shape, U, org, B >>

Matrix == /\ phase = "built"
          /\ LET c == CC
                 re == PreRe(c, B)
                 im == PreIm(c, B)
             IN \E m \in MatFamily(PP) :
                  /\ inp' = [m |-> m]
                  /\ obs' = [t |-> TransformMatrix(m, c, B),
                             sparse |-> TransformSparse(m, re, im, NonZero),
                             posonly |-> TransformSparse(m, re, im, Positive)]
                  /\ Dump("tmm", [m |-> m])
          /\ phase' = "tmm"
          /\ UNCHANGED << shape, U, org, B >>

\* the non-Rich family keeps three of the eight (matrix, visibilities, noise) combinations
NormalPick(m, v, se) ==
    LET neg == HasNegative(m)
        flat == \A k \in DOMAIN se : se[k] = << 0, 0 >>
        const == \A k \in DOMAIN v : v[k] = << 1, -2 >>
    IN (~ neg /\ const /\ ~ flat) \/ (neg /\ ~ const /\ ~ flat) \/ (neg /\ const /\ flat)
NormalStep(m, v, se, t, wt) ==
    /\ inp' = [m |-> m, v |-> v, se |-> se]
    /\ obs' = [d |-> DataVector(t, v, wt), f |-> Curvature(t, wt)]
    /\ Dump("inv", [m |-> m, v |-> v, se |-> se, emax |-> EMax])

Normal == /\ phase = "built"
          /\ LET c == CC
             IN \E m \in NormalMats(PP) :
                  LET t == TransformMatrix(m, c, B)
                  IN \E v \in NormalVis(KK) : \E se \in NoiseFamily(KK) :
                       LET wt == Weights(se, EMax)
                       IN /\ (Rich \/ NormalPick(m, v, se)) = TRUE   \* "= TRUE": a plain Boolean, not an action disjunction
                          /\ NormalStep(m, v, se, t, wt)
          /\ phase' = "inv"
          /\ UNCHANGED << shape, U, org, B >>

Next == Forward \/ Back \/ Matrix \/ Normal
Spec == Init /\ [][Next]_vars

-----------------------------------------------------------------------------
(* Layer 3: design-level theorems, checked by TLC on every state *)

\* every explored transformer is on the lattice, so the integer model is the whole truth about it
InstancesOnLattice == OnLattice(CC, B)

\* the phase table is the character n |-> (-i)^n of the integers: Phase(0) = 1, Phase(1) = -i, Phase(a+b) = Phase(a) Phase(b),
\* Phase(-a) = conj(Phase(a)), and it agrees with repeated multiplication
PhaseIsPowerOfMinusI ==
    phase = "built" =>
        /\ Phase(0) = GOne /\ Phase(1) = MinusI
        /\ \A a \in -9 .. 9 : /\ Phase(-a) = GConj(Phase(a))
                              /\ (a >= 0 => Phase(a) = GPowNat(MinusI, a))
                              /\ \A b \in -9 .. 9 : Phase(a + b) = GMul(Phase(a), Phase(b))

\* the cosine/sine tables are the real and imaginary parts of (-i)^n
TablesArePhases ==
    phase = "built" =>
        LET c == CC
            re == PreRe(c, B)
            im == PreIm(c, B)
        IN \A p \in 1 .. Len(c) : \A k \in 1 .. KK : << re[p][k], im[p][k] >> = Phase(N(c[p], B[k]))

\* table-driven visibilities equal the direct sum
PreloadEqualsDirect == phase = "vis" => obs.direct = obs.preload

\* zero baseline = total flux; repeated baselines repeat; opposite baselines conjugate
BaselineSymmetries ==
    phase = "vis" =>
        \A k \in 1 .. KK :
            /\ (B[k] = << 0, 0 >> => obs.direct[k] = << ISum(inp.img), 0 >>)
            /\ \A l \in 1 .. KK :
                  /\ (B[k] = B[l] => obs.direct[k] = obs.direct[l])
                  /\ (B[k] = GNeg(B[l]) => obs.direct[k] = GConj(obs.direct[l]))

\* <V, T e_p> = <Adj V, e_p> for every basis image, with <a,b> = Re sum conj(a) b; and for the whole image families
ReInner(a, b) == ISum([k \in 1 .. Len(a) |-> GMul(GConj(a[k]), b[k])[1]])
Dot(a, b) == ISum([p \in 1 .. Len(a) |-> a[p] * b[p]])
AdjointIsConjugateTranspose ==
    phase = "image" =>
        LET c == CC
        IN /\ \A p \in 1 .. Len(c) : ReInner(inp.v, Vis(Unit(Len(c), p, 1), c, B)) = obs.image[p]
           /\ obs.image = obs.tables
AdjointOnBasisPairs ==
    phase = "built" =>
        LET c == CC
            P == Len(c)
        IN \A p \in 1 .. P : \A k \in 1 .. KK : \A g \in {<< 1, 0 >>, << 0, 1 >>} :
              LET v == [l \in 1 .. KK |-> IF l = k THEN g ELSE GZero]
              IN ReInner(v, Vis(Unit(P, p, 1), c, B)) = Dot(Adjoint(v, c, B), Unit(P, p, 1))

\* the column-wise transform may skip zero entries, and skipping non-positive entries is exact only without negatives
SparseSkipIsExact == phase = "tmm" => obs.sparse = obs.t
PositiveOnlyExactOnNonNegative == phase = "tmm" => (HasNegative(inp.m) \/ obs.posonly = obs.t)
\* linearity in the matrix: T(-M) = -T(M)
TransformIsOdd ==
    phase = "tmm" =>
        TransformMatrix([p \in 1 .. Len(inp.m) |-> [j \in 1 .. NCols(inp.m) |-> -inp.m[p][j]]], CC, B)
          = [k \in 1 .. KK |-> [j \in 1 .. NCols(inp.m) |-> GNeg(obs.t[k][j])]]

\* D is the mapping-matrix transpose applied to the adjoint of the weighted visibilities;
\* F is symmetric, has a non-negative diagonal and is the Gram form of x |-> T(M x) (polarisation identity)
MatVec(M, x) == TLCEval([p \in 1 .. Len(M) |-> ISum([j \in 1 .. NCols(M) |-> M[p][j] * x[j]])])
Quad(M, x, wt, c) ==
    LET v == Vis(MatVec(M, x), c, B)
    IN ISum([k \in 1 .. KK |-> v[k][1] * v[k][1] * wt[k][1] + v[k][2] * v[k][2] * wt[k][2]])
NormalEquationsAreGramProducts ==
    phase = "inv" =>
        LET wt == Weights(inp.se, EMax)
            wv == TLCEval([k \in 1 .. KK |-> << inp.v[k][1] * wt[k][1], inp.v[k][2] * wt[k][2] >>])
            c == CC
            adj == Adjoint(wv, c, B)
            J == NCols(inp.m)
            e(j) == TLCEval([l \in 1 .. J |-> IF l = j THEN 1 ELSE 0])
            ee(i, j) == TLCEval([l \in 1 .. J |-> (IF l = i THEN 1 ELSE 0) + (IF l = j THEN 1 ELSE 0)])
        IN /\ \A j \in 1 .. J : obs.d[j] = Dot(Column(inp.m, j), adj)
           /\ \A i \in 1 .. J : \A j \in 1 .. J :
                 /\ obs.f[i][j] = obs.f[j][i]
                 /\ 2 * obs.f[i][j] = Quad(inp.m, ee(i, j), wt, c) - Quad(inp.m, e(i), wt, c) - Quad(inp.m, e(j), wt, c)
           /\ \A j \in 1 .. J : obs.f[j][j] >= 0 /\ obs.f[j][j] = Quad(inp.m, e(j), wt, c)
=============================================================================
