------------------------------ MODULE SubSizes ------------------------------
(***************************************************************************)
(* X05 -- adaptive sub-size schemes of PyAutoArray give every pixel the    *)
(* documented sub size, and everything an OverSamplerUniform derives from  *)
(* a per-pixel sub-size array is consistent with that array.               *)
(*                                                                         *)
(* The module extends the finished over-sampling check (OverSample.tla,    *)
(* C09: partition, binning, decorator, iterative scheme) by what C09 takes *)
(* as given: WHERE the per-pixel sub sizes come from (radial bins around a *)
(* list of centres, the configured adaptive scheme, the signal-to-noise    *)
(* rule), the quantities derived from a sub-size array beside the grid     *)
(* (sub_total, sub_length, sub_fraction, the native sub index) and the     *)
(* helper index maps of over_sample_util.  OverSample.tla declares         *)
(* CONSTANTS, so the handful of partition operators needed here is copied. *)
(*                                                                         *)
(* Exact domain.  Coordinates are integers (ticks).  A frame H x W has     *)
(* EVEN pixel scales (sy, sx) and origin (oy, ox), so every pixel centre   *)
(* is an integer point and every squared distance an integer.  A radial    *)
(* bin edge is given by its SQUARED radius as a rational <<a, b>> (a/b     *)
(* ticks^2): with b = 2 and a odd no pixel centre can lie on the circle    *)
(* (ties excluded by construction), with a even ties exist and the         *)
(* documented strict inequality decides them.  Signal-to-noise values are  *)
(* rationals data/noise with integer data and positive integer noise.      *)
(* Where sub-pixel centres are needed the scales are multiples of          *)
(* 2*lcm(sub sizes).  y grows upwards (row 0 is the top row).              *)
(*                                                                         *)
(* Machines:  R  radial bins (one action per centre folded into the        *)
(*               running per-pixel maximum, as the implementation does)    *)
(*            A  signal-to-noise rule (the cut, then the threshold)        *)
(*            P  quantities derived from a sub-size array + index maps     *)
(*            H  histories of queries on samplers made from ONE            *)
(*               over-sampling object (second mask via over_sampler_from)  *)
(***************************************************************************)
EXTENDS Integers, Sequences, FiniteSets, TLC, Json, SequencesExt, FiniteSetsExt

CONSTANTS
    RFams,     \* R: set of <<H, W, GS, CLS, BS>>: frame, geometries <<sy,sx,oy,ox>>, centre lists (sequences of offsets
               \*    <<dy,dx>> from the origin; << >> = centre_list omitted), bin schemes <<S, TT, name>>: sub sizes S,
               \*    TT = squared radii <<a,b>> (name = "") or squared radial FACTORS <<a,b>> of the configured scheme `name`
    AFams,     \* A: set of <<n, DS, NS, CS, PS>>: n pixels, data values, noise values (> 0), cuts <<num,den>>, pairs <<lower,upper>>
    PFams,     \* P: set of <<H, W, S, uni, GS>>: sub sizes from S per pixel (uni = FALSE) or one for all (uni = TRUE)
    HQueries,  \* H: the queries of a sampler
    HCached,   \* H: the queries whose answer the sampler keeps (cached properties)
    HMaxLog    \* H: number of queries of a history

-----------------------------------------------------------------------------
(* Layer 1: meaning *)

Abs(x) == IF x < 0 THEN -x ELSE x
Sq(n) == n * n
SumSeq(s) == FoldLeft(LAMBDA a, b : a + b, 0, s)
RECURSIVE Gcd(_, _)
Gcd(a, b) == IF b = 0 THEN a ELSE Gcd(b, a % b)
Lcm(a, b) == (a * b) \div Gcd(a, b)
LcmSeq(s) == FoldLeft(Lcm, 1, s)
TruncDiv(a, b) == IF a >= 0 THEN a \div b ELSE -((-a) \div b)      \* Python's int(a / b): towards zero (b > 0)

Cells(H, W) == (0 .. H-1) \X (0 .. W-1)
CellOf(k, W) == << k \div W, k % W >>
RowMajor(H, W) == [k \in 1 .. H*W |-> CellOf(k-1, W)]
\* slim order: the unmasked cells, top row first, left to right
SlimSeq(U, H, W) == SelectSeq(RowMajor(H, W), LAMBDA c : c \in U)

EvenScales(G) == G.h >= 1 /\ G.w >= 1 /\ G.sy > 0 /\ G.sx > 0 /\ G.sy % 2 = 0 /\ G.sx % 2 = 0
SubLattice(G, sub) ==
    LET L == LcmSeq(sub) IN G.h >= 1 /\ G.w >= 1 /\ G.sy > 0 /\ G.sx > 0 /\ G.sy % (2 * L) = 0 /\ G.sx % (2 * L) = 0

\* pixel centres: the frame is centred on the origin (the geometry of C02); defined for every integer cell, in or out of the frame
CentreY(i, G) == G.oy + (G.h - 1 - 2 * i) * (G.sy \div 2)
CentreX(j, G) == G.ox + (2 * j - (G.w - 1)) * (G.sx \div 2)
Centre(c, G) == << CentreY(c[1], G), CentreX(c[2], G) >>
Centres(U, G) == LET ss == SlimSeq(U, G.h, G.w) IN [k \in 1 .. Len(ss) |-> Centre(ss[k], G)]
Top(G) == G.oy + (G.h * G.sy) \div 2
Left(G) == G.ox - (G.w * G.sx) \div 2

\* ---- radial bins --------------------------------------------------------
D2(p, c) == Sq(p[1] - c[1]) + Sq(p[2] - c[2])
\* "all pixels with a radial distance LESS THAN the edge": strict, a pixel on the circle belongs to the outer bin
Below(d2, t) == d2 * t[2] < t[1]
Increasing(T) == \A j \in 1 .. Len(T) - 1 : T[j][1] * T[j+1][2] < T[j+1][1] * T[j][2]
BinsOk(S, T) ==
    /\ Len(S) >= 1 /\ Len(S) \in {Len(T), Len(T) + 1}
    /\ \A j \in DOMAIN S : S[j] >= 1
    /\ \A j \in DOMAIN T : T[j][1] > 0 /\ T[j][2] > 0
    /\ Increasing(T)
\* the sub size of the FIRST bin whose edge exceeds the distance; beyond the last edge: the last sub size of the list
SubOfD2(d2, S, T) ==
    LET J == { j \in 1 .. Len(T) : Below(d2, T[j]) } IN IF J = {} THEN S[Len(S)] ELSE S[Min(J)]
\* the same as half-open rings [edge j-1, edge j): "between 0.5 and 1.0 ..., between 1.0 and 1.5 ..."
InRing(d2, T, j) == (j = 1 \/ ~ Below(d2, T[j-1])) /\ (j = Len(T) + 1 \/ Below(d2, T[j]))
SubOfRing(d2, S, T) ==
    LET j == CHOOSE q \in 1 .. Len(T) + 1 : InRing(d2, T, q) IN IF j <= Len(T) THEN S[j] ELSE S[Len(S)]

PerCentre(ctrs, c, S, T) == [k \in 1 .. Len(ctrs) |-> SubOfD2(D2(ctrs[k], c), S, T)]
\* the statement: the bin of the distance to the NEAREST centre
RadialNearest(ctrs, CL, S, T) ==
    [k \in 1 .. Len(ctrs) |-> SubOfD2(Min({ D2(ctrs[k], CL[c]) : c \in 1 .. Len(CL) }), S, T)]
\* the docstring: every centre of the list can only INCREASE the sub size of a pixel
RadialMax(ctrs, CL, S, T) ==
    [k \in 1 .. Len(ctrs) |-> Max({ SubOfD2(D2(ctrs[k], CL[c]), S, T) : c \in 1 .. Len(CL) })]
NonIncreasing(S) == \A j \in 1 .. Len(S) - 1 : S[j] >= S[j+1]
\* ... built the way the implementation builds it: start from zeros, fold one centre at a time
FoldCentre(acc, new) == [k \in 1 .. Len(acc) |-> IF new[k] > acc[k] THEN new[k] ELSE acc[k]]
HasTie(ctrs, CL, T) ==
    \E k \in 1 .. Len(ctrs), c \in 1 .. Len(CL), j \in 1 .. Len(T) : D2(ctrs[k], CL[c]) * T[j][2] = T[j][1]

\* centre_list omitted: "the centre of the mask" = centre of the bounding box of the unmasked pixels (mask.mask_centre)
MaskCentre(U, G) ==
    LET rows == { c[1] : c \in U }
        cols == { c[2] : c \in U }
    IN << G.oy + (G.h - 1 - Min(rows) - Max(rows)) * (G.sy \div 2),
          G.ox + (Min(cols) + Max(cols) - (G.w - 1)) * (G.sx \div 2) >>

\* rows without any unmasked pixel between rows that have some (Grid2D.is_uniform calls such a grid non-uniform)
RowGap(U) == LET rows == { c[1] : c \in U } IN \E i \in Min(rows) .. Max(rows) : i \notin rows

\* the configured adaptive scheme: circles of radius factor * (smallest pixel scale) around the centre; the implementation
\* first moves the centre to the centre of the pixel it is located in (any pixel of the infinite lattice of the frame)
SchemeT(G, F2) == LET m == IF G.sy <= G.sx THEN G.sy ELSE G.sx IN [j \in 1 .. Len(F2) |-> << m * m * F2[j][1], F2[j][2] >>]
PixelOf(p, G) == << (Top(G) - p[1]) \div G.sy, (p[2] - Left(G)) \div G.sx >>                    \* floor
CodePixelOf(p, G) == << TruncDiv(Top(G) - p[1], G.sy), TruncDiv(p[2] - Left(G), G.sx) >>      \* int(): as coded
OnPixelEdge(p, G) == (Top(G) - p[1]) % G.sy = 0 \/ (p[2] - Left(G)) % G.sx = 0
Snap(p, G) == Centre(PixelOf(p, G), G)
CodeSnap(p, G) == Centre(CodePixelOf(p, G), G)

\* ---- the signal-to-noise rule -------------------------------------------
\* rationals <<n, d>> with d > 0
RLess(a, b) == a[1] * b[2] < b[1] * a[2]
MaxSN(d, nz) ==
    LET k == CHOOSE q \in 1 .. Len(d) : \A j \in 1 .. Len(d) : d[q] * nz[j] >= d[j] * nz[q] IN << d[k], nz[k] >>
\* docstring: "the cut is set to the maximum signal-to-noise divided by 2.0 if this value is below the cut"
EffCut(d, nz, cut) == LET m == MaxSN(d, nz) half == << m[1], 2 * m[2] >> IN IF RLess(half, cut) THEN half ELSE cut
\* code: "if max < 2 cut: cut = max / 2"
CodeCut(d, nz, cut) == LET m == MaxSN(d, nz) IN IF RLess(m, << 2 * cut[1], cut[2] >>) THEN << m[1], 2 * m[2] >> ELSE cut
\* "for all pixels with signal-to-noise ABOVE the cut the upper value, for all other pixels the lower value"
Threshold(d, nz, e, lo, up) == [k \in 1 .. Len(d) |-> IF RLess(e, << d[k], nz[k] >>) THEN up ELSE lo]
AdaptSub(d, nz, cut, lo, up) == Threshold(d, nz, EffCut(d, nz, cut), lo, up)

\* ---- quantities derived from a per-pixel sub-size array ------------------
\* Pixel c is cut into n x n equal rectangles; partition row a (0 = top), partition column b (0 = left)
SubCentre(c, n, a, b, G) ==
    << CentreY(c[1], G) + (G.sy \div 2) - (2 * a + 1) * (G.sy \div (2 * n)),
       CentreX(c[2], G) - (G.sx \div 2) + (2 * b + 1) * (G.sx \div (2 * n)) >>
SubCentres(c, n, G) == [m \in 1 .. n * n |-> SubCentre(c, n, (m-1) \div n, (m-1) % n, G)]
SubGrid(U, sub, G) ==
    LET ss == SlimSeq(U, G.h, G.w) IN FlattenSeq([k \in 1 .. Len(ss) |-> SubCentres(ss[k], sub[k], G)])
SlimForSubSlim(sub) == FlattenSeq([k \in 1 .. Len(sub) |-> [m \in 1 .. Sq(sub[k]) |-> k - 1]])
Areas(sub, G) ==
    FlattenSeq([k \in 1 .. Len(sub) |-> [m \in 1 .. Sq(sub[k]) |-> (G.sy \div sub[k]) * (G.sx \div sub[k])]])
Total(sub) == SumSeq([k \in 1 .. Len(sub) |-> Sq(sub[k])])
SubLength(sub) == [k \in 1 .. Len(sub) |-> Sq(sub[k])]
Off(sub, k) == SumSeq([j \in 1 .. k-1 |-> Sq(sub[j])])
Uniform(sub) == \A k \in DOMAIN sub : sub[k] = sub[1]
\* native index of every sub-pixel in the sub[k]-fold refined frame of its pixel (one refined frame when sub is uniform)
NativeSub(U, sub, G) ==
    LET ss == SlimSeq(U, G.h, G.w)
    IN FlattenSeq([k \in 1 .. Len(ss) |->
          [m \in 1 .. Sq(sub[k]) |-> << ss[k][1] * sub[k] + (m-1) \div sub[k], ss[k][2] * sub[k] + ((m-1) % sub[k]) >>]])
\* the refined frame for one sub size n: geometry, unmasked cells in row-major order, mask as flags, numbering
Fine(G, n) == [h |-> G.h * n, w |-> G.w * n, sy |-> G.sy \div n, sx |-> G.sx \div n, oy |-> G.oy, ox |-> G.ox]
FineSlim(U, n, H, W) == SelectSeq(RowMajor(H * n, W * n), LAMBDA c : << c[1] \div n, c[2] \div n >> \in U)
FineMaskFlat(U, n, H, W) ==
    LET rm == RowMajor(H * n, W * n) IN [t \in 1 .. Len(rm) |-> IF << rm[t][1] \div n, rm[t][2] \div n >> \in U THEN 0 ELSE 1]
\* row-major numbering of the unmasked entries of a flat mask (1 = masked), -1 at masked entries
Numbering(flat) ==
    LET f == FoldLeft(LAMBDA a, x : IF x = 0 THEN << a[1] + 1, Append(a[2], a[1]) >> ELSE << a[1], Append(a[2], -1) >>,
                      << 0, << >> >>, flat)
    IN f[2]

\* what a sampler on (U, G) with sub sizes `sub` answers to query q, as a flat sequence of integers
Answer(q, U, G, sub) ==
    CASE q = "total"  -> << Total(sub) >>
      [] q = "length" -> SubLength(sub)
      [] q = "frac"   -> SubLength(sub)                 \* denominators: the fraction of pixel k is 1 / sub[k]^2
      [] q = "areas"  -> Areas(sub, G)
      [] q = "sfs"    -> SlimForSubSlim(sub)
      [] q = "grid"   -> FlattenSeq(SubGrid(U, sub, G))
      [] q = "nsm"    -> FlattenSeq(NativeSub(U, sub, G))

-----------------------------------------------------------------------------
(* Layer 2: the bounded machines *)

VARIABLES inst, phase, step, acc,     \* R, A, P
          made, cache, log            \* H
vars == << inst, phase, step, acc, made, cache, log >>

IdleH == made = {} /\ cache = << >> /\ log = << >>
IdleS == inst = << >> /\ phase = "idle" /\ step = 0 /\ acc = << >>

Geo(f, g) == [h |-> f[1], w |-> f[2], sy |-> g[1], sx |-> g[2], oy |-> g[3], ox |-> g[4]]

\* ---- R: Init picks frame, mask, geometry, centre list and bins; one RFold per centre; RObserve dumps the instance
RInit ==
    /\ \E f \in RFams : \E g \in f[3], cl \in f[4], b \in f[5] :
         \E u \in (SUBSET Cells(f[1], f[2])) \ {{}} :
            LET G == Geo(f, g)
                T == IF b[3] = "" THEN b[2] ELSE SchemeT(G, b[2])
                given == [c \in 1 .. Len(cl) |-> << g[3] + cl[c][1], g[4] + cl[c][2] >>]
            IN /\ (b[3] # "" => Len(given) = 1 /\ ~ OnPixelEdge(given[1], G))   \* a centre on a pixel edge has no pixel
               /\ inst = [h |-> f[1], w |-> f[2], u |-> u, sy |-> g[1], sx |-> g[2], oy |-> g[3], ox |-> g[4],
                          given |-> given,
                          \* the centres the circles are drawn around: the default centre, the moved centre of the scheme
                          cl |-> IF given = << >> THEN << MaskCentre(u, G) >>
                                 ELSE IF b[3] # "" THEN << Snap(given[1], G) >> ELSE given,
                          s |-> b[1], tt |-> b[2], t |-> T, name |-> b[3]]
    /\ phase = "fold" /\ step = 0
    /\ acc = [k \in 1 .. Cardinality(inst.u) |-> 0]
    /\ IdleH

RCentres == Centres(inst.u, inst)

RFold ==
    /\ phase = "fold" /\ step < Len(inst.cl)
    /\ acc' = FoldCentre(acc, PerCentre(RCentres, inst.cl[step + 1], inst.s, inst.t))
    /\ step' = step + 1
    /\ UNCHANGED << inst, phase, made, cache, log >>

RObserve ==
    /\ phase = "fold" /\ step = Len(inst.cl)
    /\ phase' = "observed"
    /\ PrintT(ToJson([k |-> "inst", m |-> "R", h |-> inst.h, w |-> inst.w,
                      u |-> LET ss == SlimSeq(inst.u, inst.h, inst.w) IN [j \in 1 .. Len(ss) |-> ss[j][1] * inst.w + ss[j][2]],
                      sy |-> inst.sy, sx |-> inst.sx, oy |-> inst.oy, ox |-> inst.ox,
                      cl |-> inst.given, s |-> inst.s, tt |-> inst.tt, name |-> inst.name, sub |-> acc]))
    /\ UNCHANGED << inst, step, acc, made, cache, log >>

RSpec == RInit /\ [][RFold \/ RObserve]_vars

\* ---- A: Init picks data, noise, cut and the two sub sizes; AMax fixes the cut, AThreshold applies it
AInit ==
    /\ \E f \in AFams : \E d \in [1 .. f[1] -> f[2]], nz \in [1 .. f[1] -> f[3]], c \in f[4], p \in f[5] :
         inst = [d |-> d, nz |-> nz, cut |-> c, lo |-> p[1], up |-> p[2]]
    /\ phase = "max" /\ step = 0 /\ acc = << >>
    /\ IdleH

AMax ==
    /\ phase = "max"
    /\ acc' = << CodeCut(inst.d, inst.nz, inst.cut) >>
    /\ phase' = "threshold"
    /\ UNCHANGED << inst, step, made, cache, log >>

AThreshold ==
    /\ phase = "threshold"
    /\ acc' = Threshold(inst.d, inst.nz, acc[1], inst.lo, inst.up)
    /\ phase' = "observed"
    /\ PrintT(ToJson([k |-> "inst", m |-> "A", d |-> inst.d, nz |-> inst.nz, cut |-> inst.cut, lo |-> inst.lo, up |-> inst.up,
                      sub |-> acc']))
    /\ UNCHANGED << inst, step, made, cache, log >>

ASpec == AInit /\ [][AMax \/ AThreshold]_vars

\* ---- P: Init picks frame, mask, sub-size map, geometry (scales = 2 lcm(sub) times the multipliers of the geometry)
SubMaps(n, S, uni) == IF uni THEN { [k \in 1 .. n |-> s] : s \in S } ELSE [1 .. n -> S]

PInit ==
    /\ \E f \in PFams : \E g \in f[5] :
         \E u \in (SUBSET Cells(f[1], f[2])) \ {{}} :
           \E sm \in SubMaps(Cardinality(u), f[3], f[4]) :
              inst = [h |-> f[1], w |-> f[2], u |-> u, sub |-> sm,
                      sy |-> 2 * LcmSeq(sm) * g[1], sx |-> 2 * LcmSeq(sm) * g[2], oy |-> g[3], ox |-> g[4]]
    /\ phase = "inst" /\ step = 0 /\ acc = << >>
    /\ IdleH

PObserve ==
    /\ phase = "inst"
    /\ phase' = "observed"
    /\ acc' = [grid |-> SubGrid(inst.u, inst.sub, inst), sfs |-> SlimForSubSlim(inst.sub),
               areas |-> Areas(inst.sub, inst), nsm |-> NativeSub(inst.u, inst.sub, inst)]
    /\ PrintT(ToJson([k |-> "inst", m |-> "P", h |-> inst.h, w |-> inst.w,
                      u |-> LET ss == SlimSeq(inst.u, inst.h, inst.w) IN [j \in 1 .. Len(ss) |-> ss[j][1] * inst.w + ss[j][2]],
                      sub |-> inst.sub, sy |-> inst.sy, sx |-> inst.sx, oy |-> inst.oy, ox |-> inst.ox]))
    /\ UNCHANGED << inst, step, made, cache, log >>

PSpec == PInit /\ [][PObserve]_vars

\* ---- H: ONE over-sampling object; sampler 1 is made for a first mask, sampler 2 for a second mask through
\* ---- over_sampler_from; queries in any order, repeated.  An answer is tagged with the sampler whose mask and sub
\* ---- sizes it was computed from; a kept (cached) answer keeps the tag it was computed with.
HInit ==
    /\ made = {} /\ cache = [o \in {1, 2} |-> << >>] /\ log = << >>
    /\ IdleS

HMake(o) ==
    /\ o \notin made /\ (o = 2 => 1 \in made)
    /\ made' = made \cup {o}
    /\ UNCHANGED << cache, log, inst, phase, step, acc >>

Kept(o, q) == { e \in ToSet(cache[o]) : e[1] = q }
HQuery(o, q) ==
    /\ o \in made /\ Len(log) < HMaxLog
    /\ LET src == IF Kept(o, q) # {} THEN (CHOOSE e \in Kept(o, q) : TRUE)[2] ELSE o
       IN /\ log' = Append(log, << o, q, src >>)
          /\ cache' = IF q \in HCached /\ Kept(o, q) = {} THEN [cache EXCEPT ![o] = Append(@, << q, src >>)] ELSE cache
    /\ UNCHANGED << made, inst, phase, step, acc >>

HNext == (\E o \in {1, 2} : HMake(o)) \/ (\E o \in {1, 2}, q \in HQueries : HQuery(o, q))
HSpec == HInit /\ [][HNext]_vars

-----------------------------------------------------------------------------
(* Layer 3: properties *)

\* ---- R
RSeen == phase = "observed"
RInputsOk == phase \in {"fold", "observed"} => EvenScales(inst) /\ BinsOk(inst.s, inst.t) /\ Len(inst.cl) >= 1
\* after j centres the running array is the per-pixel maximum over the first j centres
RFoldIsRunningMax ==
    phase \in {"fold", "observed"} =>
        IF step = 0 THEN \A k \in DOMAIN acc : acc[k] = 0
        ELSE acc = RadialMax(RCentres, SubSeq(inst.cl, 1, step), inst.s, inst.t)
\* the documented "increase" and the statement's "nearest centre" coincide for sub sizes that do not grow outwards
RNearestIsMaxWhenNonIncreasing ==
    RSeen /\ NonIncreasing(inst.s) => acc = RadialNearest(RCentres, inst.cl, inst.s, inst.t)
\* with one centre they coincide for every list
RNearestIsMaxForOneCentre ==
    RSeen /\ Len(inst.cl) = 1 => acc = RadialNearest(RCentres, inst.cl, inst.s, inst.t)
\* "first edge that exceeds the distance" = half-open rings between consecutive edges
RFirstEdgeIsHalfOpenRing ==
    RSeen => \A k \in DOMAIN acc : \A c \in 1 .. Len(inst.cl) :
                LET d == D2(RCentres[k], inst.cl[c]) IN SubOfD2(d, inst.s, inst.t) = SubOfRing(d, inst.s, inst.t)
RSubSizesComeFromTheList == RSeen => \A k \in DOMAIN acc : \E j \in DOMAIN inst.s : acc[k] = inst.s[j]
\* a pixel whose centre IS a centre of the list lies in the innermost bin of that centre
RPixelAtACentre ==
    RSeen /\ Len(inst.t) >= 1 =>
        \A k \in DOMAIN acc : (\E c \in 1 .. Len(inst.cl) : RCentres[k] = inst.cl[c]) => acc[k] >= inst.s[1]
\* moving the centre of the scheme: floor and the implementation's int() agree exactly for centres that are not above
\* or left of the frame
RCodeSnapAgreesBelowRightOfTopLeft ==
    RSeen /\ inst.name # "" =>
        LET c == inst.given[1] IN (Top(inst) - c[1] >= 0 /\ c[2] - Left(inst) >= 0) => CodeSnap(c, inst) = Snap(c, inst)
RSnapIsInOwnPixel ==
    RSeen /\ inst.name # "" =>
        LET c == inst.given[1] s == Snap(c, inst)
        IN 2 * Abs(c[1] - s[1]) <= inst.sy /\ 2 * Abs(c[2] - s[2]) <= inst.sx /\ Snap(s, inst) = s

\* ---- A
ASeen == phase = "observed"
AInputsOk == phase \in {"max", "threshold", "observed"} => inst.cut[2] > 0 /\ \A k \in DOMAIN inst.nz : inst.nz[k] > 0
ACodeCutIsDocumentedCut == phase = "threshold" => acc[1] = EffCut(inst.d, inst.nz, inst.cut)
AResultIsDocumented == ASeen => acc = AdaptSub(inst.d, inst.nz, inst.cut, inst.lo, inst.up)
\* the point of the rule: a positive brightest pixel always gets the upper value, however high the cut
ABrightestGetsUpper ==
    ASeen => LET m == MaxSN(inst.d, inst.nz)
             IN m[1] > 0 => \A k \in DOMAIN acc : (inst.d[k] * m[2] = m[1] * inst.nz[k]) => acc[k] = inst.up
\* the set of pixels with the upper value is closed upwards in signal-to-noise
AUpperSetIsUpClosed ==
    ASeen /\ inst.lo # inst.up =>
        \A a, b \in DOMAIN acc : (acc[a] = inst.up /\ inst.d[b] * inst.nz[a] >= inst.d[a] * inst.nz[b]) => acc[b] = inst.up
AOnlyTheTwoValues == ASeen => \A k \in DOMAIN acc : acc[k] \in {inst.lo, inst.up}

\* ---- P
PSeen == phase = "observed"
PNPix == Cardinality(inst.u)
PInstOnLattice == phase \in {"inst", "observed"} => SubLattice(inst, inst.sub)
PCountIsSumOfSquares ==
    PSeen => LET tot == Total(inst.sub)
             IN Len(acc.grid) = tot /\ Len(acc.sfs) = tot /\ Len(acc.areas) = tot /\ Len(acc.nsm) = tot
                /\ tot = SumSeq(SubLength(inst.sub))
\* sub_length many sub-pixels of area (pixel area) * sub_fraction each: a pixel's sub-pixels have the pixel's area
PLengthTimesAreaIsPixelArea ==
    PSeen => \A k \in 1 .. PNPix :
                LET o == Off(inst.sub, k) IN
                \A m \in 1 .. Sq(inst.sub[k]) : SubLength(inst.sub)[k] * acc.areas[o + m] = inst.sy * inst.sx
\* every sub-pixel's native index lies in its parent pixel, at the partition row / column of its place in the block
PNativeSubInParent ==
    PSeen => LET ss == SlimSeq(inst.u, inst.h, inst.w) IN
             \A t \in 1 .. Len(acc.nsm) :
                LET k == acc.sfs[t] + 1
                    n == inst.sub[k]
                IN /\ << acc.nsm[t][1] \div n, acc.nsm[t][2] \div n >> = ss[k]
                   /\ acc.grid[t] = SubCentre(ss[k], n, acc.nsm[t][1] % n, acc.nsm[t][2] % n, inst)
\* one sub size for all pixels: the index maps are consistent with the refined mask and with each other
PIndexMapsConsistent ==
    PSeen /\ Uniform(inst.sub) =>
        LET n == inst.sub[1]
            fs == TLCEval(FineSlim(inst.u, n, inst.h, inst.w))
            flat == TLCEval(FineMaskFlat(inst.u, n, inst.h, inst.w))
            num == TLCEval(Numbering(flat))
            W == inst.w * n
            at(c) == num[c[1] * W + c[2] + 1]
            fg == Fine(inst, n)
        IN /\ Len(fs) = Total(inst.sub)
           /\ ToSet(acc.nsm) = ToSet(fs)                                   \* onto the unmasked refined cells ...
           /\ Cardinality(ToSet(acc.nsm)) = Len(acc.nsm)                   \* ... one to one
           /\ \A t \in 1 .. Len(fs) : at(fs[t]) = t - 1                    \* numbering inverts the row-major enumeration
           /\ { at(acc.nsm[t]) : t \in 1 .. Len(acc.nsm) } = 0 .. Len(fs) - 1
           /\ \A t \in 1 .. Len(acc.nsm) : Centre(acc.nsm[t], fg) = acc.grid[t]   \* the refined frame's pixel centres
           /\ (n = 1 => acc.nsm = fs /\ acc.grid = Centres(inst.u, inst))

\* ---- H
HAnswersFromOwnMaskAndSubSizes == \A e \in ToSet(log) : e[3] = e[1]
HKeptAnswersAreOwn == \A o \in {1, 2} : cache # << >> => \A e \in ToSet(cache[o]) : e[2] = o /\ e[1] \in HCached
HSecondOnlyAfterFirst == 2 \in made => 1 \in made
=============================================================================
