------------------------- MODULE Trace_Relocation -------------------------
(***************************************************************************)
(* Validation of recorded executions of the real border-relocation code    *)
(* against Relocation.tla (C18).  One record per exercised call:           *)
(*                                                                         *)
(*  api "select"    BorderRelocator(mask, sub_size).sub_border_slim /      *)
(*                  .sub_border_grid for one mask and one sub-size map     *)
(*      h, w, u     the mask (unmasked linear indices)                     *)
(*      sub         sub-size of every unmasked pixel (slim order)          *)
(*      sbs         the published sub-border indices                       *)
(*      sbg         the published sub-border coordinates abstracted to the *)
(*                  1/24-pixel lattice measured from the top-left corner   *)
(*                  of the array ([-2,-2] = off lattice)                   *)
(*      bslim       mask.derive_indexes.border_slim                        *)
(*                                                                         *)
(*  api "relocate"  relocated_grid_from / relocated_mesh_grid_from /       *)
(*                  mesh.mapper_grids_from(..., border_relocator=...)      *)
(*      call        the entry point (string)                               *)
(*      grid        the data grid, integer lattice points [y, x]           *)
(*      bidx        the sub-border indices into the data grid              *)
(*      own         TRUE: the relocated points are the data grid itself    *)
(*      pts         otherwise the (mesh) points that were relocated        *)
(*      out         per point [same, Ry, Rx, F]: same = 1 iff the output   *)
(*                  is bit-for-bit the input; R = round(F * n * (p' - c))  *)
(*                  in lattice units (n = number of border points, c =     *)
(*                  their centroid): fixed point with factor F per point   *)
(*      raised      the call raised an exception                           *)
(*      off         [ky, kx, e]: every coordinate handed to the call was   *)
(*                  translated by (ky, kx) * 2^e ticks (and scaled by the  *)
(*                  power-of-two tick); grid / pts / out are recorded in   *)
(*                  the UNtranslated frame, the expectation is the same    *)
(*                  (Relocation!RelTranslationInvariant, RelScaleCovariant)*)
(*      rep         the input representation in which the SAME lattice     *)
(*                  coordinates were handed to the call (float64 grid /    *)
(*                  ndarray, integer dtype, Python int tuples, float32);   *)
(*                  the expectation does not depend on it                  *)
(*      hist        number of calls made before on the SAME relocator      *)
(*                  instance (with other data grids); every call is judged *)
(*                  against the border of the grid passed to that call     *)
(*      h,w,u,sub,lat  the relocator's mask and sub-size map; lat = the    *)
(*                  sub-sizes divide 12, so bidx is judged as a selection  *)
(*                                                                         *)
(* Rounding: |R - F*n*(p'-c)| <= 1/2 + eta per component (eta < 1e-6 for   *)
(* the float evaluation of the implementation and of the abstraction).     *)
(* For V = F*n*(p'-c) exactly on the ray of Q with |V|^2 = rho^2:          *)
(*    |R x Q| = |e x Q| <= (|Qy| + |Qx|)/2 (1 + 2 eta)                      *)
(*    | |R|^2 - rho^2 | = |2 V.e + |e|^2| <= |Ry| + |Rx| + 3/2 + ...       *)
(* which give the integer tolerances used below; no epsilon is guessed.    *)
(* Verdicts are total: every record is judged; a rejected record is        *)
(* printed with the failing clauses, its signature and the wanted value.   *)
(***************************************************************************)
EXTENDS Relocation, IOUtils

Trace == JsonDeserialize(IOEnv.TRACE_FILE)

VARIABLE i

Cl(n, b) == [n |-> n, ok |-> b]
T2(s) == << s[1], s[2] >>
Un(r) == { CellOf(r.u[k], r.w) : k \in DOMAIN r.u }
Limit == 16000      \* magnitude bound of every fixed-point quantity (products stay below 2^31)

\* ---- selection --------------------------------------------------------------
SubsOk(r) == /\ Len(r.sub) = Len(r.u)
             /\ \A k \in DOMAIN r.sub : r.sub[k] \in {1, 2, 3, 4, 6, 12}
ClausesSelect(r) ==
    LET u    == Un(r)
        offs == Offsets(r.sub)
        nfs  == SlimSeq(u, r.h, r.w)
        pix  == [k \in DOMAIN r.sbs |-> PixelOfSub(r.sbs[k], offs)]       \* slim pixel (1-based) of every entry, 0 = out of range
        inr  == \A k \in DOMAIN pix : pix[k] >= 1
        B    == IF inr THEN { nfs[pix[k]] : k \in DOMAIN pix } ELSE {}
        ctr  == Centre2(u)
    IN IF ~ SubsOk(r) THEN << Cl("record-well-formed", FALSE) >>
       ELSE
       << Cl("sub-index-in-range", inr),
          Cl("one-entry-per-border-pixel-ascending", inr /\ \A k \in 1 .. Len(pix) - 1 : pix[k] < pix[k+1]),
          Cl("covers-every-border-pixel", inr /\ BorderMust(u, r.h, r.w) \subseteq B),
          Cl("only-border-pixels", inr /\ B \subseteq BorderMay(u, r.h, r.w)),
          Cl("same-pixels-as-mask-border-slim", inr /\ r.bslim = [k \in DOMAIN pix |-> pix[k] - 1]),
          Cl("sub-pixel-is-a-farthest-from-bounding-box-centre",
             inr /\ \A k \in DOMAIN pix :
                       SubPos(r.sbs[k], pix[k], r.sub, offs) \in Best(nfs[pix[k]], r.sub[pix[k]], ctr)),
          Cl("sub-border-grid-is-those-sub-pixels",
             /\ inr /\ Len(r.sbg) = Len(r.sbs)
             /\ \A k \in DOMAIN pix :
                   LET q == SubPos(r.sbs[k], pix[k], r.sub, offs)
                       c == nfs[pix[k]]
                       s == r.sub[pix[k]]
                   IN Len(r.sbg[k]) = 2 /\ T2(r.sbg[k]) = << SubC(c[1], q[1], s), SubC(c[2], q[2], s) >>) >>

WantSelect(r) ==
    LET u == Un(r)
        offs == Offsets(r.sub)
        nfs == SlimSeq(u, r.h, r.w)
        bm == SelectSeq(nfs, LAMBDA c : c \in BorderMay(u, r.h, r.w))
    IN IF ~ SubsOk(r) THEN << >>
       ELSE [must |-> SetLin(BorderMust(u, r.h, r.w), r.w),
             any_of |-> [k \in DOMAIN bm |->
                            LET kk == Rank(bm[k], u, r.w)
                            IN { SubIndex(kk, q, r.sub, offs) : q \in Best(bm[k], r.sub[kk], Centre2(u)) }]]

\* the sub-border indices used by a relocation call are a valid selection for the relocator's mask and sub-size map
ValidSelection(r) ==
    LET u    == Un(r)
        offs == Offsets(r.sub)
        nfs  == SlimSeq(u, r.h, r.w)
        pix  == [k \in DOMAIN r.bidx |-> PixelOfSub(r.bidx[k], offs)]
        ctr  == Centre2(u)
    IN /\ SubsOk(r)
       /\ \A k \in DOMAIN pix : pix[k] >= 1
       /\ \A k \in 1 .. Len(pix) - 1 : pix[k] < pix[k+1]
       /\ LET B == { nfs[pix[k]] : k \in DOMAIN pix }
          IN BorderMust(u, r.h, r.w) \subseteq B /\ B \subseteq BorderMay(u, r.h, r.w)
       /\ \A k \in DOMAIN pix : SubPos(r.bidx[k], pix[k], r.sub, offs) \in Best(nfs[pix[k]], r.sub[pix[k]], ctr)

\* ---- relocation -------------------------------------------------------------
WellFormedReloc(r) ==
    /\ Len(r.bidx) >= 1
    /\ \A k \in DOMAIN r.grid : Len(r.grid[k]) = 2
    /\ \A k \in DOMAIN r.pts : Len(r.pts[k]) = 2
    /\ \A k \in DOMAIN r.bidx : r.bidx[k] >= 0 /\ r.bidx[k] < Len(r.grid)
Border(r) == [k \in DOMAIN r.bidx |-> T2(r.grid[r.bidx[k] + 1])]
Points(r) == IF r.own THEN r.grid ELSE r.pts

OutOk(r) == /\ Len(r.out) = Len(Points(r))
            /\ \A k \in DOMAIN r.out : Len(r.out[k]) = 4 /\ r.out[k][1] \in {0, 1} /\ r.out[k][4] >= 1

\* does outcome o explain the fixed-point result R (factor F) of the point with magnified offset q ?
ExplainsOutcome(o, q, R, F) ==
    IF ~ o.moved THEN R = << F*q[1], F*q[2] >>
    ELSE /\ 2 * Abs(Cross(R, q)) <= Abs(q[1]) + Abs(q[2]) + 2             \* on the line through the centroid and p
         /\ 2 * Dot(R, q) >= -(Abs(q[1]) + Abs(q[2]) + 2)                  \* on p's side of the centroid
         /\ Abs(N2(R) - F*F*o.r2) <= Abs(R[1]) + Abs(R[2]) + 2             \* at the radius of the nearest border point

ClausesReloc(r) ==
    IF r.raised THEN << Cl("no-exception", FALSE) >>
    ELSE IF ~ WellFormedReloc(r) THEN << Cl("record-well-formed", FALSE) >>
    ELSE IF ~ OutOk(r) THEN << Cl("count-preserved", FALSE) >>
    ELSE
    LET B     == Border(r)
        n     == Len(B)
        sb    == SumB(B)
        rb2   == RB2(B)
        rmin2 == SeqMin(rb2)
        rmax2 == SeqMax(rb2)
        P     == Points(r)
        q     == [k \in DOMAIN P |-> QQ(T2(P[k]), sb, n)]
        R     == [k \in DOMAIN P |-> << r.out[k][2], r.out[k][3] >>]
        F     == [k \in DOMAIN P |-> r.out[k][4]]
        qb    == [j \in DOMAIN B |-> QQ(B[j], sb, n)]
        mb    == SeqMax([j \in DOMAIN B |-> IF Abs(qb[j][1]) > Abs(qb[j][2]) THEN Abs(qb[j][1]) ELSE Abs(qb[j][2])])
        inrange == /\ mb <= Limit
                   /\ \A k \in DOMAIN P : /\ Abs(q[k][1]) <= Limit /\ Abs(q[k][2]) <= Limit
                                          /\ F[k] <= 1024
                                          /\ F[k] * Abs(q[k][1]) <= Limit /\ F[k] * Abs(q[k][2]) <= Limit
                                          /\ F[k] * mb <= Limit
        \* a legitimate result has |R| <= F*sqrt(2)*mb + 1 < 23000; anything beyond is recorded clamped to +-30000
        fits(k) == Abs(R[k][1]) <= 23000 /\ Abs(R[k][2]) <= 23000
        isBorderCopyAtRMin(k) == \E j \in DOMAIN B : B[j] = T2(P[k]) /\ rb2[j] = rmin2
    IN IF ~ inrange THEN << Cl("fixed-point-scale-in-range", FALSE) >>
       ELSE
       << Cl("count-preserved", Len(r.out) = Len(P)),
          Cl("border-is-a-valid-sub-border-of-the-mask", r.lat => ValidSelection(r)),
          Cl("inside-smallest-border-radius-bit-for-bit-unchanged",
             \A k \in DOMAIN P : (N2(q[k]) < rmin2 \/ (N2(q[k]) = rmin2 /\ isBorderCopyAtRMin(k))) => r.out[k][1] = 1),
          Cl("never-outward",
             \A k \in DOMAIN P : fits(k) /\ N2(R[k]) <= F[k]*F[k]*N2(q[k]) + Abs(R[k][1]) + Abs(R[k][2]) + 2),
          Cl("not-beyond-farthest-border-point",
             \A k \in DOMAIN P : fits(k) /\ N2(R[k]) <= F[k]*F[k]*rmax2 + Abs(R[k][1]) + Abs(R[k][2]) + 2),
          Cl("unchanged-or-on-ray-at-nearest-border-radius",
             \A k \in DOMAIN P : fits(k) /\ \E o \in OutcomesWith(T2(P[k]), B, rb2, rmin2, sb) :
                                               ExplainsOutcome(o, q[k], R[k], F[k])) >>

\* the wanted value for the first point that is not explained: its index, magnified offset, admissible outcomes
WantReloc(r) ==
    IF r.raised \/ ~ WellFormedReloc(r) \/ ~ OutOk(r) THEN << >>
    ELSE
    LET B == Border(r)
        sb == SumB(B)
        rb2 == RB2(B)
        P == Points(r)
        bad == { k \in DOMAIN P :
                   \/ ~ \E o \in OutcomesWith(T2(P[k]), B, rb2, SeqMin(rb2), sb) :
                          ExplainsOutcome(o, QQ(T2(P[k]), sb, Len(B)), << r.out[k][2], r.out[k][3] >>, r.out[k][4])
                   \/ (N2(QQ(T2(P[k]), sb, Len(B))) < SeqMin(rb2) /\ r.out[k][1] # 1) }
    IN IF bad = {} THEN [centroid_times_n |-> sb, n |-> Len(B)]
       ELSE LET k == Min(bad)
            IN [point |-> k - 1, p |-> P[k], q |-> QQ(T2(P[k]), sb, Len(B)), got |-> r.out[k],
                n |-> Len(B), centroid_times_n |-> sb, rmin2 |-> SeqMin(rb2), rmax2 |-> SeqMax(rb2),
                outcomes |-> OutcomesWith(T2(P[k]), B, rb2, SeqMin(rb2), sb), bad_points |-> Cardinality(bad)]

\* ---- signatures of the failing input class (used to match known findings) ----
Sig(r) ==
    IF r.api = "select"
    THEN IF SubsOk(r) /\ \A k \in DOMAIN r.sub : r.sub[k] = r.sub[1] THEN "select-uniform-sub" ELSE "select-mixed-sub"
    ELSE IF r.api = "relocate"
    THEN r.call \o (IF r.rep \in {"f64-irregular", "f64-ndarray"} THEN "" ELSE "-" \o r.rep)
                \o (IF r.off[1] # 0 \/ r.off[2] # 0 THEN "-far-from-origin" ELSE "")
                \o (IF r.hist > 0 THEN "-on-reused-relocator" ELSE "")
                \o (IF r.raised THEN "-raised" ELSE IF Len(r.bidx) = 1 THEN "-single-border-point" ELSE "")
    ELSE r.api

Clauses(r) == CASE r.api = "select" -> ClausesSelect(r)
                [] r.api = "relocate" -> ClausesReloc(r)
                [] OTHER -> << Cl("unknown-api", FALSE) >>
Want(r) == CASE r.api = "select" -> WantSelect(r)
             [] r.api = "relocate" -> WantReloc(r)
             [] OTHER -> << >>
Failed(r) == SelectSeq(Clauses(r), LAMBDA c : ~ c.ok)

TraceInit == /\ i = 1
             /\ shape = << 1, 1 >> /\ U = {} /\ phase = "trace" /\ obs = << >>
             /\ sub = << >> /\ bord = << >> /\ pt = << 0, 0 >>

TraceNext ==
    /\ i <= Len(Trace)
    /\ LET r == Trace[i]
           f == Failed(r)
       IN IF f = << >> THEN TRUE
          ELSE PrintT(ToJson([k |-> "reject", i |-> i, id |-> r.id,
                              clauses |-> [j \in DOMAIN f |-> f[j].n],
                              sig |-> Sig(r), want |-> Want(r)]))
    /\ i' = i + 1
    /\ UNCHANGED rvars

TraceSpec == TraceInit /\ [][TraceNext]_<< rvars, i >>
TraceAccepted == TLCGet("stats").diameter - 1 = Len(Trace)
=============================================================================
