---------------------------- MODULE VisNormalEq ----------------------------
(***************************************************************************)
(* X10: interferometer inversions solve the complex normal equations,      *)
(* identically in both formalisms.                                         *)
(*                                                                         *)
(* Statement modelled.  A dataset is a real-space mask, baselines, complex *)
(* visibilities d and a complex noise map (a separate sigma for the real   *)
(* and the imaginary part of every visibility); the model is an ordered    *)
(* list of linear objects with real mapping matrices M_o (mappers and      *)
(* function lists, any sign, any order).  With T = the forward transform   *)
(* of C13 (Dft.tla) applied to every column of [M_1 | M_2 | ...]:          *)
(*   mapping formalism                                                     *)
(*     D = Re(T)' (Re d / s_re^2) + Im(T)' (Im d / s_im^2)                  *)
(*     F = Re(T)' diag(1/s_re^2) Re(T) + Im(T)' diag(1/s_im^2) Im(T)        *)
(*         + the configured diagonal term on unregularised parameters,     *)
(*     blocks in linear-object order;                                      *)
(*   w-tilde formalism (real-space tables, one noise value per baseline:   *)
(*   defined for s_re = s_im, the documented input is the REAL noise map)  *)
(*     w_tilde[i,j] = sum_k cos(2 pi (u_k dx_ij + v_k dy_ij)) / s_k^2,      *)
(*     the preload table indexed by pixel offsets expands to w_tilde,      *)
(*     dirty image = adjoint of C13 applied to d / s^2 (per part),         *)
(*     D = M' dirty,  F = M' w_tilde M (+ the same diagonal term);         *)
(*   mapped reconstructed data = T s (mapping) = forward(M s) (w-tilde),   *)
(*   mapped reconstructed image = M s, per object and summed.              *)
(*                                                                         *)
(* Exact domain: Dft's quarter-turn lattice (pixel centres in half pixels, *)
(* baselines <<au, av>> in units of 1/(4 pixel), every phase a power of    *)
(* -i), Gaussian-integer visibilities, noise 2^e per part with e in        *)
(* -1..1 (weights 4/s^2 in {16,4,1}), integer mapping matrices (the real   *)
(* matrix times the object's scale: sub-size^2 for a mapper).  The module  *)
(* EXTENDS Dft and reuses its variables: shape, U, org, B describe the     *)
(* transformer, inp the dataset and the linear objects, obs what a call    *)
(* returns.                                                                *)
(***************************************************************************)
EXTENDS Dft

CONSTANTS
  Mult2,   \* multipliers of the baselines explored in sequences of length >= 2
  NSel,    \* (data, noise, object list) combinations explored per transformer
  Salt     \* rotates the selection (the driver passes its seed)

XAbs(x) == IF x < 0 THEN -x ELSE x
SetMax(S) == CHOOSE x \in S : \A y \in S : y <= x
SetMin(S) == CHOOSE x \in S : \A y \in S : y >= x

-----------------------------------------------------------------------------
(* Layer 1: meaning *)

\* ---- linear objects: [M |-> P x p integer matrix, reg |-> has a regularization, mapper |-> mapper / function list,
\* ----                  sub |-> sub-size (mappers), eps |-> the diagonal term in the object's integer units]
Width(o) == Len(o.M[1])
RECURSIVE Off(_, _)
Off(objs, o) == IF o = 1 THEN 0 ELSE Off(objs, o - 1) + Width(objs[o - 1])
Total(objs) == Off(objs, Len(objs)) + Width(objs[Len(objs)])
ObjOf(objs, c) == CHOOSE o \in 1 .. Len(objs) : c > Off(objs, o) /\ c <= Off(objs, o) + Width(objs[o])
\* the columns of the objects side by side, in list order
HStack(objs) ==
    TLCEval([p \in 1 .. Len(objs[1].M) |-> [c \in 1 .. Total(objs) |->
                LET o == ObjOf(objs, c) IN objs[o].M[p][c - Off(objs, o)]]])
DiagTerm(objs) ==
    TLCEval([c \in 1 .. Total(objs) |-> LET o == ObjOf(objs, c) IN IF objs[o].reg THEN 0 ELSE objs[o].eps])
AddDiag(F, dg) == [a \in 1 .. Len(F) |-> [c \in 1 .. Len(F) |-> F[a][c] + (IF a = c THEN dg[a] ELSE 0)]]

\* ---- mapping formalism --------------------------------------------------------------------------------------
TOf(objs, cen, bs) == TransformMatrix(HStack(objs), cen, bs)
DMap(t, v, wt) == DataVector(t, v, wt)
FMap(t, wt, objs) == AddDiag(Curvature(t, wt), DiagTerm(objs))

\* ---- w-tilde formalism: real-space tables ----------------------------------------------------------------------
\* quarter turns between two cells <<row, col>> for baseline b:  4 (u dx + v dy) with dx = dcol, dy = -drow pixels
QOff(ci, cj, b) == (ci[2] - cj[2]) * b[1] - (ci[1] - cj[1]) * b[2]
RealW(wt) == [k \in 1 .. Len(wt) |-> wt[k][1]]
WTable(sl, bs, wr) ==
    TLCEval([i \in 1 .. Len(sl) |-> [j \in 1 .. Len(sl) |->
                ISum([k \in 1 .. Len(bs) |-> CosQ(QOff(sl[i], sl[j], bs[k])) * wr[k]])]])

\* the offset ("preload") table: entry for a pixel pair j - i = (a rows down, b columns right)
PreAt(a, b, bs, wr) == ISum([k \in 1 .. Len(bs) |-> CosQ(b * bs[k][1] - a * bs[k][2]) * wr[k]])
Extent(un) == LET rows == {c[1] : c \in un}
                  cols == {c[2] : c \in un}
              IN << SetMax(rows) - SetMin(rows) + 1, SetMax(cols) - SetMin(cols) + 1 >>
\* laid out like the code: (2 ys) x (2 xs) entries, negative offsets addressed from the end; the middle row / column
\* (offset -ys / -xs) can never be asked for and holds 0
Signed(r, n) == IF r < n THEN r ELSE r - 2 * n
PreTable(ys, xs, bs, wr) ==
    TLCEval([r \in 1 .. 2 * ys |-> [c \in 1 .. 2 * xs |->
                IF r - 1 = ys \/ c - 1 = xs THEN 0 ELSE PreAt(Signed(r - 1, ys), Signed(c - 1, xs), bs, wr)]])
Wrap(a, n) == (a + 2 * n) % (2 * n)
ExpandAt(pre, ys, xs, ci, cj) == pre[Wrap(cj[1] - ci[1], ys) + 1][Wrap(cj[2] - ci[2], xs) + 1]
\* the full table from the offset table: upper triangle read at (cell_j - cell_i), mirrored below
Expand(pre, sl, ys, xs) ==
    [i \in 1 .. Len(sl) |-> [j \in 1 .. Len(sl) |->
        IF i <= j THEN ExpandAt(pre, ys, xs, sl[i], sl[j]) ELSE ExpandAt(pre, ys, xs, sl[j], sl[i])]]

\* dirty image: adjoint of the noise-weighted visibilities, each part with its own weight
Weighted(v, wt) == TLCEval([k \in 1 .. Len(v) |-> << v[k][1] * wt[k][1], v[k][2] * wt[k][2] >>])
Dirty(v, wt, cen, bs) == Adjoint(Weighted(v, wt), cen, bs)
\* the data term of the real parts alone (w_tilde_data): sum_k Re d_k / s_k^2 cos(2 pi (u_k x + v_k y))
WData(vr, wr, cen, bs) == Adjoint([k \in 1 .. Len(vr) |-> << vr[k] * wr[k], 0 >>], cen, bs)

DW(objs, dirty) ==
    LET m == HStack(objs) IN [c \in 1 .. Total(objs) |-> ISum([p \in 1 .. Len(m) |-> m[p][c] * dirty[p]])]
MtWM(m, tb) ==
    LET wm == TLCEval([p \in 1 .. Len(m) |-> [c \in 1 .. NCols(m) |-> ISum([q \in 1 .. Len(m) |-> tb[p][q] * m[q][c]])]])
    IN [a \in 1 .. NCols(m) |-> [c \in 1 .. NCols(m) |-> ISum([p \in 1 .. Len(m) |-> m[p][a] * wm[p][c]])]]
FW(objs, tb) == AddDiag(MtWM(HStack(objs), tb), DiagTerm(objs))

\* third formulation, structured like the offset-table loop of the code: every pixel carries a list of
\* <<mesh index, weight>>; strict upper triangle of pixel pairs read from the offset table, transposed, plus the
\* zero-offset term of every pixel with itself
PixM(pixw, np) ==
    TLCEval([i \in 1 .. Len(pixw) |-> [a \in 1 .. np |->
                ISum([q \in 1 .. Len(pixw[i]) |-> IF pixw[i][q][1] = a THEN pixw[i][q][2] ELSE 0])]])
FPre(pixw, np, pre, sl, ys, xs) ==
    LET m == PixM(pixw, np)
        upper == TLCEval([a \in 1 .. np |-> [c \in 1 .. np |->
                    ISum([i \in 1 .. Len(sl) |-> ISum([j \in 1 .. Len(sl) |->
                        IF j > i /\ m[i][a] # 0 /\ m[j][c] # 0
                        THEN m[i][a] * m[j][c] * ExpandAt(pre, ys, xs, sl[i], sl[j]) ELSE 0])])]])
    IN [a \in 1 .. np |-> [c \in 1 .. np |->
          upper[a][c] + upper[c][a] + ISum([i \in 1 .. Len(sl) |-> m[i][a] * m[i][c] * pre[1][1]])]]
\* the pixel lists of an integer matrix (non-zero entries of every row)
PixOfM(m) == [i \in 1 .. Len(m) |->
                 LET all == [a \in 1 .. NCols(m) |-> << a, m[i][a] >>] IN SelectSeq(all, LAMBDA e : e[2] # 0)]

\* ---- mapped reconstructions ---------------------------------------------------------------------------------
GMatVec(t, s) == [k \in 1 .. Len(t) |-> GSum([c \in 1 .. Len(t[k]) |-> GScale(s[c], t[k][c])])]
SliceOf(s, objs, o) == [c \in 1 .. Width(objs[o]) |-> s[Off(objs, o) + c]]

-----------------------------------------------------------------------------
(* Layer 2: the bounded machine.  Init chooses a transformer (every mask of  *)
(* the frames, baselines on the lattice) and a dataset / object list; the    *)
(* actions are the public steps: the dataset's w-tilde tables, an inversion  *)
(* in either formalism, the mapped reconstruction.                           *)

\* ---- families -------------------------------------------------------------------------------------------------
XBaselineSeqs ==
    LET one == {<< b >> : b \in Mult \X Mult}
        two == IF MaxB >= 2 THEN {<< a, b >> : a \in Mult2 \X Mult2, b \in Mult2 \X Mult2} ELSE {}
        three == IF MaxB >= 3 THEN {<< b, b, << 0, 0 >> >> : b \in Mult2 \X Mult2} ELSE {}    \* repeated and zero baseline
        four == IF MaxB >= 4 THEN {<< b, GNeg(b), << 0, 0 >>, << 2, -2 >> >> : b \in Mult2 \X Mult2} ELSE {}
    IN one \cup two \cup three \cup four

MapA(P) == [p \in 1 .. P |-> [a \in 1 .. 2 |-> IF a = ((p - 1) % 2) + 1 THEN 1 ELSE 0]]          \* sub-size 1, two mesh cells
MapB(P) == [p \in 1 .. P |-> CASE p % 3 = 1 -> << 4, 0, 0 >> [] p % 3 = 2 -> << 2, 2, 0 >> [] OTHER -> << 1, 0, 3 >>]  \* sub-size 2
MapC(P) == [p \in 1 .. P |-> << 1 >>]
FunA(P) == [p \in 1 .. P |-> << ((2 * p) % 5) - 2, IF p = 1 THEN 1 ELSE 0 >>]                    \* signed columns
FunB(P) == [p \in 1 .. P |-> << IF p % 2 = 0 THEN -1 ELSE 2 >>]
Mapper(m, sub, reg) == [M |-> m, reg |-> reg, mapper |-> TRUE, sub |-> sub, eps |-> sub * sub * sub * sub]
Func(m, reg) == [M |-> m, reg |-> reg, mapper |-> FALSE, sub |-> 1, eps |-> 1]
NLayouts == 7
LayoutOf(P, n) ==
    CASE n = 0 -> << Mapper(MapB(P), 2, TRUE) >>                                   \* m
      [] n = 1 -> << Mapper(MapA(P), 1, FALSE) >>                                  \* m, unregularised
      [] n = 2 -> << Mapper(MapA(P), 1, TRUE), Mapper(MapB(P), 2, FALSE) >>        \* mm
      [] n = 3 -> << Mapper(MapB(P), 2, TRUE), Func(FunA(P), FALSE) >>             \* mf
      [] n = 4 -> << Func(FunB(P), FALSE), Mapper(MapA(P), 1, TRUE) >>             \* fm
      [] n = 5 -> << Func(FunB(P), TRUE), Mapper(MapC(P), 1, FALSE) >>             \* fm, regularised function list
      [] OTHER -> << Func(FunA(P), FALSE) >>                                       \* f
NNoise == 12
NoiseOf(K, n) ==
    CASE n <= 8 -> [k \in 1 .. K |-> << (n \div 3) - 1, (n % 3) - 1 >>]            \* the same pair for every baseline
      [] n = 9 -> [k \in 1 .. K |-> << (k % 3) - 1, (k % 3) - 1 >>]                \* re = im, varying
      [] n = 10 -> [k \in 1 .. K |-> << (k % 3) - 1, ((k + 1) % 3) - 1 >>]         \* re # im, varying
      [] OTHER -> [k \in 1 .. K |-> << ((k + 1) % 3) - 1, ((k + 1) % 3) - 1 >>]
NData == 3
DataOf(K, n) ==
    CASE n = 0 -> [k \in 1 .. K |-> << 1, -2 >>]
      [] n = 1 -> [k \in 1 .. K |-> IF k % 2 = 1 THEN << -1, 1 >> ELSE << 2, 0 >>]
      [] OTHER -> [k \in 1 .. K |-> IF k = 1 THEN << 0, 3 >> ELSE GZero]
NCombo == NLayouts * NNoise * NData
ComboOf(P, K, n) ==
    LET objs == LayoutOf(P, n % NLayouts)
    IN [v |-> DataOf(K, (n \div (NLayouts * NNoise)) % NData),
        se |-> NoiseOf(K, (n \div NLayouts) % NNoise),
        objs |-> objs,
        s |-> [c \in 1 .. Total(objs) |-> ((3 * c) % 5) - 2]]       \* a reconstruction vector for the mapped quantities
\* the combinations explored for one transformer rotate with the transformer (and the driver's seed)
HashOf(un, bs, H, W) ==
    LET s == SlimSeq(un, H, W)
    IN (ISum([q \in 1 .. Len(s) |-> (Lin(s[q], W) + 1) * (q + 2)])
        + ISum([k \in 1 .. Len(bs) |-> 3 * bs[k][1] + 5 * bs[k][2] + 7 * k]) + 11 * Len(bs) + 13 * H + Salt) % NCombo
Selected(un, bs, H, W) == {(HashOf(un, bs, H, W) + 23 * t) % NCombo : t \in 0 .. NSel - 1}

EqualNoise(se) == \A k \in DOMAIN se : se[k][1] = se[k][2]

XInit == /\ shape \in Shapes
         /\ U \in MaskFamily(shape[1], shape[2])
         /\ org \in Origins
         /\ B \in {b \in XBaselineSeqs : OnLattice(Centres(U, shape[1], shape[2], org), b)}
         /\ inp \in {ComboOf(Cardinality(U), Len(B), n) : n \in Selected(U, B, shape[1], shape[2])}
         /\ phase = "given"
         /\ obs = << >>

XDump ==
    LET s == SlimSeq(U, HH, WW)
    IN PrintT(ToJson([k |-> "inst", h |-> HH, w |-> WW, u |-> [q \in 1 .. Len(s) |-> Lin(s[q], WW)],
                      org |-> org, b |-> B, v |-> inp.v, se |-> inp.se, emax |-> EMax, objs |-> inp.objs, s |-> inp.s]))

XSl == SlimSeq(U, HH, WW)
XWt == Weights(inp.se, EMax)

\* Interferometer.w_tilde: the tables of the dataset (functions of mask, baselines, real noise; the dirty image of the data)
BuildTables ==
    /\ phase = "given"
    /\ \E ext \in {Extent(U)} : \E wt \in {XWt} : \E wr \in {RealW(wt)} :
          obs' = [wt |-> WTable(XSl, B, wr), pre |-> PreTable(ext[1], ext[2], B, wr), ext |-> ext,
                  dirty |-> Dirty(inp.v, wt, CC, B)]
    /\ XDump
    /\ phase' = "tables"
    /\ UNCHANGED << shape, U, org, B, inp >>

\* InversionInterferometerMapping
InvertMapping ==
    /\ phase = "tables"
    /\ \E t \in {TOf(inp.objs, CC, B)} : \E wt \in {XWt} :
          obs' = [t |-> t, d |-> DMap(t, inp.v, wt), f |-> FMap(t, wt, inp.objs)]
    /\ phase' = "mapping"
    /\ UNCHANGED << shape, U, org, B, inp >>

\* InversionInterferometerWTilde: only the tables and the untransformed mapping matrices are used
InvertWTilde ==
    /\ phase = "tables"
    /\ obs' = [d |-> DW(inp.objs, obs.dirty), f |-> FW(inp.objs, obs.wt), tabs |-> obs]
    /\ phase' = "wtilde"
    /\ UNCHANGED << shape, U, org, B, inp >>

\* mapped reconstructed data / image for the reconstruction inp.s: mapping route (T s), w-tilde route (forward(M s))
MapBack ==
    /\ phase \in {"mapping", "wtilde"}
    /\ LET objs == inp.objs
           img == [o \in 1 .. Len(objs) |-> MatVec(objs[o].M, SliceOf(inp.s, objs, o))]
       IN obs' = [via |-> phase,
                  image |-> img,
                  data |-> IF phase = "mapping"
                           THEN [o \in 1 .. Len(objs) |-> GMatVec(TransformMatrix(objs[o].M, CC, B), SliceOf(inp.s, objs, o))]
                           ELSE [o \in 1 .. Len(objs) |-> Vis(img[o], CC, B)]]
    /\ phase' = "mapped"
    /\ UNCHANGED << shape, U, org, B, inp >>

XNext == BuildTables \/ InvertMapping \/ InvertWTilde \/ MapBack
XSpec == XInit /\ [][XNext]_vars

-----------------------------------------------------------------------------
(* Layer 3: design-level theorems *)

XOnLattice == OnLattice(CC, B)

\* the offset table expands to the full table
PreloadExpandsToFullTable ==
    phase = "tables" => Expand(obs.pre, XSl, obs.ext[1], obs.ext[2]) = obs.wt

\* the real-space cosine table is the noise-weighted Gram matrix of C13's phases (whatever the origin), symmetric,
\* with the total weight on the diagonal and nowhere exceeded
WTildeIsGramOfPhases ==
    phase = "tables" =>
        \A c \in {CC} : \A wr \in {RealW(XWt)} : \A tot \in {ISum(wr)} :
        \A ph \in {[p \in 1 .. Len(c) |-> [k \in 1 .. KK |-> Phase(N(c[p], B[k]))]]} :
           \A i \in 1 .. Len(c) : \A j \in 1 .. Len(c) :
              /\ obs.wt[i][j] = ISum([k \in 1 .. KK |-> wr[k] * (ph[i][k][1] * ph[j][k][1] + ph[i][k][2] * ph[j][k][2])])
              /\ obs.wt[i][j] = obs.wt[j][i]
              /\ obs.wt[i][i] = tot /\ XAbs(obs.wt[i][j]) <= tot
              /\ obs.pre[1][1] = tot

\* a zero baseline contributes its weight to every entry (the all-ones Gram matrix)
ZeroBaselineAllOnes ==
    phase = "tables" =>
        LET wr == RealW(XWt)
        IN \A k \in 1 .. KK : B[k] = << 0, 0 >> =>
              WTable(XSl, << B[k] >>, << wr[k] >>) = [i \in 1 .. PP |-> [j \in 1 .. PP |-> wr[k]]]

\* the dirty image splits into the data terms of the parts, each weighted with its own noise
DirtyImageSplitsIntoParts ==
    phase = "tables" =>
        LET wt == XWt
            c == CC
            re == WData([k \in 1 .. KK |-> inp.v[k][1]], RealW(wt), c, B)
            im == Adjoint([k \in 1 .. KK |-> << 0, inp.v[k][2] * wt[k][2] >>], c, B)
        IN obs.dirty = [p \in 1 .. PP |-> re[p] + im[p]]

\* F is symmetric and, without the diagonal term, the Gram form of x |-> T x (so positive semi-definite)
XQuad(t, x, wt) ==
    LET v == GMatVec(t, x)
    IN ISum([k \in 1 .. Len(t) |-> v[k][1] * v[k][1] * wt[k][1] + v[k][2] * v[k][2] * wt[k][2]])
FIsSymmetricGram ==
    phase = "mapping" =>
        \A J \in {Total(inp.objs)} : \A wt \in {XWt} : \A dg \in {DiagTerm(inp.objs)} :
        LET e(j) == TLCEval([l \in 1 .. J |-> IF l = j THEN 1 ELSE 0])
            pm(i, j, sg) == TLCEval([l \in 1 .. J |-> (IF l = i THEN 1 ELSE 0) + (IF l = j THEN sg ELSE 0)])
            g(i, j) == obs.f[i][j] - (IF i = j THEN dg[i] ELSE 0)
        IN \A i \in 1 .. J : \A j \in 1 .. J :
              /\ obs.f[i][j] = obs.f[j][i]
              /\ (i # j => /\ g(i, i) + g(j, j) + 2 * g(i, j) = XQuad(obs.t, pm(i, j, 1), wt)
                           /\ g(i, i) + g(j, j) - 2 * g(i, j) = XQuad(obs.t, pm(i, j, -1), wt)
                           /\ g(i, i) + g(j, j) - 2 * g(i, j) >= 0)
              /\ g(i, i) = XQuad(obs.t, e(i), wt) /\ g(i, i) >= 0

\* block (oa, ob) of F and block o of D depend on those objects alone, at the offsets given by the list order;
\* the diagonal term sits exactly on the unregularised parameters
BlocksFollowObjectOrder ==
    phase = "mapping" =>
        \A objs \in {inp.objs} : \A wt \in {XWt} : \A c \in {CC} :
        \A to \in {[o \in 1 .. Len(objs) |-> TransformMatrix(objs[o].M, c, B)]} :
           /\ \A o \in 1 .. Len(objs) : \A dvo \in {DataVector(to[o], inp.v, wt)} : \A a \in 1 .. Width(objs[o]) :
                 obs.d[Off(objs, o) + a] = dvo[a]
           /\ \A oa \in 1 .. Len(objs) : \A ob \in 1 .. Len(objs) :
                 \A a \in 1 .. Width(objs[oa]) : \A e \in 1 .. Width(objs[ob]) :
                    obs.f[Off(objs, oa) + a][Off(objs, ob) + e]
                      = ISum([k \in 1 .. KK |-> to[oa][k][a][1] * to[ob][k][e][1] * wt[k][1]
                                                + to[oa][k][a][2] * to[ob][k][e][2] * wt[k][2]])
                        + (IF oa = ob /\ a = e /\ ~ objs[oa].reg THEN objs[oa].eps ELSE 0)

\* reversing the list moves every block to the mirrored position and changes no value
Reverse(s) == [k \in 1 .. Len(s) |-> s[Len(s) + 1 - k]]
ReversedListPermutesBlocks ==
    phase = "mapping" =>
        \A objs \in {inp.objs} : \A rev \in {Reverse(inp.objs)} : \A L \in {Len(inp.objs)} : \A wt \in {XWt} :
        \A t2 \in {TOf(rev, CC, B)} : \A d2 \in {TLCEval(DMap(t2, inp.v, wt))} : \A f2 \in {TLCEval(FMap(t2, wt, rev))} :
        LET pos(o, a) == Off(rev, L + 1 - o) + a        \* where column a of object o sits in the reversed list
        IN \A oa \in 1 .. L : \A a \in 1 .. Width(objs[oa]) :
              /\ d2[pos(oa, a)] = obs.d[Off(objs, oa) + a]
              /\ \A ob \in 1 .. L : \A e \in 1 .. Width(objs[ob]) :
                    f2[pos(oa, a)][pos(ob, e)] = obs.f[Off(objs, oa) + a][Off(objs, ob) + e]

\* what makes the power-of-two scaling of the bindings sound: D is linear in d, F does not depend on d; halving every
\* sigma (weights times 4) quadruples D and F without its diagonal term
Homogeneity ==
    phase = "mapping" =>
        \A J \in {Total(inp.objs)} : \A v2 \in {[k \in 1 .. KK |-> GScale(2, inp.v[k])]} :
        \A w4 \in {Weights(inp.se, EMax + 1)} : \A dg \in {DiagTerm(inp.objs)} :
           /\ DMap(obs.t, v2, XWt) = [j \in 1 .. J |-> 2 * obs.d[j]]
           /\ DMap(obs.t, inp.v, w4) = [j \in 1 .. J |-> 4 * obs.d[j]]
           /\ Curvature(obs.t, w4) = [i \in 1 .. J |-> [j \in 1 .. J |-> 4 * (obs.f[i][j] - (IF i = j THEN dg[i] ELSE 0))]]

\* THE theorem: with one noise value per baseline the w-tilde formulation equals the mapping formulation
WTildeEqualsMapping ==
    (phase = "wtilde" /\ EqualNoise(inp.se)) =>
        \A t \in {TOf(inp.objs, CC, B)} : \A wt \in {XWt} :
           obs.d = DMap(t, inp.v, wt) /\ obs.f = FMap(t, wt, inp.objs)
\* in general its data vector is still the one of the mapping formalism (the dirty image weights each part with its own
\* noise), and its curvature matrix is the one of the mapping formalism for the noise map Re(sigma) (1 + i)
WTildeUsesRealNoise ==
    phase = "wtilde" =>
        \A t \in {TOf(inp.objs, CC, B)} : \A wt \in {XWt} :
        \A wrr \in {[k \in 1 .. KK |-> << wt[k][1], wt[k][1] >>]} :
           obs.d = DMap(t, inp.v, wt) /\ obs.f = FMap(t, wrr, inp.objs)
\* the offset-table loop gives the same curvature matrix as the full table
PreloadRouteEqualsTableRoute ==
    phase = "wtilde" =>
        LET m == HStack(inp.objs)
            tb == obs.tabs
        IN AddDiag(FPre(PixOfM(m), NCols(m), tb.pre, XSl, tb.ext[1], tb.ext[2]), DiagTerm(inp.objs)) = obs.f

\* mapped reconstructed data: T s (mapping formalism) equals the forward transform of the mapped image M s (w-tilde
\* formalism), per object; images are M s
MappedDataRoutesAgree ==
    phase = "mapped" =>
        LET objs == inp.objs
        IN \A o \in 1 .. Len(objs) :
              LET so == SliceOf(inp.s, objs, o)
              IN /\ obs.image[o] = MatVec(objs[o].M, so)
                 /\ obs.data[o] = GMatVec(TransformMatrix(objs[o].M, CC, B), so)
                 /\ obs.data[o] = Vis(obs.image[o], CC, B)
\* the summed mapped data is T s for the stacked matrices
MappedDataSumsOverObjects ==
    phase = "mapped" =>
        \A objs \in {inp.objs} : \A tot \in {GMatVec(TOf(objs, CC, B), inp.s)} :
           \A k \in 1 .. KK : tot[k] = GSum([o \in 1 .. Len(objs) |-> obs.data[o][k]])
=============================================================================
