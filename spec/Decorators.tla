----------------------------- MODULE Decorators -----------------------------
(***************************************************************************)
(* The structure decorators of PyAutoArray (C17): to_array, to_grid,       *)
(* to_vector_yx, project_grid, transform, relocate_to_radial_minimum.      *)
(*                                                                         *)
(* The user function is abstracted as a TABLE function of the coordinate   *)
(* it receives: f(p) = Tag(p), where the tag of input coordinate k (slim   *)
(* order, 0-based) is k itself and a coordinate that is not in the input   *)
(* gets a fresh tag.  With this abstraction the three things the property  *)
(* talks about are visible at once: which points reach the function, in    *)
(* which order, and which returned entry ends up at which position of      *)
(* which container.                                                        *)
(*                                                                         *)
(* Real-valued results (relocated coordinates, radially projected lines)   *)
(* are compared in FIXED POINT: a point is recorded as round(coordinate *  *)
(* S) in lattice units and the defining relation (collinearity, sense,     *)
(* squared radius) is checked in integer arithmetic with a tolerance       *)
(* derived from the rounding (+-1/2 unit per component), see the comments  *)
(* at RadiusIs / Parallel / OnLine.                                        *)
(*                                                                         *)
(* Layer 1 (meaning) is parametrised by shapes etc., so the trace          *)
(* specification reuses it on records that carry their own shapes.         *)
(***************************************************************************)
EXTENDS Integers, Sequences, FiniteSets, TLC, Json, SequencesExt, FiniteSetsExt

CONSTANTS Shapes,      \* set of <<H,W>>: frames of the 2D masks explored (every non-empty mask of each)
          MidShapes,   \* subset of Shapes used for the calls that carry a geometry (project, transform, relocate)
          Lens,        \* lengths of the 1D grids (every non-empty 1D mask) and of the irregular coordinate sets
          Geoms,       \* set of <<s, cy, cx, R>>: pixel scale s (even), profile centre (cy,cx), radial minimum R, in units
          PGeoms,      \* set of <<s, cy, cx>> for project_grid on 2D grids
          Depths,      \* nesting depths of transform-decorated calls
          Lattice,     \* coordinates (units) of the single points explored exhaustively for the radial minimum
          TinyEps,     \* indices of the tiny lengths eps (1e-13, 1e-15, 2^-60, ...: far below any lattice unit) ...
          TinyDirs,    \* ... and small integer directions <<dy,dx>>: the coordinate eps*(dy,dx), a hair away from the centre
          TinyShapes,  \* frames of the 2D grids whose central pixel is such a coordinate
          HistShapes,  \* history machine: frames of the 2D grids (every non-empty mask) ...
          HistLens,    \* ... lengths of the 1D grids (every non-empty 1D mask) and irregular coordinate sets ...
          HistGeoms,   \* ... geometries <<s, cy, cx, R>> of the 2D grids (R alone is used for irregular sets) ...
          HistLen,     \* ... and the number of decorated calls made on ONE grid object
          DerShapes, DerLens, DerGeoms,   \* the same for the histories with a Derive step between the first and the second call
          DerOps,      \* the derivations << code, a, b, c >>: 1 = add the scalar a, 2 = multiply by the scalar a,
                       \*   3 = item assignment in place: position a (0-based) := b (1D) / (b, c) (2D), 4 = slice [a:]
          ProjShapes,  \* frames of the 2D grids handed to project_grid
          Families,    \* which families of instances this run explores ("wrap", "project", "transform", "reloc", "tiny"): TLC's
                       \*   initial-state phase is single-threaded and superlinear, large bounds are split over several runs
          RecShapes, RecLens, RecGeoms,   \* histories with a Reconfigure step between the first and the second (relocating) call
          Confs,       \* the configurations (1 = the one in force when the process starts) a Reconfigure step may push
          ClsShapes, ClsLens,   \* frames / lengths of the grids handed over as instances of a SUBCLASS of their grid kind
          AngleQs      \* profile angles as multiples of 90 degrees (-2 .. 5 covers every quadrant and beyond a full turn);
                       \*   99 = the profile has no angle attribute, 98 = a numeric angle picked by the harness

Zero == -1   \* source tag "this position holds 0" (a masked position of a native view)

-----------------------------------------------------------------------------
(* Layer 1: meaning *)

Abs(x) == IF x < 0 THEN -x ELSE x
Iota(n) == [k \in 1 .. n |-> k - 1]

\* ---- masks and the slim order (the order of C01 / Masks.tla) --------------
Cells(H, W) == (0 .. H-1) \X (0 .. W-1)
Lin(c, W) == c[1] * W + c[2]
CellOf(k, W) == << k \div W, k % W >>
RowMajor(H, W) == [k \in 1 .. H*W |-> CellOf(k-1, W)]
SlimSeq(U, H, W) == SelectSeq(RowMajor(H, W), LAMBDA c : c \in U)
Rank(c, U, W) == 1 + Cardinality({d \in U : Lin(d, W) < Lin(c, W)})
\* the native view of a container whose slim entries are `slim`
Scatter(slim, U, H, W) ==
    [k \in 1 .. H*W |-> IF CellOf(k-1, W) \in U THEN slim[Rank(CellOf(k-1, W), U, W)] ELSE Zero]

\* ---- which container mirrors which grid -----------------------------------
\* grid kinds: "g2d" uniform 2D grid on a mask, "irr" irregular coordinate set, "g1d" uniform 1D grid on a 1D mask,
\*             "nd" a plain [n,2] array (pass-through decorators only)
\* result kinds: "values" one number per coordinate, "pairs" one (y,x) pair per coordinate
AnyKind == "Any"    \* the statement does not pin the container class
ContainerKind(api, gk, rk) ==
    CASE api \in {"to_array", "stack_array"} ->
             (CASE gk = "g2d" -> "Array2D" [] gk = "irr" -> "ArrayIrregular" [] gk = "g1d" -> "Array1D" [] OTHER -> AnyKind)
      [] api \in {"to_grid", "stack_grid"} ->
             (CASE gk = "g2d" -> "Grid2D" [] gk = "irr" -> "Grid2DIrregular" [] OTHER -> AnyKind)
      [] api = "to_vector_yx" ->
             (CASE gk = "g2d" -> "VectorYX2D" [] gk = "irr" -> "VectorYX2DIrregular" [] OTHER -> AnyKind)
      [] api = "project" ->
             (CASE gk \in {"g2d", "g1d"} -> "Array1D"
                [] gk = "irr" -> (IF rk = "values" THEN "ArrayIrregular" ELSE "Grid2DIrregular")
                [] OTHER -> AnyKind)
      [] OTHER -> AnyKind          \* pass-through decorators return what the function returns
ResultKindOf(api) == IF api \in {"to_array", "stack_array"} THEN "values" ELSE "pairs"
\* the combinations the property speaks about (there is no 1D vector-field container; plain functions of a projected
\* line return one value per point)
InDomain(api, gk, rk) ==
    CASE api \in {"to_array", "to_grid"}          -> gk \in {"g2d", "irr", "g1d"} /\ rk = ResultKindOf(api)
      [] api = "to_vector_yx"                      -> gk \in {"g2d", "irr"} /\ rk = "pairs"
      [] api = "project"                           -> (gk \in {"g2d", "g1d"} /\ rk = "values") \/ gk = "irr"
      [] api \in {"stack_array", "stack_grid"}     -> gk \in {"g2d", "irr"} /\ rk = ResultKindOf(api)
      [] api \in {"transform", "reloc"}            -> gk \in {"g2d", "irr", "nd"}
      [] OTHER -> FALSE
Elements(lst) == IF lst THEN 2 ELSE 1
\* The grid KIND is what the property speaks about; the concrete CLASS of the grid object may be the kind's own class ("base"),
\* another public class of that kind ("uniform": Grid2DIrregularUniform is a Grid2DIrregular) or a subclass defined downstream
\* ("sub": class MyGrid(aa.Grid2D): pass).  A grid of any class of a kind is judged exactly like the kind.
ClassesOf(gk) == CASE gk = "irr" -> {"base", "uniform", "sub"} [] gk \in {"g2d", "g1d"} -> {"base", "sub"} [] OTHER -> {"base"}

\* What a wrapping decorator returns for a function that received the points with tags `rid` (in this order):
\* every element of the result holds entry k = f(point k); a 2D container additionally lives on the input mask.
Dispatch(api, gk, rk, lst, rid, U, H, W) ==
    [ kind   |-> ContainerKind(api, gk, rk),
      islist |-> lst,
      out    |-> [e \in 1 .. Elements(lst) |-> rid],
      nat    |-> IF gk = "g2d" THEN [e \in 1 .. Elements(lst) |-> Scatter(rid, U, H, W)] ELSE << >> ]

\* ---- small integer vectors -------------------------------------------------
Dot(a, b) == a[1] * b[1] + a[2] * b[2]
Cross(a, b) == a[1] * b[2] - a[2] * b[1]
N1(a) == Abs(a[1]) + Abs(a[2])
Sub(a, b) == << a[1] - b[1], a[2] - b[2] >>
Add(a, b) == << a[1] + b[1], a[2] + b[2] >>
Scal(k, a) == << k * a[1], k * a[2] >>
Lim == 30000         \* fixed-point components are kept below this so that no product leaves 32 bits
MaxRS == 16384       \* ... and radii / line coordinates times S below this
InRange(a) == Len(a) = 2 /\ Abs(a[1]) <= Lim /\ Abs(a[2]) <= Lim

\* ---- radial minimum ---------------------------------------------------------
\* p: exact coordinate relative to the profile centre (units); q: the coordinate the function received, recorded as
\* round(coordinate * S); R: radial minimum (units).
Norm2(p) == Dot(p, p)
Far(p, R) == Norm2(p) >= R * R        \* not closer than the minimum: must reach the function unchanged
\* |q| = R*S.  q = t + e with |t| = R*S exactly and |e_i| <= 1/2, so | |q|^2 - (RS)^2 | = |2 t.e + e.e| <= N1(t) + 1/2
\* <= N1(q) + 3/2.
RadiusIs(q, RS) == InRange(q) /\ Abs(Dot(q, q) - RS * RS) <= N1(q) + 2
\* q parallel to p with the same sense: Cross(t, p) = 0, so |Cross(q, p)| = |Cross(e, p)| <= N1(p) / 2.
Parallel(q, p) == InRange(q) /\ Abs(Cross(q, p)) <= (N1(p) + 1) \div 2 + 1 /\ Dot(q, p) > 0
MovedToMinimum(p, q, R, S) == RadiusIs(q, R * S) /\ Parallel(q, p)
\* A coordinate a hair away from the centre (a rounding residue, eps*(dy,dx) with eps far below the lattice unit) is not at
\* the centre: it is closer than the minimum for every R > 0 -- never Far -- and its ray is the integer direction (dy,dx);
\* collinearity and sense do not depend on the length of p, so the same postcondition applies with p := (dy,dx).
TinyToMinimum(d, q, R, S) == d # <<0, 0>> /\ MovedToMinimum(d, q, R, S)
\* a coordinate exactly at the centre has no ray: any point of the circle of radius R is "radially outward at exactly
\* the minimum"
CentreToMinimum(q, R, S) == RadiusIs(q, R * S)

\* The implementation's formulation: multiply by R / r where r = |p|.  It is modelled exactly for the lattice points
\* with an integer radius (axis points and Pythagorean triples); Rounded(n, d) = nearest integer to n / d.
Rounded(n, d) == IF n >= 0 THEN (2 * n + d) \div (2 * d) ELSE -((-2 * n + d) \div (2 * d))
IntRadius(p) == CHOOSE r \in 0 .. N1(p) : r * r = Norm2(p)
HasIntRadius(p) == \E r \in 0 .. N1(p) : r * r = Norm2(p)
ScaleByRatio(p, R, S) ==
    IF Far(p, R) THEN Scal(S, p)
    ELSE << Rounded(p[1] * R * S, IntRadius(p)), Rounded(p[2] * R * S, IntRadius(p)) >>

\* ---- configuration ------------------------------------------------------------
\* The radial minimum of a profile class is CONFIGURATION (grids.yaml, section radial_minimum) and configuration can change
\* while a process runs (another config directory is pushed).  A relocating call uses the minimum configured when it is made.
\* The configurations of the harness (harness/conf, conf_c17b, conf_c17c), in units of 1/4:
ConfMin(c, prof) ==
    CASE c = 1 -> (IF prof = "VProfile" THEN 10 ELSE 3)        \* 2.5  / 0.75
      [] c = 2 -> (IF prof = "VProfile" THEN 3 ELSE 10)        \* 0.75 / 2.5
      [] OTHER -> (IF prof = "VProfile" THEN 5 ELSE 6)         \* 1.25 / 1.5
\* the profile class of an instance is fixed by the minimum it has in configuration 1 (par[4])
ProfOf(R1) == IF R1 = 10 THEN "VProfile" ELSE "VProfileSmall"
\* configuration in force after the reconfigurations cs (in order)
InForce(cs) == IF cs = << >> THEN 1 ELSE cs[Len(cs)]

\* ---- radially projected lines -------------------------------------------------
\* 1D grid of n pixels, pixel scale s (even, units), origin o: coordinate of pixel j (0-based)
Coord1D(j, n, s, o) == o + (2 * j - (n - 1)) * (s \div 2)
\* the coordinates of the unmasked pixels u (ascending pixel indices) in slim order
Coords1D(u, n, s, o) == [k \in 1 .. Len(u) |-> Coord1D(u[k], n, s, o)]
\* The NUMBER of points a 2D grid is projected on (documented: the longest of the four paths from the centre to the edge of the
\* grid's extent, counted in pixel scales, plus the centre itself).  Frame h x w, pixel scale s (even), origin o, centre c, in
\* units: the half extents are h*s/2 and w*s/2, the longest path is d, the count is floor(d / s) + 1.
LongestPath(h, w, s, o, c) ==
    LET dy == (h * (s \div 2)) + Abs(c[1] - o[1])
        dx == (w * (s \div 2)) + Abs(c[2] - o[2])
    IN IF dy >= dx THEN dy ELSE dx
ProjectedCount(h, w, s, o, c) == LongestPath(h, w, s, o, c) \div s + 1
\* When d is an exact multiple of s and the unit is not a power of two, d / s is computed with two rounded operands and may
\* come out just below the integer: one point fewer is then accepted (never one more).  k0 = 1: the centre point is removed.
CountOk(n, k0, h, w, s, o, c, dyadic) ==
    LET N == ProjectedCount(h, w, s, o, c) - k0
    IN n = N \/ (~ dyadic /\ LongestPath(h, w, s, o, c) % s = 0 /\ n = N - 1)
\* a 2D grid projected from a centre: n points, the first one k0 steps from the centre, spaced by the pixel scale
ProjXs(n, s, k0) == [k \in 1 .. n |-> (k0 + k - 1) * s]

\* The points q (fixed point, scale S) lie on one line through c (units) with ONE unit direction d, point k at signed
\* distance xs[k] (units) from c: q[k] = S*c + S*xs[k]*d.  The direction is not fixed.  With v[k] = q[k] - S*c and m a
\* point of largest |xs|:   Cross(v[k], v[m]) = 0   and   Dot(v[k], v[m]) = xs[k]*xs[m]*S^2   for every k
\* (for k = m this is |v[m]| = |xs[m]|*S; together they give v[k] = xs[k]*S*d with d = v[m]/(xs[m]*S), |d| = 1).
\* Rounding: v = t + e, |e_i| <= 1/2: |Dot(v_k,v_m) - Dot(t_k,t_m)| <= (N1(t_k) + N1(t_m))/2 + 1/2, same for Cross.
OnLine(q, c, xs, S) ==
    /\ Len(q) = Len(xs)
    /\ \A k \in DOMAIN xs : Abs(xs[k]) * S <= MaxRS
    /\ \A k \in DOMAIN q : Len(q[k]) = 2 /\ InRange(Sub(q[k], Scal(S, c)))
    /\ Len(xs) > 0 =>
         LET v == [k \in DOMAIN q |-> Sub(q[k], Scal(S, c))]
             m == CHOOSE k \in DOMAIN xs : \A j \in DOMAIN xs : Abs(xs[j]) <= Abs(xs[k])
         IN \A k \in DOMAIN q :
               LET B == (N1(v[k]) + N1(v[m]) + 1) \div 2 + 2
               IN /\ Abs(Cross(v[k], v[m])) <= B
                  /\ Abs(Dot(v[k], v[m]) - (xs[k] * S) * (xs[m] * S)) <= B

\* The DIRECTION of the line.  The documented construction: the points start on the half-line from the centre along +x and
\* are rotated CLOCKWISE by the line angle; project_grid uses the profile's angle + 90 degrees (0 when the profile has none),
\* to_array / to_grid on a 1D grid use 0.  In (y, x) components the unit direction for a line angle of t quarter turns:
QuarterDir(t) == CASE ((t % 4) + 4) % 4 = 0 -> << 0, 1 >>
                   [] ((t % 4) + 4) % 4 = 1 -> << -1, 0 >>
                   [] ((t % 4) + 4) % 4 = 2 -> << 0, -1 >>
                   [] OTHER                 -> << 1, 0 >>
NoAngle == 99
NumericAngle == 98
\* line angle, in quarter turns, of project_grid for a profile angle of aq quarter turns
ProjectLineQ(aq) == IF aq = NoAngle THEN 0 ELSE aq + 1
DS == 16384    \* a direction D is recorded as round(DS * unit vector); for quarter turns it is exact
IsUnit(D) == Len(D) = 2 /\ Abs(D[1]) <= DS /\ Abs(D[2]) <= DS /\ Abs(Dot(D, D) - DS * DS) <= N1(D) + 1
\* q[k] = S*c + S*xs[k]*D/DS component by component.  Rounding: 1/2 for q, at most |xs[k]*S|/DS * 1/2 <= 1/2 for D, 1/2 for
\* the division: tolerance 2.
OnRay(q, c, xs, S, D) ==
    /\ Len(q) = Len(xs) /\ IsUnit(D)
    /\ \A k \in DOMAIN xs : Abs(xs[k]) * S <= MaxRS
    /\ \A k \in DOMAIN q :
          /\ Len(q[k]) = 2 /\ InRange(q[k])
          /\ \A j \in 1 .. 2 : Abs(q[k][j] - S * c[j] - Rounded((xs[k] * S) * D[j], DS)) <= 2

\* ---- grids derived by the caller ------------------------------------------------
\* Arithmetic with a scalar, slicing and item assignment give the caller a grid with NEW coordinates; a decorated call on
\* that grid is evaluated at those.  A derivation is << code, a, b, c >> (see DerOps).
Derive1D(xs, op) ==
    CASE op[1] = 1 -> [k \in DOMAIN xs |-> xs[k] + op[2]]
      [] op[1] = 2 -> [k \in DOMAIN xs |-> op[2] * xs[k]]
      [] op[1] = 3 -> [k \in DOMAIN xs |-> IF k = op[2] + 1 THEN op[3] ELSE xs[k]]
      [] OTHER     -> SubSeq(xs, op[2] + 1, Len(xs))
Derive2D(ps, op) ==
    CASE op[1] = 1 -> [k \in DOMAIN ps |-> << ps[k][1] + op[2], ps[k][2] + op[2] >>]
      [] op[1] = 2 -> [k \in DOMAIN ps |-> << op[2] * ps[k][1], op[2] * ps[k][2] >>]
      [] op[1] = 3 -> [k \in DOMAIN ps |-> IF k = op[2] + 1 THEN << op[3], op[4] >> ELSE << ps[k][1], ps[k][2] >>]
      [] OTHER     -> SubSeq(ps, op[2] + 1, Len(ps))
RECURSIVE DeriveAll(_, _, _)
DeriveAll(cs, ops, twoD) ==
    IF ops = << >> THEN cs
    ELSE DeriveAll(IF twoD THEN Derive2D(cs, Head(ops)) ELSE Derive1D(cs, Head(ops)), Tail(ops), twoD)
\* the same on TERMS << source position (0-based, -1 = assigned constant), factor, offset >>: coordinate = factor * built
\* coordinate of the source + offset (the machine does not know the built coordinates, only where each one went)
BuiltTerms(n) == [k \in 1 .. n |-> << k - 1, 1, 0 >>]
DeriveTerms(g, op) ==
    CASE op[1] = 1 -> [k \in DOMAIN g |-> << g[k][1], g[k][2], g[k][3] + op[2] >>]
      [] op[1] = 2 -> [k \in DOMAIN g |-> << g[k][1], op[2] * g[k][2], op[2] * g[k][3] >>]
      [] op[1] = 3 -> [k \in DOMAIN g |-> IF k = op[2] + 1 THEN << -1, 0, op[3] >> ELSE g[k]]
      [] OTHER     -> SubSeq(g, op[2] + 1, Len(g))
DeriveApplies(op, gk, n) == (op[1] = 4 => gk = "irr" /\ n > op[2] /\ op[2] > 0) /\ (op[1] = 3 => n > op[2])
\* value of a term sequence on built 1D coordinates xs
EvalTerms(g, xs) == [k \in DOMAIN g |-> IF g[k][1] < 0 THEN g[k][3] ELSE g[k][2] * xs[g[k][1] + 1] + g[k][3]]

\* unit directions with exact fixed-point images: quarter turns and the 3-4-5 directions (times 5)
Dirs5 == { <<0, 5>>, <<5, 0>>, <<0, -5>>, <<-5, 0>>, <<3, 4>>, <<-4, 3>>, <<-3, -4>>, <<4, -3>>, <<4, 3>>, <<-3, 4>> }
\* the line through c in direction d5/5 sampled at xs (S a multiple of 5)
LinePoints(c, xs, d5, S) == [k \in DOMAIN xs |-> Add(Scal(S, c), Scal(xs[k] * (S \div 5), d5))]

\* ---- transform ---------------------------------------------------------------
\* meaning: a chain of transform-decorated calls moves the grid into the profile's frame exactly once, unless the
\* caller says it already is in that frame
TransformsMeant(flag0) == IF flag0 THEN 0 ELSE 1
\* the implementation's formulation: every decorated call looks at the keyword and sets it
RECURSIVE Walk(_, _, _)
Walk(depth, flag, count) ==
    IF depth = 0 THEN count
    ELSE IF flag THEN Walk(depth - 1, TRUE, count) ELSE Walk(depth - 1, TRUE, count + 1)

-----------------------------------------------------------------------------
(* Layer 2: the bounded machine.  Init picks a call (decorator, grid kind, result kind, single / list), the input     *)
(* grid (a mask, or a number of irregular points) and where needed a geometry; every action is one decorated call (an  *)
(* atomic step: the library is sequential and the call returns a value).                                               *)

VARIABLES inst,    \* the call (single-step machine) or the grid and the number of calls (history machine)
          phase, obs,
          grid,    \* the caller's grid OBJECT: the tag of the coordinate it holds at every slim position.  It is built as
                   \* 0 .. n-1 and it is INPUT to every decorated call: no call may write to it.
          hist,    \* history machine: the calls made so far on the one grid object, each with the coordinates it worked from
          cfg      \* the configuration in force (an element of Confs; 1 when the process starts)
vars == << inst, phase, obs, grid, hist, cfg >>

Masks(sh) == (SUBSET Cells(sh[1], sh[2])) \ {{}}
AllCells(n) == Cells(1, n)
NoPar == << 0, 0, 0, 0 >>
Mk(api, gk, rk, lst, h, w, u, par, depth, flag) ==
    [api |-> api, gk |-> gk, rk |-> rk, lst |-> lst, h |-> h, w |-> w, u |-> u, par |-> par, depth |-> depth, flag |-> flag,
     cls |-> "base",
     store |-> "slim",       \* how the input Grid2D stores its values: "slim", "native_view" (grid.native), "store_native"
     ret |-> "ndarray",      \* what the user function returns: plain "ndarray"s, or "struct"ures derived from the input grid
     inner |-> "none"]       \* re-entrant evaluation: while running, the function evaluates decorated methods on a grid of this kind
OfClass(S, gk) == { [r EXCEPT !.cls = c] : r \in S, c \in ClassesOf(gk) \ {"base"} }

\* The families of instances.  (One definition and one disjunct of Init per family: TLC enumerates them one after the other;
\* a \cup of large sets would test every element of one side for membership in the other.)
\* the three wrapping decorators on every kind of grid
WrapG2D == UNION { UNION { { Mk(a, "g2d", ResultKindOf(a), l, sh[1], sh[2], u, NoPar, 0, FALSE) : u \in Masks(sh) }
                           : sh \in Shapes } : a \in {"to_array", "to_grid", "to_vector_yx"}, l \in BOOLEAN }
WrapIrr == { Mk(a, "irr", ResultKindOf(a), l, 1, n, AllCells(n), NoPar, 0, FALSE)
               : a \in {"to_array", "to_grid", "to_vector_yx"}, l \in BOOLEAN, n \in Lens }
WrapG1D == UNION { { Mk(a, "g1d", ResultKindOf(a), l, 1, n, u, NoPar, 0, FALSE) : u \in Masks(<<1, n>>) }
                   : a \in {"to_array", "to_grid"}, l \in BOOLEAN, n \in Lens }
\* project_grid: par = << s, cy, cx, aq >>, aq the profile angle in quarter turns (AngleQs)
ProjG2D == UNION { UNION { { Mk("project", "g2d", "values", FALSE, sh[1], sh[2], u, << g[1], g[2], g[3], aq >>, 0, FALSE) : u \in Masks(sh) }
                           : sh \in ProjShapes } : g \in PGeoms, aq \in AngleQs }
ProjIrr == { Mk("project", "irr", rk, FALSE, 1, n, AllCells(n), NoPar, 0, FALSE) : rk \in {"values", "pairs"}, n \in Lens }
ProjG1D == UNION { { Mk("project", "g1d", "values", FALSE, 1, n, u, << 0, 0, 0, aq >>, 0, FALSE) : u \in Masks(<<1, n>>) }
                   : n \in Lens, aq \in AngleQs }
TransG2D == UNION { UNION { { Mk("transform", "g2d", "values", FALSE, sh[1], sh[2], u, NoPar, d, f) : u \in Masks(sh) }
                            : sh \in MidShapes } : d \in Depths, f \in BOOLEAN }
TransFlat == { Mk("transform", gk, "values", FALSE, 1, n, AllCells(n), NoPar, d, f)
                 : gk \in {"irr", "nd"}, n \in Lens, d \in Depths, f \in BOOLEAN }
\* radial minimum: grids around the centre, and every single lattice point as a one-point coordinate set
RelocG2D == UNION { UNION { { Mk(a, "g2d", ResultKindOf(a), FALSE, sh[1], sh[2], u, g, 1, FALSE) : u \in Masks(sh) }
                            : sh \in MidShapes } : g \in Geoms, a \in {"reloc", "stack_array", "stack_grid"} }
RelocPoints == { Mk("reloc", gk, "pairs", FALSE, 1, 1, AllCells(1), << 0, y, x, R >>, 0, FALSE)
                   : gk \in {"irr", "nd"}, y \in Lattice, x \in Lattice, R \in { g[4] : g \in Geoms } }
\* a coordinate eps*(dy,dx): par = << -e, dy, dx, R >> (e the index of eps); as a one-point set, and as the central pixel
\* of a small 2D grid (pixel scale 2 units, grid and profile centred on the origin)
TinyPoints == { Mk("reloc", gk, "pairs", FALSE, 1, 1, AllCells(1), << -e, d[1], d[2], R >>, 0, FALSE)
                  : gk \in {"irr", "nd"}, e \in TinyEps, d \in TinyDirs, R \in { g[4] : g \in Geoms } }
TinyG2D == UNION { UNION { { Mk(a, "g2d", ResultKindOf(a), FALSE, sh[1], sh[2], u, << -e, d[1], d[2], R >>, 1, FALSE) : u \in Masks(sh) }
                           : sh \in TinyShapes } : a \in {"reloc", "stack_array", "stack_grid"}, e \in TinyEps, d \in TinyDirs,
                                                    R \in { g[4] : g \in Geoms } }

\* every decorator on every non-base class of every grid kind (small frames; irregular sets of ClsLens points, whose coordinates
\* the harness picks)
ClsG2D ==
    OfClass(UNION { UNION { { Mk(a, "g2d", ResultKindOf(a), l, sh[1], sh[2], u, NoPar, 0, FALSE) : u \in Masks(sh) }
                            : sh \in ClsShapes } : a \in {"to_array", "to_grid", "to_vector_yx"}, l \in BOOLEAN }, "g2d")
    \cup OfClass(UNION { UNION { { Mk("project", "g2d", "values", FALSE, sh[1], sh[2], u, << g[1], g[2], g[3], aq >>, 0, FALSE) : u \in Masks(sh) }
                                  : sh \in ClsShapes } : g \in PGeoms, aq \in AngleQs \cap {-1, 0, 1, NoAngle} }, "g2d")
    \cup OfClass(UNION { UNION { { Mk("transform", "g2d", "values", FALSE, sh[1], sh[2], u, NoPar, d, f) : u \in Masks(sh) }
                                  : sh \in ClsShapes } : d \in Depths, f \in BOOLEAN }, "g2d")
    \cup OfClass(UNION { UNION { { Mk(a, "g2d", ResultKindOf(a), FALSE, sh[1], sh[2], u, g, 1, FALSE) : u \in Masks(sh) }
                                  : sh \in ClsShapes } : g \in Geoms, a \in {"reloc", "stack_array", "stack_grid"} }, "g2d")
ClsIrr ==
    OfClass({ Mk(a, "irr", ResultKindOf(a), l, 1, n, AllCells(n), NoPar, 0, FALSE)
                : a \in {"to_array", "to_grid", "to_vector_yx"}, l \in BOOLEAN, n \in ClsLens }, "irr")
    \cup OfClass({ Mk("project", "irr", rk, FALSE, 1, n, AllCells(n), NoPar, 0, FALSE) : rk \in {"values", "pairs"}, n \in ClsLens }, "irr")
    \cup OfClass({ Mk("transform", "irr", "values", FALSE, 1, n, AllCells(n), NoPar, d, f) : n \in ClsLens, d \in Depths, f \in BOOLEAN }, "irr")
    \cup OfClass({ Mk(a, "irr", ResultKindOf(a), FALSE, 1, n, AllCells(n), << 0, 0, 0, R >>, 1, FALSE)
                      : a \in {"reloc", "stack_array", "stack_grid"}, n \in ClsLens, R \in { g[4] : g \in Geoms } }, "irr")
ClsG1D ==
    OfClass(UNION { { Mk(a, "g1d", ResultKindOf(a), l, 1, n, u, NoPar, 0, FALSE) : u \in Masks(<<1, n>>) }
                    : a \in {"to_array", "to_grid"}, l \in BOOLEAN, n \in ClsLens }, "g1d")
    \cup OfClass(UNION { { Mk("project", "g1d", "values", FALSE, 1, n, u, << 0, 0, 0, aq >>, 0, FALSE) : u \in Masks(<<1, n>>) }
                          : n \in ClsLens, aq \in AngleQs \cap {-1, 0, 1, NoAngle} }, "g1d")

\* the wrapping decorators on a small family of grids, as the base of the two families below
WrapSmall ==
    UNION { UNION { { Mk(a, "g2d", ResultKindOf(a), l, sh[1], sh[2], u, NoPar, 0, FALSE) : u \in Masks(sh) }
                    : sh \in ClsShapes } : a \in {"to_array", "to_grid", "to_vector_yx"}, l \in BOOLEAN }
WrapSmallFlat ==
    { Mk(a, "irr", ResultKindOf(a), l, 1, n, AllCells(n), NoPar, 0, FALSE) : a \in {"to_array", "to_grid", "to_vector_yx"}, l \in BOOLEAN, n \in ClsLens }
    \cup UNION { { Mk(a, "g1d", ResultKindOf(a), l, 1, n, u, NoPar, 0, FALSE) : u \in Masks(<<1, n>>) }
                 : a \in {"to_array", "to_grid"}, l \in BOOLEAN, n \in ClsLens }
\* native-stored input grids and user functions returning structures derived from the input grid
StoredG2D == { [r EXCEPT !.store = st, !.ret = rt] : r \in WrapSmall, st \in {"slim", "native_view", "store_native"}, rt \in {"ndarray", "struct"} }
             \ WrapSmall
\* re-entrant user functions: evaluated on grid A, the function evaluates decorated methods of the same object on a grid B
ReentInst == { [r EXCEPT !.inner = k] : r \in WrapSmall \cup WrapSmallFlat, k \in {"g2d", "irr", "g1d"} }

Init == /\ \/ "wrap" \in Families /\ (inst \in WrapG2D \/ inst \in WrapIrr \/ inst \in WrapG1D)
           \/ "project" \in Families /\ (inst \in ProjG2D \/ inst \in ProjIrr \/ inst \in ProjG1D)
           \/ "transform" \in Families /\ (inst \in TransG2D \/ inst \in TransFlat)
           \/ "reloc" \in Families /\ (inst \in RelocG2D \/ inst \in RelocPoints)
           \/ "tiny" \in Families /\ (inst \in TinyPoints \/ inst \in TinyG2D)
           \/ "classes" \in Families /\ (inst \in ClsG2D \/ inst \in ClsIrr \/ inst \in ClsG1D)
           \/ "classes" \in Families /\ (inst \in StoredG2D \/ inst \in ReentInst)
        /\ phase = "call"
        /\ obs = << >>
        /\ grid = BuiltTerms(Cardinality(inst.u))
        /\ hist = << >>
        /\ cfg = 1

NPts == Cardinality(inst.u)
IsTiny == inst.par[1] < 0
TinyDir == << inst.par[2], inst.par[3] >>
\* pixel centres of the instance's grid relative to the profile centre (units), slim order; scale s = par[1] (even)
PixelRel(c, h, w, par) ==
    << (h - 1 - 2 * c[1]) * (par[1] \div 2) - par[2], (2 * c[2] - (w - 1)) * (par[1] \div 2) - par[3] >>
RelPoints ==
    IF inst.gk = "g2d"
    THEN LET ss == SlimSeq(inst.u, inst.h, inst.w) IN [k \in 1 .. Len(ss) |-> PixelRel(ss[k], inst.h, inst.w, inst.par)]
    ELSE << << inst.par[2], inst.par[3] >> >>

\* one decorated call: the function receives the input coordinates (tags 0 .. n-1) and the decorator builds the result
\* a re-entrant function first evaluates decorated methods on the other grid B (a complete, independent call) ...
Enter ==
    /\ phase = "call" /\ inst.inner # "none"
    /\ phase' = "nested"
    /\ obs' = [ inner |-> Dispatch("to_array", inst.inner, "values", FALSE, Iota(2), AllCells(2), 1, 2) ]
    /\ UNCHANGED << inst, grid, hist, cfg >>
\* ... and then returns its own result, which is wrapped for ITS grid A whatever happened in between
Returns ==
    /\ phase = (IF inst.inner = "none" THEN "call" ELSE "nested")
    /\ phase' = "returned"
    /\ obs' = [ d      |-> Dispatch(inst.api, inst.gk, inst.rk, inst.lst, Iota(NPts), inst.u, inst.h, inst.w),
                single |-> Dispatch(inst.api, inst.gk, inst.rk, FALSE, Iota(NPts), inst.u, inst.h, inst.w),
                walked |-> Walk(inst.depth, inst.flag, 0) ]
    /\ PrintT(ToJson([k |-> "inst", api |-> inst.api, gk |-> inst.gk, rk |-> inst.rk, lst |-> inst.lst,
                      h |-> inst.h, w |-> inst.w,
                      u |-> LET ss == SlimSeq(inst.u, inst.h, inst.w) IN [j \in 1 .. Len(ss) |-> Lin(ss[j], inst.w)],
                      par |-> inst.par, depth |-> inst.depth, flag |-> inst.flag, cls |-> inst.cls,
                      store |-> inst.store, ret |-> inst.ret, inner |-> inst.inner]))
    /\ grid' = grid           \* the input grid is read, never written
    /\ UNCHANGED << inst, hist, cfg >>

\* one action per public decorator (and one for the usual stack to_array/to_grid o transform o relocate_to_radial_minimum)
ToArray == inst.api = "to_array" /\ Returns
ToGrid == inst.api = "to_grid" /\ Returns
ToVectorYX == inst.api = "to_vector_yx" /\ Returns
ProjectGrid == inst.api = "project" /\ Returns
Transform == inst.api = "transform" /\ Returns
RelocateToRadialMinimum == inst.api = "reloc" /\ Returns
ProfileStack == inst.api \in {"stack_array", "stack_grid"} /\ Returns

Next == Enter \/ ToArray \/ ToGrid \/ ToVectorYX \/ ProjectGrid \/ Transform \/ RelocateToRadialMinimum \/ ProfileStack
Spec == Init /\ [][Next]_vars

-----------------------------------------------------------------------------
(* The history machine: ONE grid object, built once, is handed to several decorated calls one after the other (a       *)
(* relocating call first where the grid kind has one, then any).  Every call works from the coordinates the object     *)
(* holds when it is made and leaves the object as it found it; hence every call of every history is evaluated at the  *)
(* coordinates the caller built -- entry k of the 2nd, 3rd, ... call still belongs to coordinate k of that grid.       *)
HApis(gk) == IF gk = "g1d" THEN {"to_array", "to_grid", "project"}
             ELSE {"reloc", "stack_array", "to_array", "to_grid", "to_vector_yx", "project"}
HFirst(gk) == IF gk = "g1d" THEN HApis(gk) ELSE {"reloc", "stack_array"}
HistFamily(shapes, lens, geoms, der, rec) ==
    UNION { UNION { { Mk("history", "g2d", "values", rec, sh[1], sh[2], u, g, HistLen, der) : u \in Masks(sh) }
                    : sh \in shapes } : g \in geoms }
    \cup { Mk("history", "irr", "values", rec, 1, n, AllCells(n), << 0, 0, 0, R >>, HistLen, der)
             : n \in lens, R \in { g[4] : g \in geoms } }
    \cup (IF rec THEN {} ELSE
          UNION { { Mk("history", "g1d", "values", rec, 1, n, u, NoPar, HistLen, der) : u \in Masks(<<1, n>>) } : n \in lens })
\* flag = TRUE: the caller derives a new grid from the one just evaluated and goes on with THAT grid;
\* lst  = TRUE: the configuration changes between the first call and the next (relocating) call
HistInstances == HistFamily(HistShapes, HistLens, HistGeoms, FALSE, FALSE) \cup HistFamily(DerShapes, DerLens, DerGeoms, TRUE, FALSE)
                 \cup HistFamily(RecShapes, RecLens, RecGeoms, FALSE, TRUE)

InitH == /\ inst \in HistInstances
         /\ phase = "history"
         /\ obs = << >>
         /\ grid = BuiltTerms(Cardinality(inst.u))
         /\ hist = << >>
         /\ cfg = 1

NoOp == << 0, 0, 0, 0 >>
CallsIn(hh) == Len(SelectSeq(hh, LAMBDA e : e.api \notin {"derive", "reconfigure"}))
DerivesIn(hh) == Len(SelectSeq(hh, LAMBDA e : e.api = "derive"))
ReconfsIn(hh) == Len(SelectSeq(hh, LAMBDA e : e.api = "reconfigure"))
MustDerive == inst.flag /\ CallsIn(hist) = 1 /\ DerivesIn(hist) = 0
MustReconfigure == inst.lst /\ CallsIn(hist) = 1 /\ ReconfsIn(hist) = 0
Relocating == {"reloc", "stack_array", "stack_grid"}
Dump(hh) ==
    PrintT(ToJson([k |-> "hist", gk |-> inst.gk, h |-> inst.h, w |-> inst.w,
                   u |-> LET ss == SlimSeq(inst.u, inst.h, inst.w) IN [j \in 1 .. Len(ss) |-> Lin(ss[j], inst.w)],
                   par |-> inst.par, calls |-> [j \in DOMAIN hh |-> [api |-> hh[j].api, op |-> hh[j].op]]]))

\* one more decorated call `a` on the grid the caller now holds
HCall(a) ==
    /\ phase = "history"
    /\ CallsIn(hist) < inst.depth
    /\ ~ MustDerive /\ ~ MustReconfigure
    /\ a \in (IF hist = << >> \/ (inst.lst /\ CallsIn(hist) = 1) THEN HFirst(inst.gk) ELSE HApis(inst.gk))
    \* a relocating call works with the radial minimum configured NOW (op[1]; 0 for the other calls)
    /\ hist' = Append(hist, [api |-> a, op |-> << IF a \in Relocating THEN ConfMin(cfg, ProfOf(inst.par[4])) ELSE 0, 0, 0, 0 >>,
                              seen |-> grid])
    /\ grid' = grid           \* whatever the call hands to the function (moved, projected, transformed) is a NEW array
    /\ (CallsIn(hist) + 1 = inst.depth) => Dump(hist')
    /\ UNCHANGED << inst, phase, obs, cfg >>

\* the caller derives a grid (g + a, a * g, g[a:], g[a] = b) and holds that one from now on: its coordinates are the
\* derived ones -- this is the ONLY kind of step after which the grid reads differently
Derive(op) ==
    /\ phase = "history"
    /\ MustDerive
    /\ DeriveApplies(op, inst.gk, Len(grid))
    /\ grid' = DeriveTerms(grid, op)
    /\ hist' = Append(hist, [api |-> "derive", op |-> op, seen |-> grid'])
    /\ UNCHANGED << inst, phase, obs, cfg >>

\* another configuration is pushed (other radial minima for the same profile classes); the grid is not touched
Reconfigure(c) ==
    /\ phase = "history"
    /\ MustReconfigure
    /\ c # cfg
    /\ cfg' = c
    /\ hist' = Append(hist, [api |-> "reconfigure", op |-> << c, 0, 0, 0 >>, seen |-> grid])
    /\ UNCHANGED << inst, phase, obs, grid >>

NextH == (\E a \in HApis(inst.gk) : HCall(a)) \/ (\E op \in DerOps : Derive(op)) \/ (\E c \in Confs : Reconfigure(c))
SpecH == InitH /\ [][NextH]_vars

-----------------------------------------------------------------------------
(* Layer 3: properties of the design, checked by TLC on every instance *)

Returned == phase = "returned"

\* the caller's grid is what the caller built, in every state of both machines; in a history every call worked from
\* exactly those coordinates; and no step of either machine writes to the grid
OpsOf(hh) == LET d == SelectSeq(hh, LAMBDA e : e.api = "derive") IN [j \in DOMAIN d |-> d[j].op]
RECURSIVE TermsAfter(_, _)
TermsAfter(g, ops) == IF ops = << >> THEN g ELSE TermsAfter(DeriveTerms(g, Head(ops)), Tail(ops))
\* the caller's grid reads as built, modified by the caller's own derivations and by nothing else
GridAsBuilt == grid = TermsAfter(BuiltTerms(Cardinality(inst.u)), OpsOf(hist))
\* every call of a history worked from the coordinates of the grid it was given: the built ones, or the derived ones
HistorySeesBuiltGrid ==
    \A j \in DOMAIN hist : hist[j].seen = TermsAfter(BuiltTerms(Cardinality(inst.u)), OpsOf(SubSeq(hist, 1, j)))
HistoryShape == phase = "history" =>
                  /\ CallsIn(hist) <= inst.depth /\ DerivesIn(hist) <= 1 /\ ReconfsIn(hist) <= 1
                  /\ \A j \in DOMAIN hist : hist[j].api \in (IF j = 1 THEN HFirst(inst.gk) ELSE HApis(inst.gk) \cup {"derive", "reconfigure"})
\* configuration: the one in force is the last one pushed; every relocating call of a history used the minimum that was
\* configured when it was made; and the configuration only changes in a Reconfigure step
ConfsOf(hh) == LET d == SelectSeq(hh, LAMBDA e : e.api = "reconfigure") IN [j \in DOMAIN d |-> d[j].op[1]]
ConfigurationInForce == cfg = InForce(ConfsOf(hist))
CallsUseCurrentConfiguration ==
    \A j \in DOMAIN hist :
        hist[j].api \in Relocating => hist[j].op[1] = ConfMin(InForce(ConfsOf(SubSeq(hist, 1, j))), ProfOf(inst.par[4]))
ConfigurationOnlyPushed == [][cfg' # cfg => (Len(hist') = Len(hist) + 1 /\ hist'[Len(hist')].api = "reconfigure")]_vars
\* the three configurations really differ for both profile classes (a stale value is always visible)
ConfigurationsDiffer == \A c1, c2 \in Confs : \A p \in {"VProfile", "VProfileSmall"} : c1 # c2 => ConfMin(c1, p) # ConfMin(c2, p)
\* the two formulations of a derived grid agree: terms evaluated on sample built coordinates = the derivations applied to them
TermsDenoteCoordinates ==
    phase = "history" /\ inst.gk = "g1d" =>
        LET xs == [k \in 1 .. Cardinality(inst.u) |-> 10 * k - 7]
        IN EvalTerms(grid, xs) = DeriveAll(xs, OpsOf(hist), FALSE)
\* no call ever writes to the grid: it only changes in a Derive step
GridNeverWritten == [][grid' # grid => (Len(hist') = Len(hist) + 1 /\ hist'[Len(hist')].api = "derive")]_vars
Wraps == inst.api \in {"to_array", "to_grid", "to_vector_yx", "project", "stack_array", "stack_grid"}

\* every explored call is one the property speaks about, and gets a container class of the grid's own family
DomainAndKinds ==
    /\ InDomain(inst.api, inst.gk, inst.rk)
    /\ inst.cls \in ClassesOf(inst.gk)
    /\ inst.store \in {"slim", "native_view", "store_native"} /\ inst.ret \in {"ndarray", "struct"}
    /\ inst.inner \in {"none", "g2d", "irr", "g1d"} /\ (inst.store # "slim" => inst.gk = "g2d")      \* (the container class below is a function of the KIND only: Dispatch never sees cls)
    /\ (Returned /\ Wraps) =>
         /\ inst.gk = "irr" => obs.d.kind \in {"ArrayIrregular", "Grid2DIrregular", "VectorYX2DIrregular"}
         /\ inst.gk = "g2d" /\ inst.api # "project" => obs.d.kind \in {"Array2D", "Grid2D", "VectorYX2D"}
         /\ (inst.gk = "g1d" \/ inst.api = "project") /\ inst.gk # "irr" => obs.d.kind \in {"Array1D", AnyKind}

\* entry k is f(point k): the slim view is the identity on tags, and the two formulations of the pairing agree --
\* through the slim order (SelectSeq of the row-major cells) and through the native view (rank of the cell)
PairingSlimNative ==
    (Returned /\ Wraps) =>
        /\ \A e \in DOMAIN obs.d.out : obs.d.out[e] = Iota(NPts)
        /\ inst.gk = "g2d" =>
             \A e \in DOMAIN obs.d.nat :
                LET ss == SlimSeq(inst.u, inst.h, inst.w) IN
                /\ Len(ss) = NPts
                /\ \A k \in 1 .. NPts : obs.d.nat[e][Lin(ss[k], inst.w) + 1] = k - 1
                /\ \A c \in Cells(inst.h, inst.w) \ inst.u : obs.d.nat[e][Lin(c, inst.w) + 1] = Zero
                /\ \A k \in 1 .. NPts - 1 : Lin(ss[k], inst.w) < Lin(ss[k+1], inst.w)

\* a list result is wrapped element by element: every element is what the single-result call returns
ListElementwise ==
    (Returned /\ Wraps) =>
        /\ Len(obs.d.out) = Elements(inst.lst)
        /\ \A e \in DOMAIN obs.d.out : obs.d.out[e] = obs.single.out[1]
        /\ \A e \in DOMAIN obs.d.nat : obs.d.nat[e] = obs.single.nat[1]
        /\ obs.d.kind = obs.single.kind

\* the keyword protocol of `transform` (every decorated call checks and sets the flag) performs the change of frame
\* exactly once, at any nesting depth, and never when the caller already did it
TransformOnce == Returned /\ inst.api = "transform" => obs.walked = TransformsMeant(inst.flag)

\* radial minimum, on the exact lattice (S = 1): the multiply-by-R/r formulation meets the postcondition at every point
\* off the centre that has an integer radius; far points are fixed points
ScaleMeetsPostcondition ==
    Returned /\ inst.api \in {"reloc", "stack_array", "stack_grid"} /\ ~ IsTiny =>
        LET R == inst.par[4] S == 60 IN
        \A k \in DOMAIN RelPoints :
           LET p == RelPoints[k] IN
           /\ Far(p, R) => ScaleByRatio(p, R, S) = Scal(S, p)
           /\ (~ Far(p, R) /\ p # <<0, 0>> /\ HasIntRadius(p)) => MovedToMinimum(p, ScaleByRatio(p, R, S), R, S)
\* at the centre itself every point of the circle is accepted and the corner (R, R) of the enclosing square -- radius
\* sqrt(2) R -- is not; a point moved to the minimum is not "closer than the minimum" any more (the relocation is
\* idempotent on the lattice directions)
CentreCase ==
    Returned /\ inst.api = "reloc" /\ ~ IsTiny =>
        LET R == inst.par[4] S == 60 IN
        /\ \A d \in Dirs5 : CentreToMinimum(Scal(R * (S \div 5), d), R, S)
        /\ ~ CentreToMinimum(<< R * S, R * S >>, R, S)
        /\ \A d \in Dirs5 : R % 5 = 0 => Far(Scal(R \div 5, d), R)
\* the postcondition pins the point: moving along the ray by 1% of R, or turning it by a 3-4-5 angle, is rejected
PostconditionIsTight ==
    Returned /\ inst.api = "reloc" /\ inst.gk # "g2d" /\ ~ IsTiny =>
        LET R == inst.par[4] S == 600 p == RelPoints[1] IN
        (~ Far(p, R) /\ p # <<0, 0>> /\ HasIntRadius(p)) =>
            LET q == ScaleByRatio(p, R, S)
            IN /\ ~ MovedToMinimum(p, << (q[1] * 101) \div 100, (q[2] * 101) \div 100 >>, R, S)
               /\ ~ MovedToMinimum(p, << (q[1] * 99) \div 100, (q[2] * 99) \div 100 >>, R, S)
               /\ ~ MovedToMinimum(p, << (3 * q[1] - 4 * q[2]) \div 5, (4 * q[1] + 3 * q[2]) \div 5 >>, R, S)
               /\ ~ MovedToMinimum(p, Scal(-1, q), R, S)

\* a coordinate a hair away from the centre is judged by its direction alone: multiply-by-R/r lands it on the circle whatever
\* its length (the same q for d, 2d, 3d), the postcondition rejects a result that stays near the centre (a floored radius:
\* q/10, q/1000, 0) or leaves along the diagonal, and such a coordinate is never at the centre
TinyJudgedByDirection ==
    Returned /\ IsTiny /\ HasIntRadius(TinyDir) =>
        LET R == inst.par[4] S == 600 d == TinyDir r == IntRadius(TinyDir)
            q == << Rounded(d[1] * R * S, r), Rounded(d[2] * R * S, r) >>
        IN /\ d # <<0, 0>>
           /\ TinyToMinimum(d, q, R, S)
           /\ \A k \in 1 .. 3 : MovedToMinimum(Scal(k, d), q, R, S)
           /\ ~ TinyToMinimum(d, << q[1] \div 10, q[2] \div 10 >>, R, S)
           /\ ~ TinyToMinimum(d, << q[1] \div 1000, q[2] \div 1000 >>, R, S)
           /\ ~ TinyToMinimum(d, <<0, 0>>, R, S)
           /\ (d[1] = 0 \/ d[2] = 0) => ~ TinyToMinimum(d, << (R * S * 7) \div 10, (R * S * 7) \div 10 >>, R, S)

\* projected lines: the line specification accepts the ray in every direction (the statement does not fix one), with
\* or without the centre point, and rejects a ray that does not start at the centre, a wrong spacing and a reversed order
LineAnyDirection ==
    Returned /\ inst.api = "project" /\ inst.gk = "g2d" =>
        LET s == inst.par[1] c == << inst.par[2], inst.par[3] >> S == 20 IN
        \A n \in 1 .. 3 : \A d \in Dirs5 : \A k0 \in {0, 1} :
            LET xs == ProjXs(n, s, k0)
                q == LinePoints(c, xs, d, S)
            IN /\ OnLine(q, c, xs, S)
               /\ ~ OnLine(q, Add(c, <<0, 1>>), xs, S)
               /\ ~ OnLine(q, c, ProjXs(n, s + 1, 1), S)
               /\ n > 1 => ~ OnLine([k \in 1 .. n |-> q[n + 1 - k]], c, xs, S)
\* the direction is pinned: for every line angle that is a multiple of 90 degrees (in any quadrant, negative, beyond a full
\* turn) the points lie on the lattice along QuarterDir; the mirror image about the centre (a line angle taken modulo 180), a
\* quarter turn the wrong way and a 3-4-5 direction are all rejected; 360 degrees more is the same line
\* the number of projected points: consistent with the points themselves (the last of N points spaced by s is still inside the
\* longest path, one more would leave it) -- the count formula and the spacing agree
ProjectedCountFitsExtent ==
    Returned /\ inst.api = "project" /\ inst.gk = "g2d" =>
        \A o \in { <<0, 0>>, <<1, -2>>, <<-3, 5>> } :
            LET s == inst.par[1] c == << inst.par[2], inst.par[3] >>
                N == ProjectedCount(inst.h, inst.w, s, o, c) d == LongestPath(inst.h, inst.w, s, o, c)
            IN /\ N >= 1 /\ (N - 1) * s <= d /\ N * s > d
               /\ CountOk(N, 0, inst.h, inst.w, s, o, c, TRUE) /\ CountOk(N - 1, 1, inst.h, inst.w, s, o, c, TRUE)
               /\ ~ CountOk(N + 1, 0, inst.h, inst.w, s, o, c, FALSE) /\ ~ CountOk(N - 1, 0, inst.h, inst.w, s, o, c, TRUE)
QuarterTurnsPinned ==
    Returned /\ inst.api = "project" /\ inst.gk # "irr" /\ inst.par[4] \notin {NoAngle, NumericAngle} =>
        LET t == ProjectLineQ(inst.par[4]) S == 20 c == << inst.par[2], inst.par[3] >>
            d == QuarterDir(t)
            xs == ProjXs(3, 4, 1)
            q == [k \in DOMAIN xs |-> Add(Scal(S, c), Scal(xs[k] * S, d))]
        IN /\ OnRay(q, c, xs, S, Scal(DS, d))
           /\ OnLine(q, c, xs, S)
           /\ ~ OnRay(q, c, xs, S, Scal(DS, QuarterDir(t + 2)))
           /\ ~ OnRay(q, c, xs, S, Scal(DS, QuarterDir(t + 1)))
           /\ ~ OnRay(q, c, xs, S, Scal(DS \div 5, << 3, 4 >>))
           /\ QuarterDir(t + 4) = d /\ QuarterDir(t - 4) = d
           /\ d[1] * d[1] + d[2] * d[2] = 1
Line1DAnyDirection ==
    Returned /\ inst.api \in {"to_array", "project"} /\ inst.gk = "g1d" =>
        LET S == 20
            ss == SlimSeq(inst.u, 1, inst.w)
            uu == [k \in 1 .. Len(ss) |-> ss[k][2]] IN
        \A o \in {0, 3, -7} : \A d \in Dirs5 :
            LET xs == Coords1D(uu, inst.w, 4, o)
                q == LinePoints(<<0, 0>>, xs, d, S)
            IN /\ OnLine(q, <<0, 0>>, xs, S)
               /\ \A k \in 1 .. Len(xs) - 1 : xs[k+1] - xs[k] = 4 * (uu[k+1] - uu[k])
               /\ ~ OnLine(q, <<0, 0>>, Coords1D(uu, inst.w, 4, o + 1), S)
=============================================================================
