----------------------------- MODULE Trace_Fit -----------------------------
(***************************************************************************)
(* Validation of recorded fits of the real code against Fit.tla (C08).     *)
(*                                                                         *)
(* One "fit" record = one fit object (FitImaging subclass with a given     *)
(* model image) evaluated in one mode, every public quantity read once;    *)
(* its residual flux fraction map travels in a companion "rff" record      *)
(* (same inputs, field rff in units of 1/840) so that the two call sites   *)
(* are judged, and reported, separately:                                   *)
(*   h, w, u        frame and linear indices of the unmasked cells         *)
(*   mode           "slim"  (slim arrays, use_mask_in_fit off) or          *)
(*                  "native" (native-stored arrays, use_mask_in_fit on;     *)
(*                  arrays below then have h*w entries)                    *)
(*   junk           which junk filling the masked cells carried (0 = none) *)
(*   d, e, sky      integer data, noise exponents (sigma = 2^e), sky level *)
(*   mk             "int": integer model m, maps abstracted exactly:       *)
(*                     res, nres2 (x2), chi2map4 (x4), sn2 (x2), chi2q (x4) *)
(*                  "real": real model (mapped reconstruction); maps in    *)
(*                     fixed point: m_fix, res_fix, chi2map_fix            *)
(*   chi2_fix, rchi2_fix, nn_fix, ll_fix, fom_fix   round(value*LogScale)  *)
(*   same           all outputs bit-identical to the junk = 0 run          *)
(*   scale          the unit exponent k: the real arrays and the sky level *)
(*                  are the integers d, m, 2^e, sky times 2^k (alpha       *)
(*                  divides by 2^k, exactly); only the noise normalization *)
(*                  depends on it, by 2 k n ln 2                           *)
(*   hist, step     dataset history of the fit: hist = "none", or the kind *)
(*                  of history with step = 0 for the earlier fit (judged   *)
(*                  against ITS arrays) and step = 1 for the fit after it  *)
(*   order, nth     the order in which the quantities were read (the       *)
(*                  definitions do not depend on it) and whether this is   *)
(*                  the first or the second fit built on the same dataset  *)
(*                  object; stable: a second read of every quantity gave   *)
(*                  bit-identical values (the record carries the last)     *)
(*   hasinv, inv    the inversion as reported by the inversion object:     *)
(*       objs [p, reg]; lat: matrices are on the integer lattice of scale  *)
(*       sc by construction of the instance; FH, H (full), FHr, Hr (the    *)
(*       reported reduced matrices), s = round(reconstruction*ss), sx: s   *)
(*       exact by construction; regq = round(reg*ss*ss*sc);                *)
(*       detc/detr = round(exp(log det term)*sc^nr); reg_fix, ldc_fix,     *)
(*       ldr_fix, ev_fix, llreg_fix = round(value*LogScale)                *)
(* Off marks a value alpha could not put on its lattice.                   *)
(* Verdicts are total; a rejected record is printed with the failing       *)
(* clauses, the signature of the failing class and the wanted values.      *)
(***************************************************************************)
EXTENDS Fit, IOUtils

Trace == JsonDeserialize(IOEnv.TRACE_FILE)
VARIABLE i

Cl(nm, ok) == IF ok THEN << >> ELSE << nm >>
Un(r) == { CellOf(r.u[k], r.w) : k \in DOMAIN r.u }
NoOff(s) == \A k \in DOMAIN s : s[k] # Off
NoOffM(M) == \A a \in DOMAIN M : NoOff(M[a])
InRange(x) == x # Off /\ Abs(x) < 1000000000
RffDen == 840

\* layout of a map in the record: slim sequence, or native with 0 in masked cells
Lay(r, s) == IF r.mode = "native" THEN Native(s, Un(r), r.h, r.w, LAMBDA k : 0) ELSE s
\* the unmasked entries of a recorded map, in slim order
OnU(r, s) == IF r.mode = "native" THEN Gather(s, Un(r), r.h, r.w) ELSE s
MapLen(r) == IF r.mode = "native" THEN r.h * r.w ELSE Len(r.u)
MaskedZero(r, s) == r.mode = "native" => \A k \in 1 .. r.h * r.w : ~ Unmasked(k, Un(r), r.w) => s[k] = 0

\* ---- statistics -----------------------------------------------------------
ScalarClauses(r) ==
    LET n == Len(r.u) IN
    IF ~ (InRange(r.chi2_fix) /\ InRange(r.rchi2_fix) /\ InRange(r.nn_fix) /\ InRange(r.ll_fix) /\ InRange(r.fom_fix))
    THEN << "statistics-finite-and-in-range" >>
    ELSE Cl("noise-normalization-sums-log-2pi-sigma2-over-unmasked-pixels", 2 * Abs(r.nn_fix - NoiseNormFixAt(r.e, r.scale)) <= n + 6)
      \o Cl("log-likelihood-is-minus-half-chi-squared-plus-normalization", Abs(2 * r.ll_fix + r.chi2_fix + r.nn_fix) <= 2)
      \o Cl("reduced-chi-squared-is-chi-squared-per-unmasked-pixel", 2 * Abs(r.rchi2_fix * n - r.chi2_fix) <= n + 2)
      \o Cl("masked-values-never-matter", r.same)
      \o Cl("repeated-reads-agree", r.stable)

IntClauses(r) ==
    LET L == MapLen(r)
        ref == SlimEval(r.d, r.m, r.e, r.sky)
    IN IF ~ (Len(r.res) = L /\ Len(r.nres2) = L /\ Len(r.chi2map4) = L /\ Len(r.sn2) = L)
       THEN << "maps-have-the-shape-of-the-data" >>
       ELSE Cl("residual-is-data-minus-model", r.res = Lay(r, ref.res))
         \o Cl("normalized-residual-is-residual-over-noise", r.nres2 = Lay(r, ref.nres2))
         \o Cl("chi-squared-map-is-squared-normalized-residual", r.chi2map4 = Lay(r, ref.chi2map4))
         \o Cl("chi-squared-sums-unmasked-pixels-only", r.chi2q = ref.chi2q /\ r.chi2_fix = ref.chi2q * (LogScale \div 4))
         \o Cl("signal-to-noise-is-data-over-noise-clipped-at-zero", OnU(r, r.sn2) = ref.sn2)

RffClause == "residual-flux-fraction-is-residual-over-data"
RffClauses(r) ==
    IF Len(r.rff) # MapLen(r) THEN << "maps-have-the-shape-of-the-data" >>
    ELSE Cl(RffClause, RffOk(OnU(r, r.rff), RffDen, r.d, r.m, r.sky) /\ MaskedZero(r, r.rff))

RealClauses(r) ==
    LET L == MapLen(r) n == Len(r.u) IN
    IF ~ (Len(r.res_fix) = L /\ Len(r.chi2map_fix) = L /\ Len(r.m_fix) = n)
    THEN << "maps-have-the-shape-of-the-data" >>
    ELSE IF ~ (NoOff(r.res_fix) /\ NoOff(r.chi2map_fix) /\ NoOff(r.m_fix)) THEN << "maps-finite-and-in-range" >>
    ELSE LET rs == OnU(r, r.res_fix) cs == OnU(r, r.chi2map_fix) IN
         Cl("residual-is-data-minus-model",
            /\ \A k \in 1 .. n : Abs(rs[k] + r.m_fix[k] - (r.d[k] - r.sky) * LogScale) <= 1
            /\ MaskedZero(r, r.res_fix))
      \o Cl("chi-squared-sums-unmasked-pixels-only",
            2 * Abs(r.chi2_fix - SumSeq(cs)) <= n + 2 /\ MaskedZero(r, r.chi2map_fix))

\* ---- inversion ------------------------------------------------------------
RidgeTol(M, k, sc) == ((PrincipalMinorSum(M, k) \div 1000 + 1) * sc) \div 100000 + 2
SumAbsM(M) == SumOver(DOMAIN M, LAMBDA a : SumOver(DOMAIN M[a], LAMBDA b : Abs(M[a][b])))
RegTol2(sr, hr, sc, sx) ==   \* twice the tolerance of regq against the integer quadratic form
    LET ridge == (sc * SumOver(DOMAIN sr, LAMBDA a : (Abs(sr[a]) + 1) * (Abs(sr[a]) + 1))) \div 100000000 + 1
    IN 2 * ridge + 3
       + (IF sx THEN 0
          ELSE SumOver(DOMAIN sr, LAMBDA a : SumOver(DOMAIN sr, LAMBDA b : Abs(hr[a][b]) * (Abs(sr[a]) + Abs(sr[b]) + 1))))

InvClauses(r) ==
    LET v == r.inv
        P == TotalP(v.objs)
        idx == RegIdx(v.objs)
        nr == Len(idx)
    IN IF ~ (IsMatrix(v.FH, P, P) /\ IsMatrix(v.H, P, P) /\ Len(v.s) = P)
       THEN << "inversion-matrices-have-one-row-and-column-per-parameter" >>
       ELSE IF ~ (InRange(v.reg_fix) /\ InRange(v.ldc_fix) /\ InRange(v.ldr_fix) /\ InRange(v.ev_fix) /\ InRange(v.llreg_fix))
       THEN << "evidence-terms-finite-and-in-range" >>
       ELSE
         Cl("evidence-is-minus-half-of-its-five-terms",
            Abs(2 * v.ev_fix + (r.chi2_fix + v.reg_fix + v.ldc_fix - v.ldr_fix + r.nn_fix)) <= 3)
      \o Cl("likelihood-with-regularization-is-minus-half-of-its-three-terms",
            Abs(2 * v.llreg_fix + (r.chi2_fix + v.reg_fix + r.nn_fix)) <= 2)
      \o Cl("figure-of-merit-is-evidence-with-an-inversion", r.fom_fix = v.ev_fix)
      \o Cl("reduced-matrices-select-regularized-parameters",
            v.FHr = SubMat(v.FH, idx) /\ v.Hr = SubMat(v.H, idx))
      \o (IF ~ v.lat THEN << >>
          ELSE IF ~ (NoOffM(v.FH) /\ NoOffM(v.H) /\ NoOff(v.s) /\ v.regq # Off /\ v.detc # Off /\ v.detr # Off)
          THEN << "inversion-terms-on-the-lattice-of-the-instance" >>
          ELSE LET fr == SubMat(v.FH, idx) hr == SubMat(v.H, idx) sr == SubVec(v.s, idx) IN
               IF ~ (DetSafe(fr, nr) /\ DetSafe(hr, nr)) THEN << >>   \* beyond what 32-bit integers decide (counted by the driver)
               ELSE Cl("regularization-term-is-quadratic-form-over-regularized-parameters",
                       2 * Abs(v.regq - Quad(sr, hr)) <= RegTol2(sr, hr, v.sc, v.sx))
                 \o Cl("log-det-curvature-reg-matrix-over-regularized-parameters",
                       Abs(v.detc - Det(fr, nr)) <= RidgeTol(fr, nr, v.sc))
                 \o Cl("log-det-regularization-matrix-over-regularized-parameters",
                       Abs(v.detr - Det(hr, nr)) <= RidgeTol(hr, nr, v.sc)))

WellFormed(r) == /\ Len(r.d) = Len(r.u) /\ Len(r.e) = Len(r.u) /\ Len(r.u) > 0
                 /\ \A k \in DOMAIN r.e : r.e[k] \in DOMAIN LogTable
                 /\ r.mode \in {"slim", "native"} /\ r.mk \in {"int", "real"}
                 /\ r.scale >= -60 /\ r.scale <= 60
                 /\ (r.mk = "int" => Len(r.m) = Len(r.u))

Clauses(r) ==
    IF r.api \notin {"fit", "rff"} THEN << "unknown-api" >>
    ELSE IF ~ WellFormed(r) THEN << "malformed-record" >>
    ELSE IF r.raised # "" THEN << "no-exception" >>
    ELSE IF r.api = "rff" THEN RffClauses(r)
    ELSE (IF r.mk = "int" THEN IntClauses(r) ELSE RealClauses(r))
      \o ScalarClauses(r)
      \o (IF r.hasinv THEN InvClauses(r)
          ELSE Cl("figure-of-merit-is-likelihood-without-an-inversion", r.fom_fix = r.ll_fix))

\* signature of the failing class: the call site (residual_flux_fraction_map has its own records), else the
\* quantity (first failing clause), the evaluation mode, and for inversions whether the object list mixes
\* regularised and unregularised objects
\* a record judged after a dataset history (step > 0: another dataset was fitted before on the same, a copied or
\* a parent dataset object) carries that in its signature
AfterHistory(r) == IF r.hist # "none" /\ r.step > 0 THEN ":after-dataset-history" ELSE ""
Sig(r, f) ==
    IF r.api = "rff" THEN "residual_flux_fraction_map" \o AfterHistory(r)
    ELSE f[1] \o ":" \o r.mode
         \o (IF r.hasinv /\ "inv" \in DOMAIN r THEN (IF AnyReg(r.inv.objs) /\ ~ AllReg(r.inv.objs) THEN ":MixedRegularization" ELSE ":inversion") ELSE "")
         \o (IF r.hasinv /\ "inv" \in DOMAIN r /\ "rid" \in DOMAIN r.inv
                /\ (\E a, b \in DOMAIN r.inv.rid : a # b /\ r.inv.rid[a] # 0 /\ r.inv.rid[a] = r.inv.rid[b])
             THEN ":SharedRegularization" ELSE "")
         \o AfterHistory(r)

Want(r) ==
    IF r.api = "rff" /\ WellFormed(r)
    THEN [rff_num |-> Residual(r.d, r.m, r.sky), rff_den |-> DataOf(r.d, r.sky), rff_unit_den |-> RffDen]
    ELSE IF r.api = "fit" /\ WellFormed(r) /\ r.mk = "int"
    THEN LET ref == SlimEval(r.d, r.m, r.e, r.sky) IN
         [res |-> ref.res, nres2 |-> ref.nres2, chi2map4 |-> ref.chi2map4, chi2q |-> ref.chi2q, nn_fix |-> NoiseNormFixAt(r.e, r.scale),
          sn2 |-> ref.sn2]
         @@ (IF r.hasinv /\ r.raised = "" /\ r.inv.lat /\ Len(RegIdx(r.inv.objs)) <= 4
                /\ IsMatrix(r.inv.FH, TotalP(r.inv.objs), TotalP(r.inv.objs)) /\ IsMatrix(r.inv.H, TotalP(r.inv.objs), TotalP(r.inv.objs))
                /\ NoOffM(r.inv.FH) /\ NoOffM(r.inv.H)
                /\ DetSafe(SubMat(r.inv.FH, RegIdx(r.inv.objs)), Len(RegIdx(r.inv.objs)))
                /\ DetSafe(SubMat(r.inv.H, RegIdx(r.inv.objs)), Len(RegIdx(r.inv.objs)))
             THEN [detc |-> DetReg(r.inv.FH, r.inv.objs), detr |-> DetReg(r.inv.H, r.inv.objs),
                   regidx |-> RegIdx(r.inv.objs)]
             ELSE [regidx |-> << >>])
    ELSE [regidx |-> << >>]

TraceInit == /\ i = 1
             /\ shape = <<1, 1>> /\ U = {} /\ pix = << >> /\ sky = 0 /\ inv = NoInv /\ phase = "trace" /\ obs = << >> /\ hist = << >>

TraceNext ==
    /\ i <= Len(Trace)
    /\ LET r == Trace[i]
           f == Clauses(r)
       IN IF f = << >> THEN TRUE
          ELSE PrintT(ToJson([k |-> "reject", i |-> i, id |-> r.id, clauses |-> f, sig |-> Sig(r, f), want |-> Want(r)]))
    /\ i' = i + 1
    /\ UNCHANGED vars

TraceSpec == TraceInit /\ [][TraceNext]_<< vars, i >>
TraceAccepted == TLCGet("stats").diameter - 1 = Len(Trace)
=============================================================================
