------------------------- MODULE Trace_OverSample -------------------------
(***************************************************************************)
(* Validation of recorded executions of the real over-sampling code        *)
(* against OverSample.tla (C09).  One record per public call.  Verdicts    *)
(* are total: every record is judged; a rejected record is printed with    *)
(* the failing clauses, the signature of the failing input class and what  *)
(* the specification wanted.                                               *)
(*                                                                         *)
(* Record kinds (field `api`):                                             *)
(*  partition  over_sampled_grid / slim_for_sub_slim / sub_pixel_areas of  *)
(*             an OverSamplerUniform, coordinates and areas in ticks       *)
(*  bin        binned_array_2d_from on arbitrary integer sub-values        *)
(*  func       a user function of the lattice point evaluated through      *)
(*             array_via_func_from or the over_sample decorator            *)
(*  iterate    OverSamplerIterate on a table function: v[p] = binned value *)
(*             of pixel p at sub size 1 and at every schedule entry        *)
(*  iterate_fn OverSamplerIterate on a function of the lattice point       *)
(* Numerators: a binned value is recorded as round(value * Sq(sub)) (func, *)
(* bin) or round(value * den) (iterate_fn), off-lattice values are counted *)
(* in `off` by the harness and rejected here.                              *)
(***************************************************************************)
EXTENDS OverSample, IOUtils

Trace == JsonDeserialize(IOEnv.TRACE_FILE)

VARIABLE i

Un(r) == { CellOf(r.u[k], r.w) : k \in DOMAIN r.u }
Geo(r) == [h |-> r.h, w |-> r.w, sy |-> r.sy, sx |-> r.sx, oy |-> r.oy, ox |-> r.ox]
Cl(n, b) == [n |-> n, ok |-> b]
IsPairSeq(s) == \A k \in DOMAIN s : Len(s[k]) = 2
Uniform(sub) == \A k \in DOMAIN sub : sub[k] = sub[1]
\* first position at which two sequences differ (0 = equal)
FirstDiff(a, b) ==
    LET n == Smaller(Len(a), Len(b))
        D == { k \in 1 .. n : a[k] # b[k] }
    IN IF D # {} THEN Min(D) ELSE IF Len(a) = Len(b) THEN 0 ELSE n + 1
At(s, k) == IF k >= 1 /\ k <= Len(s) THEN << s[k] >> ELSE << >>

\* ---- Part A ------------------------------------------------------------
ClausesPartition(r) ==
    LET u == Un(r)
        G == Geo(r)
        want == IF Len(r.sub) = Cardinality(u) THEN SubGrid(u, r.sub, G) ELSE << >>
    IN << Cl("input-on-lattice", OnLattice(G, r.sub) /\ Len(r.sub) = Cardinality(u)),
          Cl("count-is-sum-of-squares", Len(r.grid) = Total(r.sub) /\ r.total = Total(r.sub)),
          Cl("coordinates-on-lattice", r.off = 0),
          Cl("sub-centres-slim-then-top-to-bottom-left-to-right", IsPairSeq(r.grid) /\ r.grid = want),
          Cl("slim-for-sub-slim", r.sfs = SlimForSubSlim(r.sub)),
          Cl("sub-pixel-areas", r.areas = Areas(r.sub, G)),
          Cl("areas-sum-to-unmasked-area", SumSeq(r.areas) = Cardinality(u) * r.sy * r.sx) >>

ClausesBin(r) ==
    << Cl("input-length", Len(r.vals) = Total(r.sub)),
       Cl("values-on-lattice", r.off = 0),
       Cl("bin-is-mean-of-own-sub-values", Len(r.vals) = Total(r.sub) /\ r.num = BinNum(r.vals, r.sub)) >>

ClausesFunc(r) ==
    LET u == Un(r)
        G == Geo(r)
    IN << Cl("input-on-lattice", OnLattice(G, r.sub) /\ Len(r.sub) = Cardinality(u)),
          Cl("function-asked-on-lattice-points-of-unmasked-pixels", r.bad = 0),
          Cl("values-on-lattice", r.off = 0),
          Cl("decorated-is-binned-function-or-plain-when-sub-one",
             Len(r.sub) = Cardinality(u) /\ r.num = DecoratedNum(r.fn, u, r.sub, G)) >>

\* ---- Part B ------------------------------------------------------------
\* r.evals: the calls the user function received, in order: [n |-> sub size, px |-> 0-based slim pixels asked]
CallsAt(r, n) == { c \in DOMAIN r.evals : r.evals[c].n = n }
AskedAt(r, n) == UNION { { r.evals[c].px[q] + 1 : q \in DOMAIN r.evals[c].px } : c \in CallsAt(r, n) }

\* verdict under one reading of "previous level of the first schedule entry"
ResOk(r, V, ra, base) == r.result = [p \in 1 .. Len(V) |-> ResultOf(V[p], r.fa, ra, base)]
EvOk(r, V, ra, base) ==
    \A k \in 1 .. Len(r.sched) :
        /\ AskedAt(r, r.sched[k]) = Unresolved(V, k, r.fa, ra, base)
        /\ Cardinality(CallsAt(r, r.sched[k])) <= 1

TableOk(r) == /\ Len(r.v) = Len(r.u) /\ Len(r.v) >= 1
              /\ \A p \in DOMAIN r.v : Len(r.v[p]) = Len(r.sched) + 1
              /\ r.fa[1] > 0 /\ r.fa[2] >= r.fa[1]
\* Exact ties.  The statement compares real numbers; the implementation evaluates the ratio in IEEE arithmetic.  Where
\* the ratio EQUALS the requested accuracy, the rounded evaluation reproduces the real comparison only for thresholds
\* for which that is a fact of float arithmetic (1/2, 3/4, 99/100, 1: r.tie_exact, a property of the threshold constant
\* alone); for other thresholds (9/10) an exact tie may legitimately fall either side.  A pixel may therefore stop at
\* level k iff k is the last level or agrees (ties counted), and no earlier level agrees beyond doubt.
AgreeTie(prev, cur, fa, ra, tie) ==
    /\ prev > 0
    /\ \/ Smaller(prev, cur) * fa[2] > fa[1] * Larger(prev, cur)
       \/ tie /\ Smaller(prev, cur) * fa[2] = fa[1] * Larger(prev, cur)
    /\ (ra # NoTol => Abs(prev - cur) <= ra)
AllowedStops(r, vp, ra, base) ==
    LET L == Len(vp) - 1
        May(k) == (k > 1 \/ base) /\ AgreeTie(vp[k], vp[k+1], r.fa, ra, TRUE)
        Must(k) == (k > 1 \/ base) /\ AgreeTie(vp[k], vp[k+1], r.fa, ra, r.tie_exact)
    IN { k \in 1 .. L : (k = L \/ May(k)) /\ \A j \in 1 .. k-1 : ~ Must(j) }
\* the level at which the recorded call stopped asking about pixel p (0 = never asked at a schedule entry)
ObsStop(r, p) == LET K == { k \in 1 .. Len(r.sched) : p \in AskedAt(r, r.sched[k]) } IN IF K = {} THEN 0 ELSE Max(K)
\* each schedule entry is evaluated by at most one call, and a pixel is asked at every level up to its stop level
EvShape(r, np) ==
    \A k \in 1 .. Len(r.sched) :
        /\ Cardinality(CallsAt(r, r.sched[k])) <= 1
        /\ AskedAt(r, r.sched[k]) = { p \in 1 .. np : ObsStop(r, p) >= k }

ClausesIter(r, V, ra) ==
    LET np == Len(V) IN
    << Cl("function-asked-on-recognised-sub-grids", r.bad = 0),
       Cl("values-on-lattice", r.off = 0),
       Cl("result-is-value-at-first-agreeing-level-else-last",
          Len(r.result) = np /\ \E b \in BOOLEAN :
              \A p \in 1 .. np : \E k \in AllowedStops(r, V[p], ra, b) : r.result[p] = V[p][k + 1]),
       Cl("each-level-evaluates-exactly-the-unresolved-pixels",
          EvShape(r, np) /\ \E b \in BOOLEAN : \A p \in 1 .. np : ObsStop(r, p) \in AllowedStops(r, V[p], ra, b)),
       Cl("result-and-evaluations-under-one-reading",
          Len(r.result) = np /\ EvShape(r, np) /\ \E b \in BOOLEAN :
              \A p \in 1 .. np : /\ ObsStop(r, p) \in AllowedStops(r, V[p], ra, b)
                                 /\ r.result[p] = V[p][ObsStop(r, p) + 1]) >>

\* S->C records carry what the bounded machine (which models the documented reading: the first schedule entry is
\* compared with the plain evaluation at sub size 1) reached for this table: result and evaluated sets per level.
\* Whenever the recorded call follows the documented reading it must coincide with the machine's final state.
MachineEv(r) == [k \in 1 .. Len(r.m_evald) |-> { r.m_evald[k][q] + 1 : q \in DOMAIN r.m_evald[k] }]
ClausesMachine(r) ==
    IF ~ r.has_m THEN << >>
    ELSE LET documented == Len(r.result) = Len(r.v) /\ ResOk(r, r.v, r.ra, TRUE) /\ EvOk(r, r.v, r.ra, TRUE)
         IN << Cl("result-equals-machine-state", documented => r.result = r.m_result),
               Cl("evaluations-equal-machine-state",
                  documented =>
                    \A k \in 1 .. Len(r.sched) :
                       AskedAt(r, r.sched[k]) = IF k + 1 <= Len(r.m_evald) THEN MachineEv(r)[k + 1] ELSE {}) >>

ClausesIterate(r) ==
    IF ~ TableOk(r) THEN << Cl("record-well-formed", FALSE) >>
    ELSE ClausesIter(r, r.v, r.ra) \o ClausesMachine(r)

\* iterate_fn: the table is computed here from the function: V[p] = den * binned value at each level
FnTable(r) ==
    LET u == Un(r)
        G == Geo(r)
        N == Cardinality(u)
        c0 == Over(r.fn, Centres(u, G))
        lv == [k \in 1 .. Len(r.sched) |-> LevelNum(r.fn, u, r.sched[k], G)]
    IN [p \in 1 .. N |-> << c0[p] * r.den >> \o [k \in 1 .. Len(r.sched) |-> lv[k][p] * (r.den \div Sq(r.sched[k]))]]
FnOk(r) == /\ Len(r.u) >= 1 /\ Len(r.sched) >= 1
           /\ \A k \in DOMAIN r.sched : r.den % Sq(r.sched[k]) = 0
           /\ OnLattice(Geo(r), r.sched)
           /\ r.fa[1] > 0 /\ r.fa[2] >= r.fa[1]
ClausesIterateFn(r) ==
    IF ~ FnOk(r) THEN << Cl("record-well-formed", FALSE) >>
    ELSE ClausesIter(r, FnTable(r), IF r.ra = NoTol THEN NoTol ELSE r.ra * r.den)

\* ---- dispatch ----------------------------------------------------------
\* an exception of the code under test on a valid input is judged here (field exc = its text, "" if none)
Clauses(r) ==
    CASE r.exc # "" -> << Cl("call-returns-without-exception", FALSE) >>
      [] r.api = "partition"  -> ClausesPartition(r)
      [] r.api = "bin"        -> ClausesBin(r)
      [] r.api = "func"       -> ClausesFunc(r)
      [] r.api = "iterate"    -> ClausesIterate(r)
      [] r.api = "iterate_fn" -> ClausesIterateFn(r)
      [] OTHER -> << Cl("unknown-api", FALSE) >>

Want(r) ==
    CASE r.api = "partition" ->
           LET w == SubGrid(Un(r), r.sub, Geo(r))
               d == FirstDiff(r.grid, w)
           IN [first_diff_at |-> d, got |-> At(r.grid, d), want |-> At(w, d), total |-> Total(r.sub),
               sfs_diff_at |-> FirstDiff(r.sfs, SlimForSubSlim(r.sub)), areas_diff_at |-> FirstDiff(r.areas, Areas(r.sub, Geo(r)))]
      [] r.api = "bin" -> IF Len(r.vals) = Total(r.sub) THEN [num |-> BinNum(r.vals, r.sub)] ELSE [len |-> Total(r.sub)]
      [] r.api = "func" -> [num |-> DecoratedNum(r.fn, Un(r), r.sub, Geo(r))]
      [] r.api = "iterate" ->
           IF TableOk(r)
           THEN [result |-> [p \in 1 .. Len(r.v) |-> ResultOf(r.v[p], r.fa, r.ra, TRUE)],
                 evaluated |-> [k \in 1 .. Len(r.sched) |-> { p - 1 : p \in Unresolved(r.v, k, r.fa, r.ra, TRUE) }]]
           ELSE << >>
      [] r.api = "iterate_fn" ->
           IF FnOk(r)
           THEN LET V == FnTable(r)
                    ra == IF r.ra = NoTol THEN NoTol ELSE r.ra * r.den
                IN [table |-> V, result |-> [p \in 1 .. Len(V) |-> ResultOf(V[p], r.fa, ra, TRUE)],
                    evaluated |-> [k \in 1 .. Len(r.sched) |-> { p - 1 : p \in Unresolved(V, k, r.fa, ra, TRUE) }]]
           ELSE << >>
      [] OTHER -> << >>

\* signature of the failing input class (used to match known findings): computed here, not by the harness
AllZeroAtPixelCentres(r) ==
    CASE r.api = "iterate" -> TableOk(r) /\ \A p \in DOMAIN r.v : r.v[p][1] = 0
      [] r.api = "iterate_fn" -> FnOk(r) /\ LET c0 == Over(r.fn, Centres(Un(r), Geo(r))) IN \A p \in DOMAIN c0 : c0[p] = 0
      [] OTHER -> FALSE
\* r.hist = number of grids the (shared) over-sampling object of this call had served before (0 = fresh object).  The
\* clauses above judge every call on its own mask, sub sizes and geometry only: what an over-sampling object returns
\* for a grid must not depend on its history.
Reused(r) == IF r.hist > 0 THEN "/shared-object-reused" ELSE ""
\* r.dt = element type of the sub-values handed to the code ("float", "int", "bool"); the mean does not depend on it
Typed(r) == IF r.dt = "float" THEN "" ELSE "/" \o r.dt \o "-valued"
SubClass(sub) == IF Uniform(sub) THEN "/uniform-sub" ELSE IF TotalLooksUniform(sub) THEN "/per-pixel-sub-total-looks-uniform"
                 ELSE "/per-pixel-sub"
Sig(r) ==
    CASE r.api \in {"iterate", "iterate_fn"} ->
           IF AllZeroAtPixelCentres(r) THEN "IterateAllZeroAtPixelCentres" ELSE r.api \o "/" \o r.via \o Typed(r) \o Reused(r)
      [] r.api \in {"partition", "bin", "func"} ->
           r.api \o "/" \o r.via \o SubClass(r.sub) \o Typed(r) \o Reused(r)
      [] OTHER -> "unknown-api"

Failed(r) == SelectSeq(Clauses(r), LAMBDA c : ~ c.ok)

TraceInit == i = 1 /\ IdleA /\ IdleB

TraceNext ==
    /\ i <= Len(Trace)
    /\ LET r == Trace[i]
           f == Failed(r)
       IN IF f = << >> THEN TRUE
          ELSE PrintT(ToJson([k |-> "reject", i |-> i, id |-> r.id,
                              clauses |-> [j \in DOMAIN f |-> f[j].n],
                              sig |-> Sig(r), want |-> Want(r)]))
    /\ i' = i + 1
    /\ UNCHANGED vars

TraceSpec == TraceInit /\ [][TraceNext]_<< vars, i >>
TraceAccepted == TLCGet("stats").diameter - 1 = Len(Trace)
=============================================================================
