------------------------------ MODULE PreloadSet ------------------------------
(***************************************************************************)
(* X06: preload DETECTION is sound.  aa.Preloads offers seven set_X(fit_0, *)
(* fit_1) methods; each owns a group of slots.  After a call every slot of *)
(* the group is cleared or holds the value BOTH reference fits agree on;   *)
(* nothing outside the group changes; no slot written by an earlier call   *)
(* survives a call whose pair does not agree; the final slots depend only  *)
(* on the last pair given to each setter; a third fit that shares what the *)
(* pair agreed on cannot see the preloads.                                 *)
(*                                                                         *)
(* A fit is abstract: has an inversion?, number of mappers / linear        *)
(* function lists, a shape class, and per quantity a content id.           *)
(* The content of a slot is a string: "none", "z" (left over from the      *)
(* constructor), or <id><shape>[x<count>] of the quantity it holds.        *)
(*                                                                         *)
(* Layer 1 (meaning) is written from the statement and the docstrings.     *)
(* Layer 2 (machine) runs the setters in the order of the implementation   *)
(* (clear, early returns, compare, fill); AsBuilt = TRUE switches on the   *)
(* deviations of the pinned tree (TLC then exhibits the counterexamples).  *)
(***************************************************************************)
EXTENDS Integers, Sequences, FiniteSets, TLC, Json

CONSTANTS PairsOf,     \* function: setter -> set of << fit_0, fit_1 >> explored for that setter
          ExtraThird,  \* fits offered to UseInFit besides the reference fits themselves
          MaxCalls,    \* bound on the number of set_X calls of a behaviour
          Prefills,    \* subset of {"none", "z"}: what the constructor put into the slots
          AsBuilt      \* BOOLEAN

None == "none"
ToSet(s) == { s[k] : k \in DOMAIN s }

-----------------------------------------------------------------------------
(* Layer 1: meaning *)

SetterSeq == << "W", "G", "M", "O", "L", "C", "R" >>
SetterSet == ToSet(SetterSeq)

Name(x) == CASE x = "W" -> "set_w_tilde_imaging"
             [] x = "G" -> "set_relocated_grid"
             [] x = "M" -> "set_mapper_list"
             [] x = "O" -> "set_operated_mapping_matrix_with_preloads"
             [] x = "L" -> "set_linear_func_inversion_dicts"
             [] x = "C" -> "set_curvature_matrix"
             [] x = "R" -> "set_regularization_matrix_and_term"
             [] OTHER -> "unknown_setter"

\* the slots a setter owns, in a fixed order
SlotsOf(x) == CASE x = "W" -> << "w_tilde", "use_w_tilde" >>
                [] x = "G" -> << "relocated_grid" >>
                [] x = "M" -> << "mapper_list" >>
                [] x = "O" -> << "operated_mapping_matrix" >>
                [] x = "L" -> << "linear_func_operated_mapping_matrix_dict", "data_linear_func_matrix_dict" >>
                [] x = "C" -> << "curvature_matrix", "data_vector_mapper", "curvature_matrix_mapper_diag",
                                 "mapper_operated_mapping_matrix_dict" >>
                [] x = "R" -> << "regularization_matrix", "log_det_regularization_matrix_term" >>
                [] OTHER -> << >>
OwnSlots == SlotsOf("W") \o SlotsOf("G") \o SlotsOf("M") \o SlotsOf("O") \o SlotsOf("L") \o SlotsOf("C") \o SlotsOf("R")
\* slots of the object that no setter of this class owns
OtherSlots == << "image_plane_mesh_grid_pg_list", "traced_mesh_grids_list_of_planes", "image_plane_mesh_grid_list" >>
AllSlots == OwnSlots \o OtherSlots
AllSlotSet == ToSet(AllSlots)

Quantities == { "noise", "grid", "mm", "omm", "lfd", "dlf", "cm", "dvm", "cmd", "momm", "reg", "ld" }
QuantityOf(s) == CASE s = "w_tilde" -> "noise"
                   [] s = "relocated_grid" -> "grid"
                   [] s = "mapper_list" -> "mm"
                   [] s = "operated_mapping_matrix" -> "omm"
                   [] s = "linear_func_operated_mapping_matrix_dict" -> "lfd"
                   [] s = "data_linear_func_matrix_dict" -> "dlf"
                   [] s = "curvature_matrix" -> "cm"
                   [] s = "data_vector_mapper" -> "dvm"
                   [] s = "curvature_matrix_mapper_diag" -> "cmd"
                   [] s = "mapper_operated_mapping_matrix_dict" -> "momm"
                   [] s = "regularization_matrix" -> "reg"
                   [] s = "log_det_regularization_matrix_term" -> "ld"
                   [] OTHER -> "noise"
RelevantQ(x) == { QuantityOf(s) : s \in ToSet(SlotsOf(x)) \ { "use_w_tilde" } }

MapperSlots == { "relocated_grid", "mapper_list", "data_vector_mapper", "curvature_matrix_mapper_diag",
                 "mapper_operated_mapping_matrix_dict", "regularization_matrix", "log_det_regularization_matrix_term" }
FuncSlots == { "linear_func_operated_mapping_matrix_dict", "data_linear_func_matrix_dict" }

\* does fit f have the quantity that slot s would hold?  (no inversion / no mapper / no function list: it does not;
\* the noise map, from which the w-tilde slot is made, belongs to the fit itself and is always there)
Avail(f, s) == \/ s = "w_tilde"
               \/ /\ f.inv
                  /\ (s \in MapperSlots => f.nm >= 1)
                  /\ (s \in FuncSlots => f.nf >= 1)

\* the content of that quantity: id, shape class and (for lists / dicts) the number of entries
Val(f, s) ==
  IF ~ Avail(f, s) THEN None
  ELSE LET id == f.c[QuantityOf(s)] IN
       CASE s = "log_det_regularization_matrix_term" -> id
         [] s \in { "mapper_list", "mapper_operated_mapping_matrix_dict" } -> id \o ToString(f.sh) \o "x" \o ToString(f.nm)
         [] s \in FuncSlots -> id \o ToString(f.sh) \o "x" \o ToString(f.nf)
         [] OTHER -> id \o ToString(f.sh)

\* both reference fits have the quantity and it is identical in them
Agreed(s, f0, f1) == Val(f0, s) # None /\ Val(f0, s) = Val(f1, s)

Empty(v) == v = None \/ v = "false"
Filled(v) == ~ Empty(v)

\* what the statement allows a slot of the called setter to be afterwards
SlotSound(s, f0, f1, v) ==
  IF s = "use_w_tilde" THEN v \in { "false", "true" }
  ELSE v = None \/ (Agreed(s, f0, f1) /\ v = Val(f0, s))

\* the two fits have the same make-up (the situation every docstring talks about: two instances of one model)
Regular(x, f0, f1) == /\ f0.inv /\ f1.inv /\ f0.nm = f1.nm /\ f0.nf = f1.nf /\ f0.sh = f1.sh
                      /\ (x = "G" => f0.nm = 1)
                      /\ (x = "W" => f0.nm >= 1)
                      /\ (x = "L" => f0.nm >= 1)
AllAgree(x, f0, f1) == \A s \in ToSet(SlotsOf(x)) \ { "use_w_tilde" } : Agreed(s, f0, f1)

\* slots the docstrings promise to fill ("preloads X if X is the same in both fits")
MustFill(x, f0, f1) ==
  IF ~ Regular(x, f0, f1) THEN { }
  ELSE IF x = "C"
       THEN IF AllAgree(x, f0, f1) THEN { "curvature_matrix" }
            ELSE IF ~ Agreed("curvature_matrix", f0, f1) /\ Agreed("data_vector_mapper", f0, f1)
                    /\ Agreed("curvature_matrix_mapper_diag", f0, f1) /\ Agreed("mapper_operated_mapping_matrix_dict", f0, f1)
                 THEN { "data_vector_mapper", "curvature_matrix_mapper_diag", "mapper_operated_mapping_matrix_dict" }
                 ELSE { }
       ELSE IF AllAgree(x, f0, f1) THEN ToSet(SlotsOf(x)) \ { "use_w_tilde" } ELSE { }

\* info: one line per reported slot, in this order
InfoSlots == << "w_tilde", "relocated_grid", "mapper_list", "operated_mapping_matrix",
                "linear_func_operated_mapping_matrix_dict", "curvature_matrix", "curvature_matrix_mapper_diag",
                "regularization_matrix", "log_det_regularization_matrix_term" >>
InfoLabels == << "W Tilde", "Relocated Grid", "Mapper", "Blurred Mapping Matrix",
                 "Inversion Linear Func (Linear Light Profile) Dicts", "Curvature Matrix", "Curvature Matrix Mapper Diag",
                 "Regularization Matrix", "Log Det Regularization Matrix Term" >>
InfoOf(sl) == [ k \in DOMAIN InfoSlots |-> [ label |-> InfoLabels[k], on |-> (sl[InfoSlots[k]] # None) ] ]

\* check_via_fit: d4 = (figure of merit with - without) in quarters of the threshold
CheckMustRaise(c) == IF c.fomexc THEN c.dvbig \/ c.crmbig
                     ELSE (c.d4 > 4 \/ c.d4 < -4)

\* a third fit shares what the reference pair agreed on (within the groups whose setter was called)
SharesAgreed(f2, x, f0, f1) == \A s \in ToSet(SlotsOf(x)) \ { "use_w_tilde" } : Agreed(s, f0, f1) => Val(f2, s) = Val(f0, s)
\* using the slots of group x is visible to fit f2 iff a filled slot differs from f2's own quantity
VisibleIn(f2, x, sl) == \E s \in ToSet(SlotsOf(x)) \ { "use_w_tilde" } : sl[s] # None /\ sl[s] # Val(f2, s)

\* ---- bounded families of abstract fits (used by the model-checking configurations) ----
Structs == { [ inv |-> FALSE, nm |-> 0, nf |-> 0, sh |-> 0 ] } \cup
           { [ inv |-> TRUE, nm |-> k[1], nf |-> k[2], sh |-> h ] :
               k \in { << 1, 0 >>, << 2, 0 >>, << 0, 1 >>, << 1, 1 >>, << 1, 2 >> }, h \in 0 .. 1 }
Contents(x, ids) == { [ q \in Quantities |-> IF q \in RelevantQ(x) THEN g[q] ELSE "a" ] : g \in [ RelevantQ(x) -> ids ] }
Uniform(id) == [ q \in Quantities |-> id ]
Mk(st, cc) == [ inv |-> st.inv, nm |-> st.nm, nf |-> st.nf, sh |-> st.sh, c |-> cc ]
FitsFor(x, ids) == { Mk(st, cc) : st \in Structs, cc \in Contents(x, ids) }
UniformFits(ids) == { Mk(st, Uniform(id)) : st \in Structs, id \in ids }

-----------------------------------------------------------------------------
(* Layer 2: the machine -- each setter in the order of the implementation *)

VARIABLES slots,   \* slot name -> content
          lastp,   \* setter -> the last pair it was given since the object was made (<< >> = never called)
          pre0,    \* what the constructor put into the slots
          ncalls,
          vis,     \* the last UseInFit saw a difference
          exc,     \* the last call raised
          hist     \* the calls so far (hidden by VIEW)
vars == << slots, lastp, pre0, ncalls, vis, exc, hist >>
view == << slots, lastp, pre0, ncalls, vis, exc >>

NoPair == << >>
Fresh(pf) == [ s \in AllSlotSet |-> IF pf = "z" THEN (IF s = "use_w_tilde" THEN "true" ELSE "z") ELSE None ]

Init == /\ pre0 \in Prefills
        /\ slots = Fresh(pre0)
        /\ lastp = [ x \in SetterSet |-> NoPair ]
        /\ ncalls = 0 /\ vis = FALSE /\ exc = FALSE
        /\ hist = << [ a |-> "new", prefill |-> pre0 ] >>

Cleared(x) == [ s \in ToSet(SlotsOf(x)) |-> IF s = "use_w_tilde" THEN "false" ELSE None ]
FillFrom(x, f0, S) == [ s \in ToSet(SlotsOf(x)) |->
                          IF s = "use_w_tilde" THEN (IF "w_tilde" \in S THEN "true" ELSE "false")
                          ELSE IF s \in S THEN Val(f0, s) ELSE None ]
Res(m, e) == [ m |-> m, exc |-> e ]
SameId(q, f0, f1) == f0.c[q] = f1.c[q]
SameShape(f0, f1) == f0.sh = f1.sh

\* set_w_tilde_imaging: the noise maps
CodeW(f0, f1, old) ==
  IF ~ f0.inv \/ f0.nm = 0 THEN Res(Cleared("W"), FALSE)
  ELSE IF ~ SameShape(f0, f1) THEN Res(Cleared("W"), AsBuilt)                      \* pinned tree: subtracts arrays of different shapes
  ELSE IF SameId("noise", f0, f1) THEN Res(FillFrom("W", f0, { "w_tilde" }), FALSE)
  ELSE Res(Cleared("W"), FALSE)

\* set_relocated_grid: the source-plane data grid of the single mapper
CodeG(f0, f1, old) ==
  IF ~ f0.inv \/ f0.nm # 1 THEN Res(Cleared("G"), FALSE)
  ELSE IF ~ f1.inv \/ f1.nm = 0 THEN Res(Cleared("G"), AsBuilt)                    \* pinned tree: AttributeError / IndexError
  ELSE IF ~ AsBuilt /\ f1.nm # 1 THEN Res(Cleared("G"), FALSE)
  ELSE IF SameShape(f0, f1) /\ SameId("grid", f0, f1) THEN Res(FillFrom("G", f0, { "relocated_grid" }), FALSE)
  ELSE Res(Cleared("G"), FALSE)

\* set_mapper_list: the mapping matrix of the whole inversion (all linear objects side by side)
CodeM(f0, f1, old) ==
  IF ~ f0.inv \/ f0.nm = 0 THEN Res(Cleared("M"), FALSE)
  ELSE IF ~ f1.inv THEN Res(Cleared("M"), AsBuilt)
  ELSE IF f0.nm = f1.nm /\ f0.nf = f1.nf /\ SameShape(f0, f1) /\ SameId("mm", f0, f1)
       THEN Res(FillFrom("M", f0, { "mapper_list" }), FALSE)
  ELSE Res(Cleared("M"), FALSE)

\* set_operated_mapping_matrix_with_preloads
CodeO(f0, f1, old) ==
  IF ~ f0.inv THEN Res(Cleared("O"), FALSE)
  ELSE IF ~ f1.inv THEN Res(Cleared("O"), AsBuilt)
  ELSE IF SameShape(f0, f1) /\ SameId("omm", f0, f1) THEN Res(FillFrom("O", f0, { "operated_mapping_matrix" }), FALSE)
  ELSE Res(Cleared("O"), FALSE)

\* set_linear_func_inversion_dicts: the operated matrices of the linear function lists (and the data-linear-func matrices)
CodeL(f0, f1, old) ==
  LET L1 == "linear_func_operated_mapping_matrix_dict"
      L2 == "data_linear_func_matrix_dict"
      \* pinned tree: only the first of the two slots is cleared at the top
      clr == IF AsBuilt THEN [ s \in { L1, L2 } |-> IF s = L1 THEN None ELSE old[L2] ] ELSE Cleared("L")
  IN IF ~ f0.inv \/ f0.nm = 0 \/ f0.nf = 0 THEN Res(clr, FALSE)
     ELSE IF ~ f1.inv THEN Res(clr, AsBuilt)
     ELSE IF AsBuilt
          THEN \* zip() over the two dicts: the common prefix of the entries is compared, the second dict is not compared at all
               IF f1.nf >= 1 /\ SameShape(f0, f1) /\ SameId("lfd", f0, f1) THEN Res(FillFrom("L", f0, { L1, L2 }), FALSE)
               ELSE Res(clr, FALSE)
          ELSE IF f1.nm >= 1 /\ f0.nf = f1.nf /\ SameShape(f0, f1) /\ SameId("lfd", f0, f1) /\ SameId("dlf", f0, f1)
               THEN Res(FillFrom("L", f0, { L1, L2 }), FALSE)
               ELSE Res(clr, FALSE)

\* set_curvature_matrix: the whole curvature matrix, else the mapper-mapper diagonal blocks with their companions
CodeC(f0, f1, old) ==
  LET trio == { "data_vector_mapper", "curvature_matrix_mapper_diag", "mapper_operated_mapping_matrix_dict" }
  IN IF ~ f0.inv THEN Res(Cleared("C"), FALSE)
     ELSE IF ~ f1.inv THEN Res(Cleared("C"), AsBuilt)
     ELSE IF ~ SameShape(f0, f1) THEN Res(Cleared("C"), FALSE)
     ELSE IF SameId("cm", f0, f1) THEN Res(FillFrom("C", f0, { "curvature_matrix" }), FALSE)
     ELSE IF f0.nm = 0 THEN Res(Cleared("C"), FALSE)
     ELSE IF f1.nm = 0 THEN Res(Cleared("C"), AsBuilt)                             \* pinned tree: array - None
     ELSE IF AsBuilt
          THEN IF SameId("cmd", f0, f1) THEN Res(FillFrom("C", f0, trio), FALSE) ELSE Res(Cleared("C"), FALSE)
          ELSE IF f0.nm = f1.nm /\ SameId("cmd", f0, f1) /\ SameId("dvm", f0, f1) /\ SameId("momm", f0, f1)
               THEN Res(FillFrom("C", f0, trio), FALSE)
               ELSE Res(Cleared("C"), FALSE)

\* set_regularization_matrix_and_term
CodeR(f0, f1, old) ==
  LET both == { "regularization_matrix", "log_det_regularization_matrix_term" }
  IN IF ~ f0.inv \/ f0.nm = 0 THEN Res(Cleared("R"), FALSE)
     ELSE IF ~ f1.inv THEN Res(Cleared("R"), AsBuilt)
     ELSE IF AsBuilt
          THEN IF SameId("ld", f0, f1) THEN Res(FillFrom("R", f0, both), FALSE) ELSE Res(Cleared("R"), FALSE)
          ELSE IF f1.nm >= 1 /\ SameShape(f0, f1) /\ SameId("ld", f0, f1) /\ SameId("reg", f0, f1)
               THEN Res(FillFrom("R", f0, both), FALSE)
               ELSE Res(Cleared("R"), FALSE)

Code(x, f0, f1, old) == CASE x = "W" -> CodeW(f0, f1, old) [] x = "G" -> CodeG(f0, f1, old) [] x = "M" -> CodeM(f0, f1, old)
                          [] x = "O" -> CodeO(f0, f1, old) [] x = "L" -> CodeL(f0, f1, old) [] x = "C" -> CodeC(f0, f1, old)
                          [] x = "R" -> CodeR(f0, f1, old)

Dump(h) == PrintT(ToJson([ k |-> "beh", hist |-> h ]))

Set(x, p) ==
  /\ ncalls < MaxCalls
  /\ LET r == Code(x, p[1], p[2], slots)
         h == Append(hist, [ a |-> "set", x |-> x, f0 |-> p[1], f1 |-> p[2] ])
     IN /\ slots' = [ s \in AllSlotSet |-> IF s \in DOMAIN r.m THEN r.m[s] ELSE slots[s] ]
        /\ exc' = r.exc
        /\ hist' = h
        /\ Dump(h)
  /\ lastp' = [ lastp EXCEPT ![x] = p ]
  /\ ncalls' = ncalls + 1
  /\ vis' = FALSE
  /\ UNCHANGED pre0

SetW == \E p \in PairsOf["W"] : Set("W", p)
SetG == \E p \in PairsOf["G"] : Set("G", p)
SetM == \E p \in PairsOf["M"] : Set("M", p)
SetO == \E p \in PairsOf["O"] : Set("O", p)
SetL == \E p \in PairsOf["L"] : Set("L", p)
SetC == \E p \in PairsOf["C"] : Set("C", p)
SetR == \E p \in PairsOf["R"] : Set("R", p)

\* a new Preloads object
Reset == /\ ncalls > 0 /\ ncalls < MaxCalls
         /\ \E pf \in Prefills :
              /\ pre0' = pf /\ slots' = Fresh(pf)
              /\ hist' = Append(hist, [ a |-> "new", prefill |-> pf ])
         /\ lastp' = [ x \in SetterSet |-> NoPair ]
         /\ vis' = FALSE /\ exc' = FALSE
         /\ UNCHANGED ncalls

Called == { x \in SetterSet : lastp[x] # NoPair }
ThirdFits == ExtraThird \cup UNION { { lastp[x][1], lastp[x][2] } : x \in Called }

\* a third fit that shares everything the reference pairs agreed on reads the slots of the called setters
UseInFit == /\ ncalls > 0 /\ ~ exc
            /\ \E f2 \in ThirdFits :
                 /\ \A x \in Called : SharesAgreed(f2, x, lastp[x][1], lastp[x][2])
                 /\ vis' = (\E x \in Called : VisibleIn(f2, x, slots))
                 /\ hist' = Append(hist, [ a |-> "use", f2 |-> f2 ])
            /\ UNCHANGED << slots, lastp, pre0, ncalls, exc >>

Next == SetW \/ SetG \/ SetM \/ SetO \/ SetL \/ SetC \/ SetR \/ Reset \/ UseInFit
Spec == Init /\ [][Next]_vars

-----------------------------------------------------------------------------
(* Layer 3: properties *)

\* a slot of a called setter is filled only with a quantity that is identical in the pair it was last called with
SlotOnlyIfAgreed ==
  \A x \in Called : \A s \in ToSet(SlotsOf(x)) \ { "use_w_tilde" } :
     slots[s] # None => Agreed(s, lastp[x][1], lastp[x][2])

\* ... and it is that pair's value: nothing written earlier (by the constructor or by a call with other fits) survives
NoStaleSlot ==
  /\ \A x \in Called : \A s \in ToSet(SlotsOf(x)) : SlotSound(s, lastp[x][1], lastp[x][2], slots[s])
  /\ ("W" \in Called) => ((slots["use_w_tilde"] = "true") = (slots["w_tilde"] # None))
  /\ \A s \in AllSlotSet : (\A x \in Called : s \notin ToSet(SlotsOf(x))) => slots[s] = Fresh(pre0)[s]

\* the slots are a function of the last pair given to each setter: order and repetition of the calls do not matter
OrderIndependent ==
  \A x \in Called : \A s \in ToSet(SlotsOf(x)) :
     slots[s] = Code(x, lastp[x][1], lastp[x][2], Fresh("none")).m[s]

\* no call raises, whatever the pair
NoCallRaises == ~ exc

\* a third fit sharing the agreed quantities cannot tell that the preloads are used
UsingAgreedSlotsIsInvisible == ~ vis

\* the docstrings' promise: what is the same in two fits of one model is preloaded
FillsWhatIsDocumented ==
  \A x \in Called : \A s \in MustFill(x, lastp[x][1], lastp[x][2]) : slots[s] = Val(lastp[x][1], s)

\* info reports exactly the filled slots among the nine it lists
InfoListsFilledSlots == \A k \in DOMAIN InfoSlots : InfoOf(slots)[k].on = Filled(slots[InfoSlots[k]])
=============================================================================
