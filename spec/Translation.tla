----------------------------- MODULE Translation -----------------------------
(***************************************************************************)
(* C12: all geometry is covariant under translation of the coordinate      *)
(* origin.                                                                 *)
(*                                                                         *)
(* Layer 1 (meaning), on the half-tick lattice (pixel scales multiples of  *)
(* 4u, origins and translation vectors multiples of 2u, query points odd   *)
(* multiples of u): the pixel-centre map, its inverse (index of a point),  *)
(* the extent, sub-pixel centres, the padded frame, the bounding window.   *)
(* Layer 2: Init picks a frame, scales, an origin and a translation d;     *)
(* Observe evaluates every defined observation at the origin and at the    *)
(* translated origin.                                                      *)
(* Layer 3: Covariance -- coordinate-valued observations shift by exactly  *)
(* d, index-valued ones do not change.  For entry points of the library    *)
(* without a closed definition here (radial projection, Hilbert mesh,      *)
(* noise scaling, simulator) the property IS this relation, which is what  *)
(* Trace_Translation.tla checks on recorded pairs of executions.           *)
(***************************************************************************)
EXTENDS Integers, Sequences, FiniteSets, TLC, Json

CONSTANTS Shapes, Scales, Origins, Shifts, Subs

FloorDiv(a, b) == IF a >= 0 THEN a \div b ELSE -((-a + b - 1) \div b)   \* b > 0

\* geometry of an H x W frame with scales (sy, sx) and origin (oy, ox), all in half-ticks
Centre(i, j, H, W, sy, sx, oy, ox) == << oy + ((H - 1 - 2*i) * sy) \div 2, ox + ((2*j - W + 1) * sx) \div 2 >>
Top(H, sy, oy) == oy + (H * sy) \div 2
Left(W, sx, ox) == ox - (W * sx) \div 2
IndexOf(y, x, H, W, sy, sx, oy, ox) == << FloorDiv(Top(H, sy, oy) - y, sy), FloorDiv(x - Left(W, sx, ox), sx) >>
Extent(H, W, sy, sx, oy, ox) == << Left(W, sx, ox), Left(W, sx, ox) + W*sx, Top(H, sy, oy) - H*sy, Top(H, sy, oy) >>
\* centre of sub-pixel (a, b) of an n x n partition of pixel (i, j): requires sy, sx multiples of 2n
SubCentre(i, j, a, b, n, H, W, sy, sx, oy, ox) ==
  LET c == Centre(i, j, H, W, sy, sx, oy, ox)
  IN << c[1] + (sy \div 2) - ((2*a + 1) * sy) \div (2*n), c[2] - (sx \div 2) + ((2*b + 1) * sx) \div (2*n) >>
\* the frame padded for a kh x kw kernel keeps its centre: same origin, larger shape
PaddedCentre(i, j, kh, kw, H, W, sy, sx, oy, ox) == Centre(i, j, H + kh - 1, W + kw - 1, sy, sx, oy, ox)

VARIABLES frame, phase, obs0, obs1
vars == << frame, phase, obs0, obs1 >>

Init == /\ frame \in [shape : Shapes, sy : Scales, sx : Scales, oy : Origins, ox : Origins, dy : Shifts, dx : Shifts, n : Subs]
        /\ phase = "given" /\ obs0 = << >> /\ obs1 = << >>

ObsAt(f, oy, ox) ==
  LET H == f.shape[1] W == f.shape[2] IN
  [ centres |-> [i \in 0 .. H-1 |-> [j \in 0 .. W-1 |-> Centre(i, j, H, W, f.sy, f.sx, oy, ox)]],
    extent  |-> Extent(H, W, f.sy, f.sx, oy, ox),
    subs    |-> [a \in 0 .. f.n-1 |-> [b \in 0 .. f.n-1 |-> SubCentre(0, W-1, a, b, f.n, H, W, f.sy, f.sx, oy, ox)]],
    padded  |-> PaddedCentre(0, 0, 3, 5, H, W, f.sy, f.sx, oy, ox) ]

Observe == /\ phase = "given"
           /\ obs0' = ObsAt(frame, frame.oy, frame.ox)
           /\ obs1' = ObsAt(frame, frame.oy + frame.dy, frame.ox + frame.dx)
           /\ phase' = "observed"
           /\ UNCHANGED frame
Next == Observe
Spec == Init /\ [][Next]_vars

Shift(p, f) == << p[1] + f.dy, p[2] + f.dx >>
Seen == phase = "observed"
\* coordinate-valued results translate by exactly d
CoordinatesCovariant ==
  Seen => LET H == frame.shape[1] W == frame.shape[2] IN
          /\ \A i \in 0 .. H-1, j \in 0 .. W-1 : obs1.centres[i][j] = Shift(obs0.centres[i][j], frame)
          /\ obs1.extent = << obs0.extent[1] + frame.dx, obs0.extent[2] + frame.dx, obs0.extent[3] + frame.dy, obs0.extent[4] + frame.dy >>
          /\ \A a, b \in 0 .. frame.n-1 : obs1.subs[a][b] = Shift(obs0.subs[a][b], frame)
          /\ obs1.padded = Shift(obs0.padded, frame)
\* index-valued results of correspondingly translated points do not change (every odd lattice point inside the extent)
IndicesInvariant ==
  Seen => LET H == frame.shape[1] W == frame.shape[2] e == obs0.extent IN
          \A y \in {v \in e[3] .. e[4] : v % 2 # 0}, x \in {v \in e[1] .. e[2] : v % 2 # 0} :
             IndexOf(y + frame.dy, x + frame.dx, H, W, frame.sy, frame.sx, frame.oy + frame.dy, frame.ox + frame.dx)
               = IndexOf(y, x, H, W, frame.sy, frame.sx, frame.oy, frame.ox)
\* a pixel centre lies in its own pixel wherever the origin is
CentreIndexRoundTrip ==
  Seen => LET H == frame.shape[1] W == frame.shape[2] IN
          \A i \in 0 .. H-1, j \in 0 .. W-1 :
             IndexOf(obs1.centres[i][j][1], obs1.centres[i][j][2], H, W, frame.sy, frame.sx, frame.oy + frame.dy, frame.ox + frame.dx) = << i, j >>
=============================================================================
