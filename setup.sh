#!/bin/sh
# Offline setup: parse every TLA+ module with SANY, create work directories. No network, no compilation.
HERE="$(cd "$(dirname "$0")" && pwd)"
cd "$HERE" || exit 2
mkdir -p evidence .work
rc=0
for f in spec/*.tla; do
  out=$(cd spec && java -Djava.io.tmpdir="$HERE/.work" -cp /opt/veriftools/tla/tla2tools.jar:/opt/veriftools/tla/CommunityModules-deps.jar tla2sany.SANY "$(basename "$f")" 2>&1)
  if echo "$out" | grep -q -i -e "^\*\*\* Errors" -e "Fatal errors" -e "Could not"; then echo "SANY FAILED: $f"; echo "$out" | tail -20; rc=2; fi
done
[ $rc -eq 0 ] && echo "setup ok: $(ls spec/*.tla | wc -l) TLA+ modules parsed"
exit $rc
