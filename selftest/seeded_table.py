#!/venv/bin/python
"""print the markdown table of independently seeded changes (from seeded/*/meta.json)"""
import glob, json, os, re


def key(d):
    n = os.path.basename(d.rstrip("/"))
    m = re.match(r"([CX]\d+)_seed(\d+)(.*)", n)
    return (m.group(1), int(m.group(2)), m.group(3)) if m else (n, 0, "")


rows = []
for d in sorted(glob.glob("/verif/seeded/*/"), key=key):
    m = json.load(open(d + "meta.json"))
    name = os.path.basename(d.rstrip("/"))
    c = m.get("check", {})
    conf = m.get("confirmed", {})
    if m.get("neutralised_by"):
        res = "neutralised by a later fix"
    elif c.get("caught"):
        res = "caught"
    else:
        via = [os.path.basename(x.rstrip("/")).split("_via")[1] for x in glob.glob(f"/verif/seeded/{name}_via*/") if json.load(open(x + "meta.json")).get("check", {}).get("caught")]
        res = ("not by this check; caught by " + ", ".join(via)) if "_via" not in name and via else "MISSED"
    sig = ""
    fv = c.get("first_violations") or []
    if fv and "#" in fv[0]:
        sig = fv[0].split("#", 1)[1].strip().split(":")[0:3]
        sig = ":".join(sig)[:70]
    rows.append((name, m.get("property"), (m.get("summary") or "")[:170].replace("|", "/").replace("\n", " "),
                 (m.get("needs") or "")[:130].replace("|", "/").replace("\n", " "),
                 f"{conf.get('demo_exit_unpatched')}/{conf.get('demo_exit_patched')}", res, sig.replace("|", "/")))
print("| seeded change | check run | what was changed | what it needs to manifest | demo exit (clean/patched) | result | first signature |")
print("|---|---|---|---|---|---|---|")
for r in rows:
    print("| " + " | ".join(str(x) for x in r) + " |")
n = len(rows)
print()
print(f"{n} entries; {sum(1 for r in rows if r[5] == 'caught')} caught by the check run, "
      f"{sum(1 for r in rows if r[5].startswith('neutralised'))} neutralised by later fixes in /repo, "
      f"{sum(1 for r in rows if r[5].startswith('not by this check'))} decided by another property's check (see the `_via` entry), "
      f"{sum(1 for r in rows if r[5] == 'MISSED')} missed.")
