#!/venv/bin/python
"""print the markdown table of independently seeded changes (from seeded/*/meta.json)"""
import glob, json, os
rows = []
for d in sorted(glob.glob("/verif/seeded/*/")):
    m = json.load(open(d + "meta.json"))
    name = os.path.basename(d.rstrip("/"))
    c = m.get("check", {})
    rows.append((name, m.get("property"), (m.get("summary") or "")[:150].replace("|", "/").replace("\n", " "),
                 (m.get("needs") or "")[:150].replace("|", "/").replace("\n", " "),
                 "caught" if c.get("caught") else "MISSED", c.get("command", "").split("./check ")[-1]))
print("| seeded change | breaks | what was changed | what it needs to manifest | result | check run |")
print("|---|---|---|---|---|---|")
for r in rows:
    print("| " + " | ".join(str(x) for x in r) + " |")
