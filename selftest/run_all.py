#!/venv/bin/python
"""Self-test of the machinery: every check must exit 0 on the unchanged tree; every mutant in selftest/mutants and every seeded
change in seeded/ must be reported (exit 1 with VIOLATION lines) by the check of its property.
usage: selftest/run_all.py [--jobs N] [--only C07] [--skip-clean]   -> writes selftest/RESULTS.md"""
import argparse, concurrent.futures as cf, glob, json, os, re, shutil, subprocess, tempfile, time

VERIF = "/verif"


def run_on(patch, pid, tier="quick"):
    s = tempfile.mkdtemp(prefix="verif-selftest-", dir="/var/tmp")
    try:
        subprocess.run(["rsync", "-a", "--exclude", ".git", "--exclude", "__pycache__", "/repo/", s + "/"], check=True)
        if patch:
            r = subprocess.run(["git", "apply", "--whitespace=nowarn", patch], cwd=s, capture_output=True, text=True)
            if r.returncode != 0:
                return ("PATCH-FAILED", 0, r.stderr[:200])
        env = dict(os.environ, VERIF_REPO=s, VERIF_EVIDENCE_DIR=s + ".ev")
        t0 = time.time()
        p = subprocess.run([VERIF + "/check", pid, "--tier", tier], env=env, capture_output=True, text=True)
        viol = [l for l in p.stdout.splitlines() if l.startswith("VIOLATION")]
        sig = ""
        if viol:
            m = re.search(r"#\s*([^:]+(?::[^:]+)?)", viol[0])
            sig = viol[0].split("#", 1)[1].strip()[:110] if "#" in viol[0] else ""
        return (p.returncode, len(viol), sig, round(time.time() - t0))
    finally:
        shutil.rmtree(s, ignore_errors=True)
        shutil.rmtree(s + ".ev", ignore_errors=True)


def main():
    ap = argparse.ArgumentParser()
    ap.add_argument("--jobs", type=int, default=4)
    ap.add_argument("--only", default=None)
    ap.add_argument("--skip-clean", action="store_true")
    ap.add_argument("--no-seeded", action="store_true")
    a = ap.parse_args()
    jobs = []
    pids = sorted({os.path.basename(f)[:3] for f in glob.glob(VERIF + "/selftest/mutants/[CX]*.diff")})
    if not a.skip_clean:
        for pid in [f"C{k:02d}" for k in range(1, 21)] + [f"X{k:02d}" for k in range(1, 16)]:
            if a.only and pid != a.only:
                continue
            jobs.append(("clean", pid, None, pid))
    for f in sorted(glob.glob(VERIF + "/selftest/mutants/[CX]*.diff")):
        pid = os.path.basename(f)[:3]
        if a.only and pid != a.only:
            continue
        jobs.append(("mutant", os.path.basename(f)[:-5], f, pid))
    for d in ([] if a.no_seeded else sorted(glob.glob(VERIF + "/seeded/*/"))):
        m = json.load(open(d + "meta.json"))
        pid = m["check"]["command"].split("./check ")[1].split()[0]
        if a.only and pid != a.only:
            continue
        jobs.append(("seeded", os.path.basename(d.rstrip("/")), d + "patch.diff", pid))
    out = {}
    with cf.ThreadPoolExecutor(max_workers=a.jobs) as ex:
        futs = {ex.submit(run_on, j[2], j[3]): j for j in jobs}
        for fu in cf.as_completed(futs):
            j = futs[fu]
            out[(j[0], j[1])] = (j[3],) + tuple(fu.result())
            print(j[0], j[1], out[(j[0], j[1])], flush=True)
    lines = ["# Self-test results (selftest/run_all.py, quick tier)", "", "| kind | name | check | exit | VIOLATION lines | first signature | wall s | verdict |", "|---|---|---|---|---|---|---|---|"]
    bad = 0
    for (kind, name), v in sorted(out.items()):
        pid, rc, nv, sig = v[0], v[1], v[2], v[3] if len(v) > 3 else ""
        wall = v[4] if len(v) > 4 else ""
        ok = (rc == 0 and nv == 0) if kind == "clean" else (rc == 1 and nv > 0)
        bad += 0 if ok else 1
        lines.append(f"| {kind} | {name} | {pid} | {rc} | {nv} | {str(sig).replace('|', '/')} | {wall} | {'ok' if ok else '**NOT OK**'} |")
    lines.append("")
    lines.append(f"{len(out)} runs, {bad} not ok.")
    open(VERIF + "/selftest/RESULTS.md", "w").write("\n".join(lines) + "\n")
    print(f"{len(out)} runs, {bad} not ok")


if __name__ == "__main__":
    main()
