#!/venv/bin/python
"""usage: mkmutant.py <out.diff> <repo-relative-file> <old> <new> [<file2> <old2> <new2> ...]
Creates a unified diff (against /repo's current file) replacing the first occurrence of <old> by <new>."""
import difflib, sys
out = sys.argv[1]
args = sys.argv[2:]
diff = []
for k in range(0, len(args), 3):
    f, old, new = args[k:k+3]
    src = open(f"/repo/{f}", newline="").read()
    nl = "\r\n" if "\r\n" in src else "\n"
    old = old.encode().decode("unicode_escape").replace("\n", nl); new = new.encode().decode("unicode_escape").replace("\n", nl)
    assert src.count(old) >= 1, f"pattern not found in {f}: {old!r}"
    dst = src.replace(old, new, 1)
    diff += list(difflib.unified_diff(src.splitlines(True), dst.splitlines(True), f"a/{f}", f"b/{f}"))
open(out, "w", newline="").write("".join(diff))
print("".join(diff))
