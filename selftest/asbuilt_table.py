#!/venv/bin/python
"""print the as-built table (one row per check) from the registry, the committed quick-tier evidence, the mutants and the seeded changes"""
import glob, json, os, re

rows = []
ids = [f"C{k:02d}" for k in range(1, 21)] + sorted(os.path.basename(f)[:-5] for f in glob.glob("/verif/harness/extras.d/X*.json"))
for i in ids:
    reg = f"/verif/harness/registry.d/{i}.json" if i.startswith("C") else f"/verif/harness/extras.d/{i}.json"
    r = json.load(open(reg))
    ev = {}
    if os.path.exists(f"/verif/evidence/{i}.json"):
        ev = json.load(open(f"/verif/evidence/{i}.json"))
    cov = ev.get("coverage", {})
    nm = len(glob.glob(f"/verif/selftest/mutants/{i}_*.diff"))
    seeds = [d for d in glob.glob(f"/verif/seeded/{i}_seed*/") if "_via" not in d]
    kf = 0
    for f in glob.glob("/verif/known_findings.json") + glob.glob("/verif/known_findings.d/*.json"):
        for x in json.load(open(f)).get("findings", []):
            if x.get("property") == i and x.get("status") == "open":
                kf += 1
    lines = 0
    for m in r.get("modules", []):
        p = f"/verif/spec/{m}.tla"
        if os.path.exists(p):
            lines += sum(1 for _ in open(p))
    rows.append((i, ", ".join(r.get("modules", [])), lines, cov.get("states", ""), cov.get("spec_states_replayed_into_impl", ""),
                 cov.get("traces_validated_against_impl", ""), ev.get("wall_s", ""), nm, len(seeds), kf))
print("| check | TLA+ modules | spec lines | TLC states (quick) | instances / behaviours replayed into the code | records judged by the trace spec | quick wall s | mutants | seeded changes | open findings (signatures) |")
print("|---|---|---|---|---|---|---|---|---|---|")
for r in rows:
    print("| " + " | ".join(str(x) for x in r) + " |")
