#!/bin/sh
# usage: selftest/run_mutant.sh <patch.diff> <ID> [tier] [--with-tests]
# Applies the patch to a scratch copy of $VERIF_REPO_SRC (default /repo) outside /repo and /verif, runs ./check <ID> on it,
# prints the exit code, removes the scratch copy.
PATCH="$(realpath "$1")"; ID="$2"; TIER="${3:-quick}"; WT="$4"
SRC="${VERIF_REPO_SRC:-/repo}"
S="/var/tmp/verif-scratch-$$"
rm -rf "$S"; mkdir -p "$S"
rsync -a --exclude .git --exclude __pycache__ "$SRC"/ "$S"/
( cd "$S" && git apply --whitespace=nowarn "$PATCH" ) || { echo "PATCH FAILED"; rm -rf "$S"; exit 3; }
HERE="$(cd "$(dirname "$0")/.." && pwd)"
if [ "$WT" = "--with-tests" ]; then
  ( cd "$S" && PYTHONDONTWRITEBYTECODE=1 /venv/bin/python -m pytest -q -x -p no:cacheprovider test_autoarray 2>&1 | tail -3 )
fi
VERIF_EVIDENCE_DIR="$S.ev" VERIF_REPO="$S" "$HERE/check" "$ID" --tier "$TIER" 2>/dev/null | grep -E "^(VIOLATION|KNOWN-FINDING|\[[CX])" | cut -c1-300 | head -8
RC=$?
rm -rf "$S" "$S.ev"
