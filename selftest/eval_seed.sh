#!/bin/sh
# usage: selftest/eval_seed.sh <dir with patch.diff demo.py meta.json> <PROPERTY-ID> <seeded-name> [tier]
# Confirms a seeded change (tests still pass, demo fails with / passes without), runs the check on it, and files it under
# /verif/seeded/<seeded-name>/ with what was run. Scratch copy lives outside /repo and /verif and is removed.
D="$(realpath "$1")"; ID="$2"; NAME="$3"; TIER="${4:-quick}"
HERE="$(cd "$(dirname "$0")/.." && pwd)"
S="/var/tmp/verif-seed-$$"
rm -rf "$S"; mkdir -p "$S"; rsync -a --exclude .git --exclude __pycache__ /repo/ "$S"/
( cd "$S" && git apply --whitespace=nowarn "$D/patch.diff" ) || { echo "PATCH FAILED"; rm -rf "$S"; exit 3; }
TESTS=$(cd "$S" && PYTHONDONTWRITEBYTECODE=1 /venv/bin/python -m pytest -q -p no:cacheprovider test_autoarray 2>&1 | tail -1)
PYTHONPATH=/repo PYTHONDONTWRITEBYTECODE=1 /venv/bin/python "$D/demo.py" >/dev/null 2>&1; D0=$?
PYTHONPATH="$S" PYTHONDONTWRITEBYTECODE=1 /venv/bin/python "$D/demo.py" >/dev/null 2>&1; D1=$?
OUT=$(VERIF_EVIDENCE_DIR="$S.ev" VERIF_REPO="$S" "$HERE/check" "$ID" --tier "$TIER" 2>&1); RC=$?
VLINES=$(echo "$OUT" | grep -c "^VIOLATION")
FIRST=$(echo "$OUT" | grep "^VIOLATION" | head -2 | cut -c1-400)
rm -rf "$S" "$S.ev"
mkdir -p "$HERE/seeded/$NAME"
cp "$D/patch.diff" "$D/demo.py" "$HERE/seeded/$NAME/"
/venv/bin/python - "$D/meta.json" "$HERE/seeded/$NAME/meta.json" "$ID" "$TESTS" "$D0" "$D1" "$RC" "$VLINES" "$TIER" "$FIRST" <<'PY'
import json, sys
src, dst, pid, tests, d0, d1, rc, vl, tier, first = sys.argv[1:11]
try: m = json.load(open(src))
except Exception: m = {}
m.update({"property": pid, "confirmed": {"repo_tests_with_patch": tests, "demo_exit_unpatched": int(d0), "demo_exit_patched": int(d1)},
          "check": {"command": f"VERIF_REPO=<scratch copy with patch> ./check {pid} --tier {tier}", "exit_code": int(rc), "violation_lines": int(vl),
                    "caught": int(rc) == 1, "first_violations": first.splitlines()}})
json.dump(m, open(dst, "w"), indent=1)
print(f"[{pid}] tests: {tests} | demo unpatched={d0} patched={d1} | check exit={rc} violations={vl}")
PY
